//! C57 — length-prefixed protobuf codec (`prost_codec::Codec`) round-trips under any split, rejects an
//! oversize declared length before the payload is there, never panics on arbitrary bytes.
//!
//! Real code: `prost_codec::Codec<proto::Message>` inside `asynchronous_codec::FramedWrite/FramedRead`.
//! Independent side: `vmon::pb` (uvarint framing + protobuf field codec written from the wire spec).
//!
//! Sub-workloads (all in one run):
//!  A  message sequences (sizes around 0/1/127/128/16383/16384 and the codec limit L, including
//!     messages whose encoded length is exactly L): real encode → reference decode must give the
//!     same payloads; reference encode (incl. unknown fields, explicit empty field) and the real wire →
//!     real decode under every single split (wire ≤ 96 bytes: exhaustive), frame-boundary splits,
//!     PRNG k-splits, byte-by-byte, with and without spurious Pending: decoded sequence == encoded
//!     sequence, then clean end of stream.
//!  B  oversize: a prefix declaring L+1 .. 2^63 after 0–2 good messages, *only the prefix fed* and
//!     the reader held open: the stream must yield the good messages and then `Err` without needing
//!     a single payload byte (a `Pending` that waits for input is the violation), and the read
//!     buffer must not have been grown for the payload.
//!  C  arbitrary bytes: all strings of length ≤ 2, PRNG strings, mutated valid wires: no panic, and
//!     split-invariance (one-shot result == result under a PRNG split).
//!
//! Not judged: *which* error is returned; non-minimal varint prefixes; what is decoded from
//! byte strings that are not a valid encoding (only panic-freedom and split-invariance there).
use asynchronous_codec::{FramedRead, FramedWrite};
use futures::SinkExt;
use prost_codec::{Codec, proto::Message};
use std::time::Duration;
use vmon::{Args, Check, Rng, Sig, catch, exec::block_on_timeout, json, pb, pipe};

use crate::util::{self, ChunkReader, DrainEnd, drain_stream};

type Cdc = Codec<Message>;

fn uvl(v: u64) -> usize {
    pb::uvarint(v).len()
}
/// protobuf body length of `Message{data}` (proto3: empty field omitted)
fn body_len(d: usize) -> usize {
    if d == 0 { 0 } else { 1 + uvl(d as u64) + d }
}
/// largest data length whose body fits in `l`
fn dmax(l: usize) -> usize {
    if l < 3 {
        return 0;
    }
    let mut d = l - 2;
    while body_len(d) > l {
        d -= 1;
    }
    d
}

const LIMITS: [usize; 12] = [1, 2, 3, 16, 129, 130, 131, 1024, 16386, 16387, 70_000, 1 << 20];

fn gen_sizes(rng: &mut Rng, l: usize) -> Vec<usize> {
    let m = dmax(l);
    let k = 1 + rng.usize(5);
    (0..k)
        .map(|_| match rng.usize(10) {
            0 => 0,
            1 => 1.min(m),
            2 | 3 => m,
            4 => m.saturating_sub(1),
            5 => 127.min(m),
            6 => 128.min(m),
            7 => rng.usize(m.min(300) + 1),
            8 => rng.usize(m + 1).min(40_000),
            _ => rng.usize(m.min(20) + 1),
        })
        .collect()
}

fn payload(rng: &mut Rng, idx: usize, n: usize) -> Vec<u8> {
    // tagged so that a shifted/mixed payload cannot compare equal by accident
    let mut v = rng.bytes(n);
    for (i, b) in v.iter_mut().enumerate().take(4) {
        *b = (idx as u8).wrapping_mul(31).wrapping_add(i as u8);
    }
    v
}

/// real encoder through FramedWrite over a chunking pipe; returns the wire bytes
fn real_encode(msgs: &[Vec<u8>], l: usize, rng: &mut Rng) -> Result<Vec<u8>, String> {
    let mut sched = pipe::Sched::random(rng);
    let total: usize = msgs.iter().map(|m| m.len()).sum();
    if total > 50_000 {
        // byte-wise writes of a megabyte only burn time; keep partial writes, but coarse
        sched.max_write = sched.max_write.max(4096);
        sched.pend_write = sched.pend_write.min(20);
        sched.pend_flush = sched.pend_flush.min(20);
    }
    let (a, _b, a2b, _) = pipe::pipe(sched, pipe::Sched::smooth());
    let mut fw = FramedWrite::new(a, Cdc::new(l));
    for m in msgs {
        let r = block_on_timeout(fw.send(Message { data: m.clone() }), Duration::from_secs(20));
        match r {
            None => return Err("watchdog".into()),
            Some(Err(e)) => return Err(format!("encode error: {e}")),
            Some(Ok(())) => {}
        }
    }
    Ok(a2b.log())
}

/// reference decoder: the complete list of payloads in `wire`, or None if it is not a sequence of
/// complete frames each holding a well-formed message with at most bytes-field 1 / skippable fields
fn ref_decode(wire: &[u8]) -> Option<Vec<Vec<u8>>> {
    // non-minimal length prefixes (e.g. 80 00) are "not judged": no opinion
    {
        let mut b = wire;
        while !b.is_empty() {
            let (v, k) = pb::get_uvarint(b)?;
            if pb::uvarint(v).len() != k || b.len() < k + v as usize {
                return None;
            }
            b = &b[k + v as usize..];
        }
    }
    let (frames, rest) = pb::unframe(wire);
    if !rest.is_empty() {
        return None;
    }
    let mut out = vec![];
    for f in frames {
        if !plain_body(&f) {
            return None;
        }
        let m = pb::Msg::decode(&f)?;
        for (n, v) in &m.fields {
            if *n == 1 && !matches!(v, pb::Val::Bytes(_)) {
                return None;
            }
        }
        out.push(m.get_bytes(1).map(|b| b.to_vec()).unwrap_or_default());
    }
    Some(out)
}

/// the reference has an opinion only on bodies made of ordinary fields: field numbers 1..2^29-1,
/// wire types 0/1/2/5, no 10-byte varints (overflow rules), everything complete
fn plain_body(mut b: &[u8]) -> bool {
    fn vi(b: &[u8]) -> Option<(u64, usize)> {
        let r = pb::get_uvarint(b)?;
        if r.1 >= 10 { None } else { Some(r) }
    }
    while !b.is_empty() {
        let Some((key, k)) = vi(b) else { return false };
        b = &b[k..];
        let field = key >> 3;
        if field == 0 || field > (1 << 29) - 1 {
            return false;
        }
        match key & 7 {
            0 => {
                let Some((_, k)) = vi(b) else { return false };
                b = &b[k..];
            }
            1 => {
                if b.len() < 8 {
                    return false;
                }
                b = &b[8..];
            }
            2 => {
                let Some((n, k)) = vi(b) else { return false };
                if ((b.len() - k) as u64) < n {
                    return false;
                }
                b = &b[k + n as usize..];
            }
            5 => {
                if b.len() < 4 {
                    return false;
                }
                b = &b[4..];
            }
            _ => return false,
        }
    }
    true
}

/// reference encoder with harmless variations a conforming decoder must accept
fn ref_encode(msgs: &[Vec<u8>], l: usize, rng: &mut Rng) -> Vec<u8> {
    let mut wire = vec![];
    for m in msgs {
        let mut pm = pb::Msg::new();
        let canonical_len = body_len(m.len());
        let variant = rng.usize(4);
        if variant == 1 && canonical_len + 2 <= l {
            pm = pm.varint(2, 7); // unknown field before
        }
        if !m.is_empty() || (variant == 2 && 2 <= l) {
            pm = pm.bytes(1, m);
        }
        if variant == 3 && canonical_len + 5 <= l {
            pm = pm.bytes(3, b"xyz"); // unknown field after
        }
        wire.extend(pb::frame(&pm.encode()));
    }
    wire
}

#[derive(Debug, PartialEq, Eq, Clone)]
enum Item {
    Msg(Vec<u8>),
    Err,
}

/// run the real decoder over `wire` cut at `cuts`
fn real_decode(wire: &[u8], l: usize, cuts: Vec<usize>, pend: bool, eof: bool) -> (Vec<Item>, DrainEnd, usize, usize) {
    let rd = ChunkReader::new(wire.to_vec(), cuts, pend, eof);
    let mut fr = FramedRead::new(rd, Cdc::new(l));
    let (items, end) = drain_stream(&mut fr, 4 * wire.len() + 64);
    let cap = fr.read_buffer().capacity();
    let consumed = fr.consumed();
    (
        items
            .into_iter()
            .map(|r| match r {
                Ok(m) => Item::Msg(m.data),
                Err(_) => Item::Err,
            })
            .collect(),
        end,
        cap,
        consumed,
    )
}

fn cut_sets(rng: &mut Rng, wire: &[u8], boundaries: &[usize], thorough: bool) -> Vec<(Vec<usize>, bool)> {
    let n = wire.len();
    let mut sets: Vec<(Vec<usize>, bool)> = vec![(vec![], false)];
    if n <= 96 || (thorough && n <= 600) {
        for i in 1..n {
            sets.push((vec![i], rng.chance(1, 4)));
        }
    } else {
        for b in boundaries {
            for d in [-2i64, -1, 0, 1, 2, 3] {
                let c = *b as i64 + d;
                if c > 0 && (c as usize) < n {
                    sets.push((vec![c as usize], false));
                }
            }
        }
    }
    if n <= 2000 {
        sets.push(((1..n).collect(), false)); // byte by byte
    }
    for _ in 0..3 {
        let k = 1 + rng.usize(8);
        sets.push((util::random_cuts(rng, n, k), rng.bool()));
    }
    // pairs of cuts around a boundary (prefix split from both neighbours)
    if let Some(b) = boundaries.get(rng.usize(boundaries.len().max(1))) {
        if *b + 1 < n && *b > 0 {
            sets.push((vec![*b, *b + 1], true));
        }
    }
    sets
}

fn witness(l: usize, sizes: &[usize], wire: &[u8], cuts: &[usize]) -> vmon::Value {
    json!({"limit": l, "data_sizes": sizes, "wire": util::short_hex(wire), "wire_len": wire.len(), "cuts": cuts.iter().take(16).collect::<Vec<_>>()})
}

fn roundtrip_case(check: &Check, rng: &mut Rng, thorough: bool, tiny: bool) {
    let l = if tiny { *rng.pick(&LIMITS[..7]) } else { *rng.pick(&LIMITS) };
    let sizes = gen_sizes(rng, l);
    let msgs: Vec<Vec<u8>> = sizes.iter().enumerate().map(|(i, n)| payload(rng, i, *n)).collect();
    let exact = sizes.iter().any(|d| body_len(*d) == l);

    // real encoder -> reference decoder
    let wire = match catch(|| real_encode(&msgs, l, rng)) {
        Err(p) => {
            check.violation(format!("panic@{}", p.site()), format!("encoder panic: {}", p.msg), json!({"limit": l, "data_sizes": sizes}));
            return;
        }
        Ok(Err(e)) if e == "watchdog" => {
            check.inconclusive("encode watchdog");
            return;
        }
        Ok(Err(e)) => {
            check.violation("encode-valid-message-failed", e, json!({"limit": l, "data_sizes": sizes}));
            return;
        }
        Ok(Ok(w)) => w,
    };
    match ref_decode(&wire) {
        Some(got) if got == msgs => {}
        other => {
            check.violation(
                "encode-wire-mismatch",
                format!("reference decoder reads {:?} messages from the encoder's output, expected {}", other.map(|v| v.len()), msgs.len()),
                witness(l, &sizes, &wire, &[]),
            );
            return;
        }
    }
    check.count("messages_encoded", msgs.len() as u64);

    // both wires -> real decoder under splits
    let alt = ref_encode(&msgs, l, rng);
    for (which, w) in [("real-wire", &wire), ("reference-wire", &alt)] {
        let mut boundaries = vec![];
        {
            let mut off = 0;
            let (frames, _) = pb::unframe(w);
            for f in frames {
                off += uvl(f.len() as u64) + f.len();
                boundaries.push(off);
            }
        }
        let sets = cut_sets(rng, w, &boundaries, thorough);
        let want: Vec<Item> = msgs.iter().cloned().map(Item::Msg).collect();
        for (cuts, pend) in sets {
            let ncuts = cuts.len();
            let r = catch(|| real_decode(w, l, cuts.clone(), pend, true));
            check.count("split_schedules", 1);
            match r {
                Err(p) => {
                    check.violation(format!("panic@{}", p.site()), format!("decoder panic: {}", p.msg), witness(l, &sizes, w, &cuts));
                    return;
                }
                Ok((_, DrainEnd::Budget, _, _)) => check.inconclusive("decode poll budget"),
                Ok((items, end, _, _)) => {
                    if items != want || end != DrainEnd::Eof {
                        let kind = if items.len() < want.len() || items.contains(&Item::Err) {
                            "valid-message-not-decoded"
                        } else if items.len() > want.len() {
                            "extra-message-decoded"
                        } else {
                            "decoded-payload-differs"
                        };
                        let at_limit = if exact { "-at-limit" } else { "" };
                        check.violation(
                            format!("{kind}{at_limit}"),
                            format!(
                                "{which}: decoded {} items (errors: {}), end {:?}; expected {} messages then EOF",
                                items.len(),
                                items.iter().filter(|i| **i == Item::Err).count(),
                                end,
                                want.len()
                            ),
                            witness(l, &sizes, w, &cuts),
                        );
                        return;
                    }
                }
            }
            let _ = ncuts;
        }
    }
    let mut s = Sig::new().u64(l as u64);
    for d in &sizes {
        s.push_u64(*d as u64);
    }
    check.case(s.0, sizes.iter().any(|d| *d > 0));
    if exact {
        check.count("cases_with_message_exactly_at_limit", 1);
    }
    if check.want_sample() {
        check.sample(json!({"kind": "roundtrip", "limit": l, "data_sizes": sizes, "wire_len": wire.len(), "wire_head": util::short_hex(&wire)}));
    }
}

fn oversize_case(check: &Check, rng: &mut Rng, l: usize, declared: u64, partial: usize) {
    let nprev = rng.usize(3);
    let m = dmax(l);
    let prev: Vec<Vec<u8>> = (0..nprev).map(|i| { let n = rng.usize(m.min(50) + 1); payload(rng, i, n) }).collect();
    let mut wire = vec![];
    for p in &prev {
        let pm = if p.is_empty() { pb::Msg::new() } else { pb::Msg::new().bytes(1, p) };
        wire.extend(pb::frame(&pm.encode()));
    }
    let prefix_at = wire.len();
    wire.extend(pb::uvarint(declared));
    wire.extend(std::iter::repeat_n(0u8, partial));
    let cuts = if rng.bool() { (1..wire.len()).collect() } else { vec![prefix_at] };
    let w = json!({"limit": l, "declared": declared, "payload_bytes_fed": partial, "good_messages_before": nprev, "wire": util::short_hex(&wire)});
    match catch(|| real_decode(&wire, l, cuts, rng.bool(), false)) {
        Err(p) => check.violation(format!("panic@{}", p.site()), format!("decoder panic on oversize prefix: {}", p.msg), w),
        Ok((items, end, cap, _)) => {
            let want_prev: Vec<Item> = prev.iter().cloned().map(Item::Msg).collect();
            let good = items.len() == nprev + 1 && items[..nprev] == want_prev[..] && items[nprev] == Item::Err && end == DrainEnd::Error;
            if !good {
                let sig = if end == DrainEnd::Stalled { "oversize-prefix-not-rejected-before-payload" } else { "oversize-prefix-wrong-outcome" };
                check.violation(sig, format!("declared {declared} > limit {l}: items {:?}.. end {:?}", items.len(), end), w);
            } else if cap > 64 * 1024 + wire.len() {
                check.violation("oversize-prefix-grew-read-buffer", format!("read buffer capacity {cap} after a rejected prefix (declared {declared}, limit {l})"), w);
            }
            check.count("oversize_prefix_probes", 1);
            check.nontrivial(Sig::new().str("oversize").u64(l as u64).u64(declared).u64(partial as u64).0);
            check.cases(1);
        }
    }
}

fn arbitrary_case(check: &Check, rng: &mut Rng, bytes: Vec<u8>, l: usize, judge_split: bool) {
    let one = catch(|| real_decode(&bytes, l, vec![], false, true));
    check.count("arbitrary_inputs", 1);
    let w = json!({"limit": l, "bytes": util::short_hex(&bytes), "len": bytes.len()});
    let (items1, end1) = match one {
        Err(p) => {
            check.violation(format!("panic@{}", p.site()), format!("decoder panic on arbitrary bytes: {}", p.msg), w);
            return;
        }
        Ok((i, e, _, _)) => (i, e),
    };
    if items1.contains(&Item::Err) {
        check.count("arbitrary_inputs_rejected", 1);
    }
    // differential on the subset the reference decoder fully understands
    if let Some(want) = ref_decode(&bytes) {
        if pb::unframe(&bytes).0.iter().all(|f| f.len() <= l) {
            let want: Vec<Item> = want.into_iter().map(Item::Msg).collect();
            if items1 != want {
                check.violation("wellformed-stream-decoded-differently", format!("reference reads {} messages, codec yields {:?}", want.len(), items1.len()), w.clone());
            }
            check.count("arbitrary_inputs_wellformed", 1);
        }
    }
    if judge_split && bytes.len() >= 2 {
        let k = 1 + rng.usize(4);
        let cuts = util::random_cuts(rng, bytes.len(), k);
        match catch(|| real_decode(&bytes, l, cuts.clone(), rng.bool(), true)) {
            Err(p) => check.violation(format!("panic@{}", p.site()), format!("decoder panic on arbitrary bytes (split): {}", p.msg), w),
            Ok((items2, end2, _, _)) => {
                if items2 != items1 || end2 != end1 {
                    check.violation(
                        "split-changes-decoding",
                        format!("one-shot: {} items end {:?}; split at {:?}: {} items end {:?}", items1.len(), end1, cuts, items2.len(), end2),
                        w,
                    );
                }
            }
        }
    }
}

fn mutate(rng: &mut Rng, mut w: Vec<u8>) -> Vec<u8> {
    if w.is_empty() {
        return vec![rng.next_u32() as u8];
    }
    match rng.usize(5) {
        0 => {
            let i = rng.usize(w.len());
            w[i] ^= 1 << rng.usize(8);
        }
        1 => {
            let i = rng.usize(w.len());
            w.truncate(i);
        }
        2 => {
            let i = rng.usize(w.len() + 1);
            w.insert(i, rng.next_u32() as u8);
        }
        3 => {
            let i = rng.usize(w.len());
            w[i] = *rng.pick(&[0u8, 0x7f, 0x80, 0xff, 0x0a, 0x08]);
        }
        _ => {
            let i = rng.usize(w.len());
            w.remove(i);
        }
    }
    w
}

pub fn run(args: &Args) -> i32 {
    let check = Check::new(
        args,
        "exploration",
        "A: PRNG message sequences per codec limit, decoded under exhaustive single splits (small wires), boundary splits, \
         k-splits, byte-by-byte; B: oversize prefixes with only the prefix fed; C: arbitrary/mutated bytes. \
         distinct = (limit, data sizes) for A with at least one non-empty message, (limit, declared, fed) for B",
    );
    let thorough = args.tier == vmon::Tier::Thorough;
    let tiny = util::tiny(args);
    let n_a = util::budget(args, 1_500, 30_000, 6);
    vmon::par_cases(&check, n_a, args.threads, |_, rng| roundtrip_case(&check, rng, thorough && !tiny, tiny));

    // B: enumerated
    let mut b_cases: Vec<(usize, u64, usize)> = vec![];
    for l in LIMITS {
        let l64 = l as u64;
        for d in [l64 + 1, l64 + 2, 2 * l64 + 1, 1 << 14, 1 << 21, 1 << 24, (1 << 32) - 1, 1 << 32, 1 << 62, 1 << 63, u64::MAX >> 1, u64::MAX] {
            if d > l64 {
                for partial in [0usize, 1, 100] {
                    if (partial as u64) < d {
                        b_cases.push((l, d, partial));
                    }
                }
            }
        }
    }
    if tiny {
        b_cases.truncate(12);
    }
    vmon::par_cases(&check, b_cases.len() as u64, args.threads, |i, rng| {
        let (l, d, p) = b_cases[i as usize];
        oversize_case(&check, rng, l, d, p);
    });

    // C: exhaustive ≤ 2 bytes (+ all 3-byte strings with a continuation-heavy alphabet), PRNG, mutants
    if !tiny {
        let mut small: Vec<Vec<u8>> = vec![vec![]];
        for a in 0..=255u8 {
            small.push(vec![a]);
        }
        let step = if thorough { 1 } else { 3 };
        for a in (0..=255u8).step_by(step) {
            for b in 0..=255u8 {
                small.push(vec![a, b]);
            }
        }
        vmon::par_cases(&check, small.len() as u64, args.threads, |i, rng| {
            arbitrary_case(&check, rng, small[i as usize].clone(), 1024, false);
        });
        check.cases(small.len() as u64);
    }
    let n_c = util::budget(args, 20_000, 400_000, 20);
    vmon::par_cases(&check, n_c, args.threads, |_, rng| {
        let l = *rng.pick(&[16usize, 131, 1024]);
        let bytes = if rng.bool() {
            let n = rng.usize(48);
            let mut b = rng.bytes(n);
            // bias towards plausible prefixes
            if !b.is_empty() && rng.bool() {
                b[0] = rng.usize(24) as u8;
            }
            b
        } else {
            let sizes = gen_sizes(rng, l);
            let msgs: Vec<Vec<u8>> = sizes.iter().enumerate().map(|(i, n)| payload(rng, i, (*n).min(40))).collect();
            let w = ref_encode(&msgs, l, rng);
            let mut w = mutate(rng, w);
            if rng.chance(1, 3) {
                w = mutate(rng, w);
            }
            w
        };
        arbitrary_case(&check, rng, bytes, l, true);
        check.cases(1);
    });
    check.note("exhaustive", json!({"single_split_points": "all, for wires <= 96 bytes", "byte_strings_len_le_2": if thorough { "all" } else { "all 1-byte, 1/3 of 2-byte" }, "overall": false}));
    check.note("limits_used", json!(LIMITS));
    check.finish()
}
