//! C25 — mplex framing: every frame encodes to bytes that decode, under any split of the byte
//! stream, to the same frame with the stream role mirrored; a declared length above 1 MiB is
//! rejected before the payload is buffered; unknown frame types are rejected; arbitrary bytes never
//! panic.
//!
//! Real code: `libp2p_mplex::verif::{encode, Decoder}` — a cfg(libp2p_verif) forwarding facade over
//! the private `Codec` (`Encoder::encode`, `Decoder::decode` on an accumulating `BytesMut`).
//! Independent side: reference mplex codec below, written from the mplex spec
//! (`uvarint(id << 3 | flag) uvarint(len) data`; flags 0 NewStream, 1/2 Message receiver/initiator,
//! 3/4 Close, 5/6 Reset).
//!
//!  A  all 7 frame kinds × ids {0,1,127,128,2^31,2^60-1, PRNG < 2^60} × payload sizes
//!     {0,1,127,128,16383,16384,65536,1 MiB-1,1 MiB, PRNG}: real encode → reference decode equal;
//!     real decode (of the real bytes and of reference-encoded bytes, incl. Open frames carrying a
//!     name and Close/Reset frames carrying ignored bytes) gives kind, id, payload and
//!     `remote_role == sender's role`, `into_local()` role == the opposite role ("mirrored");
//!     the same under every 2-split (frames ≤ 96 bytes: all positions; larger: all positions in the
//!     two varints, around the end, PRNG), PRNG k-splits, byte-by-byte, and for multi-frame streams.
//!  B  declared length 1 MiB+1, +2, 2 MiB, 2^32, 2^63 with only `header len` fed ⇒ `Err` immediately
//!     (an empty result = "waiting for the payload" is the violation); buffer not grown; exactly
//!     1 MiB is *not* rejected and decodes once the payload is there. Encoder given 1 MiB+1 must not
//!     emit a frame.
//!  C  flag 7 with a complete frame ⇒ `Err`.
//!  D  arbitrary / mutated bytes: no panic; split-invariance; equality with the reference decoder on
//!     streams the reference fully understands (canonical varints).
//!
//! Not judged: ids ≥ 2^60 (outside the spec's 9-byte header); non-minimal varints; when exactly
//! flag 7 is reported if the frame is incomplete; what follows the first error (codec is poisoned).
use bytes::Bytes;
use libp2p_core::Endpoint;
use libp2p_mplex::verif::{Decoder, Kind, LocalFrame, RemoteFrame, encode};
use vmon::{Args, Check, Rng, Sig, catch, json, pb};

use crate::util;

const MIB: usize = 1024 * 1024;

#[derive(Debug, Clone, PartialEq, Eq)]
pub struct RefFrame {
    pub flag: u8,
    pub id: u64,
    pub data: Vec<u8>,
}

fn ref_flag(kind: Kind, role: Endpoint) -> u8 {
    // role = role of the *sender* for this stream (Dialer = initiator)
    match (kind, role) {
        (Kind::Open, _) => 0,
        (Kind::Data, Endpoint::Listener) => 1,
        (Kind::Data, Endpoint::Dialer) => 2,
        (Kind::Close, Endpoint::Listener) => 3,
        (Kind::Close, Endpoint::Dialer) => 4,
        (Kind::Reset, Endpoint::Listener) => 5,
        (Kind::Reset, Endpoint::Dialer) => 6,
    }
}

pub fn ref_encode(f: &RefFrame) -> Vec<u8> {
    let mut o = pb::uvarint((f.id << 3) | f.flag as u64);
    o.extend(pb::uvarint(f.data.len() as u64));
    o.extend_from_slice(&f.data);
    o
}

/// canonical varint reader: rejects encodings longer than needed
fn canon_uvarint(b: &[u8]) -> Option<Option<(u64, usize)>> {
    // Some(None) = incomplete, None = not canonical/overflow
    for (i, x) in b.iter().enumerate() {
        if i >= 10 {
            return None;
        }
        if x & 0x80 == 0 {
            let (v, k) = pb::get_uvarint(b)?;
            if pb::uvarint(v).len() != k {
                return None;
            }
            return Some(Some((v, k)));
        }
    }
    if b.len() >= 10 { None } else { Some(None) }
}

#[derive(Debug, Clone, PartialEq, Eq)]
pub enum RefItem {
    Frame(RefFrame),
    Err,
}
/// reference decode of a whole stream: frames, then optionally an error; None if the reference
/// cannot give an opinion (non-canonical varint)
pub fn ref_decode(mut b: &[u8]) -> Option<Vec<RefItem>> {
    let mut out = vec![];
    loop {
        let Some((h, k)) = canon_uvarint(b)? else { return Some(out) };
        let Some((len, k2)) = canon_uvarint(&b[k..])? else { return Some(out) };
        if len > MIB as u64 {
            out.push(RefItem::Err);
            return Some(out);
        }
        let start = k + k2;
        let flag = (h & 7) as u8;
        if b.len() < start + len as usize {
            // incomplete frame; an unknown type may legitimately be reported early or late
            return if flag == 7 { None } else { Some(out) };
        }
        if flag == 7 {
            out.push(RefItem::Err);
            return Some(out);
        }
        let data = if flag == 1 || flag == 2 { b[start..start + len as usize].to_vec() } else { vec![] };
        out.push(RefItem::Frame(RefFrame { flag, id: h >> 3, data }));
        b = &b[start + len as usize..];
    }
}

fn real_to_ref(f: &RemoteFrame) -> RefFrame {
    // map the decoded frame back to a wire flag using the *remote* role it reports
    RefFrame { flag: ref_flag(f.kind, f.remote_role), id: f.num, data: f.data.to_vec() }
}

fn other(e: Endpoint) -> Endpoint {
    match e {
        Endpoint::Dialer => Endpoint::Listener,
        Endpoint::Listener => Endpoint::Dialer,
    }
}

/// feed `wire` to a fresh real decoder in the given chunks
fn real_decode(wire: &[u8], cuts: &[usize]) -> (Vec<Result<RemoteFrame, String>>, usize, usize) {
    let mut d = Decoder::new();
    let mut out = vec![];
    let mut pos = 0;
    let mut bounds: Vec<usize> = cuts.iter().copied().filter(|c| *c > 0 && *c < wire.len()).collect();
    bounds.sort_unstable();
    bounds.dedup();
    bounds.push(wire.len());
    let mut errored = false;
    for b in bounds {
        if errored {
            break;
        }
        for r in d.feed(&wire[pos..b]) {
            match r {
                Ok(f) => out.push(Ok(f)),
                Err(e) => {
                    out.push(Err(e.to_string()));
                    errored = true;
                }
            }
        }
        pos = b;
    }
    let stats = (d.buffered(), d.buffer_capacity());
    if errored {
        // a caller may poll a failed decoder again (FramedRead does when it is polled after an error): whatever it
        // answers, it must not panic; results after the first error are not judged
        let _ = d.feed(&wire[pos..]);
        let _ = d.feed(&[]);
    }
    (out, stats.0, stats.1)
}

fn items_of(v: &[Result<RemoteFrame, String>]) -> Vec<RefItem> {
    v.iter()
        .map(|r| match r {
            Ok(f) => RefItem::Frame(real_to_ref(f)),
            Err(_) => RefItem::Err,
        })
        .collect()
}

const KINDS: [(Kind, Endpoint); 7] = [
    (Kind::Open, Endpoint::Dialer),
    (Kind::Data, Endpoint::Listener),
    (Kind::Data, Endpoint::Dialer),
    (Kind::Close, Endpoint::Listener),
    (Kind::Close, Endpoint::Dialer),
    (Kind::Reset, Endpoint::Listener),
    (Kind::Reset, Endpoint::Dialer),
];
const IDS: [u64; 8] = [0, 1, 15, 16, 127, 128, 1 << 31, (1 << 60) - 1];

fn cut_sets(rng: &mut Rng, wire_len: usize, head_len: usize, thorough: bool) -> Vec<Vec<usize>> {
    let mut sets: Vec<Vec<usize>> = vec![];
    if wire_len <= 96 || (thorough && wire_len <= 1500) {
        for i in 1..wire_len {
            sets.push(vec![i]);
        }
        sets.push((1..wire_len).collect());
    } else {
        for i in 1..=(head_len + 2).min(wire_len - 1) {
            sets.push(vec![i]);
        }
        for d in 1..=3 {
            if wire_len > d {
                sets.push(vec![wire_len - d]);
            }
        }
        sets.push((1..=(head_len + 1).min(wire_len - 1)).collect());
    }
    for _ in 0..3 {
        let k = 1 + rng.usize(6);
        sets.push(util::random_cuts(rng, wire_len, k));
    }
    sets
}

fn wit(kind: Kind, role: Endpoint, id: u64, n: usize, wire: &[u8], cuts: &[usize]) -> vmon::Value {
    json!({"kind": format!("{kind:?}"), "sender_role": format!("{role:?}"), "id": id, "payload_len": n, "wire_head": util::short_hex(&wire[..wire.len().min(24)]), "wire_len": wire.len(), "cuts": cuts.iter().take(12).collect::<Vec<_>>()})
}

/// A: one frame
fn frame_case(check: &Check, rng: &mut Rng, kind: Kind, role: Endpoint, id: u64, n: usize, thorough: bool) {
    let data: Vec<u8> = if kind == Kind::Data { rng.bytes(n) } else { vec![] };
    let lf = LocalFrame { kind, num: id, role, data: Bytes::from(data.clone()) };
    let want = RefFrame { flag: ref_flag(kind, role), id, data: data.clone() };
    let wire = match catch(|| encode(lf)) {
        Err(p) => {
            check.violation(format!("panic@{}", p.site()), format!("encode panic: {}", p.msg), wit(kind, role, id, n, &[], &[]));
            return;
        }
        Ok(Err(e)) => {
            check.violation("encode-valid-frame-failed", format!("{e}"), wit(kind, role, id, n, &[], &[]));
            return;
        }
        Ok(Ok(b)) => b.to_vec(),
    };
    // real encoder vs reference decoder
    match ref_decode(&wire) {
        Some(v) if v == vec![RefItem::Frame(want.clone())] && ref_encode(&want) == wire => {}
        other => {
            check.violation(
                "encoder-output-differs-from-spec",
                format!("reference decoder reads {:?}, expected flag {} id {} with {} payload bytes", other.map(|v| v.iter().map(|i| match i { RefItem::Frame(f) => format!("flag {} id {} len {}", f.flag, f.id, f.data.len()), RefItem::Err => "error".into() }).collect::<Vec<_>>()), want.flag, id, n),
                wit(kind, role, id, n, &wire, &[]),
            );
            return;
        }
    }
    check.count("frames_encoded", 1);
    // real decoder: one-shot + splits, on the real wire and on a reference wire with decorations
    let mut wires = vec![("real-wire", wire.clone(), want.clone())];
    if kind != Kind::Data {
        // Open with a name / Close+Reset with ignored bytes
        let extra = util::rbytes(rng, 1, 40);
        let alt = RefFrame { flag: want.flag, id, data: extra };
        wires.push(("reference-wire-with-ignored-body", ref_encode(&alt), want.clone()));
    }
    for (which, w, expect) in wires {
        let head_len = pb::uvarint((id << 3) | expect.flag as u64).len() + pb::uvarint((w.len()) as u64).len();
        let mut sets = vec![vec![]];
        sets.extend(cut_sets(rng, w.len(), head_len, thorough));
        for cuts in sets {
            check.count("split_schedules", 1);
            match catch(|| real_decode(&w, &cuts)) {
                Err(p) => {
                    check.violation(format!("panic@{}", p.site()), format!("decode panic: {}", p.msg), wit(kind, role, id, n, &w, &cuts));
                    return;
                }
                Ok((items, buffered, _)) => {
                    let ok = items.len() == 1
                        && buffered == 0
                        && match &items[0] {
                            Ok(f) => {
                                f.kind == kind
                                    && f.num == id
                                    && f.local_num == id
                                    && f.data[..] == expect.data[..]
                                    && f.remote_role == (if kind == Kind::Open { Endpoint::Dialer } else { role })
                                    && f.local_role == other(f.remote_role)
                            }
                            Err(_) => false,
                        };
                    if !ok {
                        let what = match items.first() {
                            None => "nothing decoded".to_string(),
                            Some(Err(e)) => format!("error: {e}"),
                            Some(Ok(f)) => format!("{:?} id {} remote_role {:?} local_role {:?} payload {} bytes{}", f.kind, f.num, f.remote_role, f.local_role, f.data.len(), if f.data[..] != expect.data[..] { " (content differs)" } else { "" }),
                        };
                        let sig = match items.first() {
                            None => "frame-not-decoded",
                            Some(Err(_)) => "valid-frame-rejected",
                            Some(Ok(f)) if f.kind != kind || f.remote_role != (if kind == Kind::Open { Endpoint::Dialer } else { role }) || f.local_role != other(f.remote_role) => "decoded-kind-or-role-wrong",
                            Some(Ok(f)) if f.num != id => "decoded-id-wrong",
                            Some(Ok(_)) if items.len() > 1 || buffered != 0 => "decoder-leftover-or-extra-frame",
                            _ => "decoded-payload-wrong",
                        };
                        let split = if cuts.is_empty() { "" } else { "-under-split" };
                        check.violation(format!("{sig}{split}"), format!("{which}: {what}; {} item(s), {} bytes left in buffer", items.len(), buffered), wit(kind, role, id, n, &w, &cuts));
                        return;
                    }
                }
            }
        }
    }
    check.case(Sig::new().u64(want.flag as u64).u64(id).u64(n as u64).0, true);
    check.distinct("payload_sizes", n as u64);
    if check.want_sample() && n > 0 && n < 64 {
        check.sample(json!({"kind": format!("{kind:?}"), "sender_role": format!("{role:?}"), "id": id, "payload_len": n, "wire": util::short_hex(&wire)}));
    }
}

/// A: multi-frame streams with splits across frame boundaries
fn stream_case(check: &Check, rng: &mut Rng) {
    let k = 2 + rng.usize(5);
    let mut frames = vec![];
    let mut wire = vec![];
    for _ in 0..k {
        let (kind, role) = *rng.pick(&KINDS);
        let id = if rng.bool() { *rng.pick(&IDS) } else { rng.below(1 << 60) };
        let n = if kind == Kind::Data { *rng.pick(&[0usize, 1, 2, 5, 127, 128, 300]) } else { 0 };
        let data = rng.bytes(n);
        let f = RefFrame { flag: ref_flag(kind, role), id, data };
        wire.extend(ref_encode(&f));
        frames.push(f);
    }
    let want: Vec<RefItem> = frames.iter().cloned().map(RefItem::Frame).collect();
    let mut sets = vec![vec![], (1..wire.len()).collect::<Vec<_>>()];
    for _ in 0..6 {
        let kk = 1 + rng.usize(8);
        sets.push(util::random_cuts(rng, wire.len(), kk));
    }
    for cuts in sets {
        check.count("split_schedules", 1);
        match catch(|| real_decode(&wire, &cuts)) {
            Err(p) => {
                check.violation(format!("panic@{}", p.site()), format!("decode panic: {}", p.msg), json!({"wire": util::short_hex(&wire), "cuts": cuts}));
                return;
            }
            Ok((items, buffered, _)) => {
                let got = items_of(&items);
                let roles_ok = items.iter().all(|r| r.as_ref().map(|f| f.local_role == other(f.remote_role) && f.local_num == f.num).unwrap_or(true));
                if got != want || buffered != 0 || !roles_ok {
                    check.violation(
                        "frame-stream-decoded-differently",
                        format!("{} frames sent, {} items decoded ({} errors), {} bytes left, roles mirrored: {roles_ok}", want.len(), got.len(), got.iter().filter(|i| **i == RefItem::Err).count(), buffered),
                        json!({"wire": util::short_hex(&wire), "wire_len": wire.len(), "cuts": cuts.iter().take(12).collect::<Vec<_>>(), "frames": frames.iter().map(|f| format!("flag {} id {} len {}", f.flag, f.id, f.data.len())).collect::<Vec<_>>()}),
                    );
                    return;
                }
            }
        }
    }
    let mut s = Sig::new().str("stream");
    for f in &frames {
        s.push_u64(f.flag as u64);
        s.push_u64(f.id);
        s.push_u64(f.data.len() as u64);
    }
    check.case(s.0, true);
    check.count("multi_frame_streams", 1);
}

/// returns true if an oversize length was *not* rejected (then no further hostile lengths must be fed:
/// the decoder would try to reserve them and abort the process)
fn oversize_cases(check: &Check, tiny: bool) -> bool {
    let declared: Vec<u64> = vec![MIB as u64 + 1, MIB as u64 + 2, 2 * MIB as u64, 16 * MIB as u64, 1 << 32, 1 << 62, 1 << 63, u64::MAX];
    for flag in 0..7u8 {
        for id in [0u64, 5, (1 << 60) - 1] {
            for d in &declared {
                for prev in [0usize, 2] {
                    let mut wire = vec![];
                    for i in 0..prev {
                        wire.extend(ref_encode(&RefFrame { flag: 2, id: i as u64, data: vec![7; 3] }));
                    }
                    let head_at = wire.len();
                    wire.extend(pb::uvarint((id << 3) | flag as u64));
                    wire.extend(pb::uvarint(*d));
                    let w = json!({"flag": flag, "id": id, "declared_len": d, "good_frames_before": prev, "fed": vmon::hex(&wire), "payload_bytes_fed": 0});
                    for cuts in [vec![], vec![head_at], (1..wire.len()).collect::<Vec<_>>()] {
                        check.cases(1);
                        check.count("oversize_header_probes", 1);
                        match catch(|| real_decode(&wire, &cuts)) {
                            Err(p) => check.violation(format!("panic@{}", p.site()), format!("decode panic on oversize header: {}", p.msg), w.clone()),
                            Ok((items, _, cap)) => {
                                let n_ok = items.iter().filter(|r| r.is_ok()).count();
                                let last_err = matches!(items.last(), Some(Err(_)));
                                if !(n_ok == prev && last_err && items.len() == prev + 1) {
                                    let sig = if !last_err { "oversize-length-not-rejected-before-payload" } else { "oversize-wrong-outcome" };
                                    check.violation(sig, format!("declared {d} > 1 MiB with only the header fed: {} ok frame(s), error: {last_err}", n_ok), w.clone());
                                    // a decoder that accepts this would try to reserve the larger declared sizes
                                    // (allocation failure aborts the process): stop probing
                                    return true;
                                } else if cap > 4 * MIB {
                                    check.violation("oversize-length-grew-buffer", format!("buffer capacity {cap} after rejected header"), w.clone());
                                }
                            }
                        }
                    }
                    check.nontrivial(Sig::new().str("oversize").u64(flag as u64).u64(id).u64(*d).u64(prev as u64).0);
                }
            }
            if tiny {
                return false;
            }
        }
    }
    // exactly 1 MiB is fine
    for flag in [1u8, 2] {
        let mut wire = pb::uvarint((9u64 << 3) | flag as u64);
        wire.extend(pb::uvarint(MIB as u64));
        let w = json!({"flag": flag, "declared_len": MIB});
        match catch(|| {
            let mut d = Decoder::new();
            let first = d.feed(&wire);
            let first_n = first.len();
            let first_err = first.iter().any(|r| r.is_err());
            let payload = vec![0xabu8; MIB];
            let second = d.feed(&payload);
            (first_n, first_err, second.len(), second.first().map(|r| r.as_ref().map(|f| f.data.len()).map_err(|e| e.to_string())))
        }) {
            Err(p) => check.violation(format!("panic@{}", p.site()), format!("decode panic at 1 MiB: {}", p.msg), w),
            Ok((n1, e1, n2, r2)) => {
                check.cases(1);
                if e1 || n1 != 0 || n2 != 1 || r2 != Some(Ok(MIB)) {
                    check.violation("max-size-frame-rejected", format!("1 MiB frame: after header {n1} items (err {e1}); after payload {n2} items {r2:?}"), w);
                }
            }
        }
    }
    // encoder must not emit > 1 MiB
    if !tiny {
        for extra in [1usize, 2, 4096] {
            let lf = LocalFrame { kind: Kind::Data, num: 3, role: Endpoint::Dialer, data: Bytes::from(vec![1u8; MIB + extra]) };
            check.cases(1);
            match catch(|| encode(lf)) {
                Err(p) => check.violation(format!("panic@{}", p.site()), format!("encode panic: {}", p.msg), json!({"payload_len": MIB + extra})),
                Ok(Ok(b)) => check.violation("encoder-emits-oversize-frame", format!("encoded {} bytes for a payload of 1 MiB + {extra}", b.len()), json!({"payload_len": MIB + extra})),
                Ok(Err(_)) => check.count("oversize_encode_refused", 1),
            }
        }
    }
    false
}

fn unknown_type_cases(check: &Check) {
    for id in [0u64, 1, 300, (1 << 60) - 1] {
        for n in [0usize, 1, 5, 200] {
            for prev in [0usize, 1] {
                let mut wire = vec![];
                for i in 0..prev {
                    wire.extend(ref_encode(&RefFrame { flag: 1, id: i as u64, data: vec![1, 2, 3] }));
                }
                wire.extend(ref_encode(&RefFrame { flag: 7, id, data: vec![0x55; n] }));
                let w = json!({"flag": 7, "id": id, "payload_len": n, "good_frames_before": prev, "wire": util::short_hex(&wire)});
                for cuts in [vec![], (1..wire.len()).collect::<Vec<_>>()] {
                    check.cases(1);
                    check.count("unknown_type_probes", 1);
                    match catch(|| real_decode(&wire, &cuts)) {
                        Err(p) => check.violation(format!("panic@{}", p.site()), format!("decode panic on flag 7: {}", p.msg), w.clone()),
                        Ok((items, _, _)) => {
                            let n_ok = items.iter().filter(|r| r.is_ok()).count();
                            if !(n_ok == prev && matches!(items.last(), Some(Err(_)))) {
                                check.violation("unknown-frame-type-accepted", format!("complete frame with flag 7: {} ok item(s), last is error: {}", n_ok, matches!(items.last(), Some(Err(_)))), w.clone());
                            }
                        }
                    }
                }
                check.nontrivial(Sig::new().str("flag7").u64(id).u64(n as u64).u64(prev as u64).0);
            }
        }
    }
}

fn arbitrary_case(check: &Check, rng: &mut Rng, bytes: Vec<u8>) {
    let w = json!({"bytes": util::short_hex(&bytes), "len": bytes.len()});
    check.count("arbitrary_inputs", 1);
    let one = match catch(|| real_decode(&bytes, &[])) {
        Err(p) => {
            check.violation(format!("panic@{}", p.site()), format!("decode panic on arbitrary bytes: {}", p.msg), w);
            return;
        }
        Ok((i, _, _)) => items_of(&i),
    };
    if let Some(want) = ref_decode(&bytes) {
        check.count("arbitrary_inputs_judged_by_reference", 1);
        if want != one {
            check.violation(
                "stream-decoded-differently-from-reference",
                format!("reference: {} item(s) (error last: {}), codec: {} item(s) (error last: {})", want.len(), want.last() == Some(&RefItem::Err), one.len(), one.last() == Some(&RefItem::Err)),
                w.clone(),
            );
        }
    }
    if bytes.len() >= 2 {
        let k = 1 + rng.usize(4);
        let cuts = if rng.chance(1, 4) { (1..bytes.len()).collect() } else { util::random_cuts(rng, bytes.len(), k) };
        match catch(|| real_decode(&bytes, &cuts)) {
            Err(p) => check.violation(format!("panic@{}", p.site()), format!("decode panic on arbitrary bytes (split): {}", p.msg), w),
            Ok((i, _, _)) => {
                let two = items_of(&i);
                if two != one {
                    check.violation("split-changes-decoding", format!("one-shot {} items, split at {:?}.. {} items", one.len(), cuts.iter().take(6).collect::<Vec<_>>(), two.len()), w);
                }
            }
        }
    }
}

fn gen_arbitrary(rng: &mut Rng) -> Vec<u8> {
    match rng.usize(4) {
        0 => util::rbytes(rng, 0, 40),
        1 => {
            // plausible header, PRNG rest
            let mut v = pb::uvarint((rng.below(1 << 20) << 3) | rng.below(8));
            v.extend(pb::uvarint(rng.below(40)));
            v.extend(util::rbytes(rng, 0, 50));
            v
        }
        _ => {
            let mut v = vec![];
            for _ in 0..1 + rng.usize(3) {
                let n = rng.usize(20);
                v.extend(ref_encode(&RefFrame { flag: rng.below(8) as u8, id: rng.below(1 << 30), data: rng.bytes(n) }));
            }
            for _ in 0..1 + rng.usize(2) {
                if v.is_empty() {
                    break;
                }
                let i = rng.usize(v.len());
                match rng.usize(4) {
                    0 => v[i] ^= 1 << rng.usize(8),
                    1 => v.truncate(i),
                    2 => v.insert(i, rng.next_u32() as u8),
                    _ => v[i] = *rng.pick(&[0u8, 0x7f, 0x80, 0xff]),
                }
            }
            v
        }
    }
}

pub fn run(args: &Args) -> i32 {
    let check = Check::new(
        args,
        "exploration",
        "A: 7 frame kinds x ids x payload sizes, each decoded one-shot and under 2-splits/k-splits/byte-by-byte, plus multi-frame streams; \
         B: oversize headers without payload; C: flag 7; D: arbitrary/mutated bytes vs reference + split invariance. distinct = (flag, id, payload size) / stream shape",
    );
    let tiny = util::tiny(args);
    let thorough = args.tier == vmon::Tier::Thorough && !tiny;
    // A: grid
    let sizes: Vec<usize> = if tiny { vec![0, 1, 128] } else { vec![0, 1, 2, 127, 128, 129, 16383, 16384, 65536, MIB - 1, MIB] };
    let mut grid = vec![];
    for (kind, role) in KINDS {
        for id in IDS {
            if kind == Kind::Data {
                for n in &sizes {
                    grid.push((kind, role, id, *n));
                }
            } else {
                grid.push((kind, role, id, 0));
            }
        }
    }
    if tiny {
        grid.retain(|g| g.2 == 1 || g.2 == (1 << 60) - 1);
    }
    vmon::par_cases(&check, grid.len() as u64, args.threads, |i, rng| {
        let (kind, role, id, n) = grid[i as usize];
        frame_case(&check, rng, kind, role, id, n, thorough);
    });
    check.note("grid", json!({"kinds": 7, "ids": IDS, "payload_sizes": sizes, "cells": grid.len()}));
    // A: PRNG frames and streams
    vmon::par_cases(&check, util::budget(args, 3_000, 500_000, 10), args.threads, |_, rng| {
        let (kind, role) = *rng.pick(&KINDS);
        let id = rng.below(1 << 60) >> rng.below(60);
        let n = if kind == Kind::Data {
            match rng.usize(6) {
                0 => 0,
                1 => rng.usize(200),
                2 => 16000 + rng.usize(800),
                3 if !tiny => rng.usize(200_000),
                _ => rng.usize(64),
            }
        } else {
            0
        };
        frame_case(&check, rng, kind, role, id, n, thorough);
    });
    vmon::par_cases(&check, util::budget(args, 4_000, 800_000, 6), args.threads, |_, rng| stream_case(&check, rng));
    // B, C
    let trusts_lengths = oversize_cases(&check, tiny);
    unknown_type_cases(&check);
    if trusts_lengths {
        check.note("arbitrary_bytes_skipped", json!("an oversize declared length was accepted; feeding arbitrary lengths would abort on allocation"));
        return check.finish();
    }
    // D
    if !tiny {
        // all strings of length <= 2
        let total = 1 + 256 + 65_536u64;
        vmon::par_cases(&check, total, args.threads, |i, rng| {
            let b: Vec<u8> = if i == 0 {
                vec![]
            } else if i <= 256 {
                vec![(i - 1) as u8]
            } else {
                let v = i - 257;
                vec![(v >> 8) as u8, v as u8]
            };
            arbitrary_case(&check, rng, b);
        });
        check.cases(total);
    }
    vmon::par_cases(&check, util::budget(args, 60_000, 10_000_000, 30), args.threads, |_, rng| {
        let b = gen_arbitrary(rng);
        arbitrary_case(&check, rng, b);
        check.cases(1);
    });
    check.note("exhaustive", json!({"two_split_positions": "all for frames <= 96 bytes (thorough: <= 1500)", "byte_strings_len_le_2": !tiny, "overall": false}));
    check.finish()
}
