//! C24 — mplex and yamux substreams deliver exactly their own bytes, in order, then end-of-stream
//! after the writer closes; never bytes of another substream.
//!
//! Rig: two real muxers (`libp2p_mplex::Config` / `libp2p_yamux::Config` upgrades, boxed as
//! `StreamMuxerBox` like the swarm does) on the two ends of a `vmon::pipe` with PRNG chunking and
//! spurious Pending. Per side one *mux task* (like a swarm connection task: `poll_outbound` for
//! planned opens, `poll_inbound`, `poll`), per substream endpoint one *writer task* executing its
//! program (`Write(n)`, `Flush`, `Close` = half-close) and one *reader task*; all tasks are polled by a
//! harness scheduler that picks the next runnable task by PRNG (writers yield after every op), or —
//! bounded-exhaustive mode — grants op permits in an enumerated order (all 20 merges of two 3-op
//! writer programs × eager/late readers × both open topologies × both muxers).
//!
//! Every byte written on (stream uid, direction) at offset o is `byte_at(uid, dir, o)`; the first
//! four bytes of the opener's direction carry the uid so that the acceptor learns which stream it got.
//!
//! Oracle (from the statement), per (uid, direction):
//!  * online: bytes read are exactly `byte_at(uid, dir, offset..)` (⇒ in order, nothing foreign,
//!    nothing duplicated) and never exceed what has been written so far;
//!  * EOF is observed only after the writer started its `close`, and then everything written has
//!    been received;
//!  * at quiescence (no task runnable): a writer whose program ended with `Flush`/`Close` has had all
//!    its bytes received, a completed `Close` has produced EOF at the reader, no writer is stuck,
//!    no read/write error occurred on these healthy streams.
//!
//! Not judged: early drops / resets of substreams (not in the statement's op list; C26 covers drop
//! under limits), mplex `MaxBufferBehaviour::ResetStream` (resets slow readers by design), what a
//! reader sees when the writer never flushes.
use std::{
    collections::{HashMap, HashSet, VecDeque},
    future::{Future, poll_fn},
    pin::Pin,
    sync::{
        Arc, Mutex,
        atomic::{AtomicU64, Ordering},
    },
    task::{Context, Poll, Waker},
};

use futures::{
    AsyncReadExt, AsyncWriteExt, FutureExt,
    io::{ReadHalf, WriteHalf},
};
use libp2p_core::{
    muxing::{StreamMuxer, StreamMuxerBox, SubstreamBox},
    upgrade::{InboundConnectionUpgrade, OutboundConnectionUpgrade},
};
use vmon::{
    Args, Check, Rng, Sig, catch,
    exec::{Spawner, Tasks},
    json, pipe,
};

use crate::util;

#[derive(Clone, Copy, PartialEq, Eq, Debug)]
pub enum MuxKind {
    Mplex,
    Yamux,
}

#[derive(Clone, Copy, Debug, PartialEq, Eq)]
pub enum WOp {
    Write(usize),
    Flush,
    Close,
}

#[derive(Clone, Debug)]
pub struct StreamPlan {
    pub uid: u32,
    /// 0 = side A (outbound upgrade), 1 = side B
    pub opener: usize,
    /// [opener→acceptor, acceptor→opener]
    pub progs: [Vec<WOp>; 2],
    pub read_chunk: [usize; 2],
}

#[derive(Clone, Debug)]
pub struct Plan {
    pub kind: MuxKind,
    pub split_send: usize,
    pub max_buffer_len: usize,
    pub streams: Vec<StreamPlan>,
    pub chunk_seed: Option<u64>,
    pub sched_seed: u64,
    /// bounded-exhaustive mode: order in which writer ops are permitted, and whether readers run eagerly
    pub scripted: Option<(Vec<(u32, u8)>, bool)>,
    /// PRNG case index (for `--case N` re-runs)
    pub case: u64,
    /// debugging knob: give the reader and writer task of a yamux substream independent wakers
    pub yamux_split_wakers: bool,
}

pub fn byte_at(uid: u32, dir: u8, off: usize) -> u8 {
    if dir == 0 && off < 4 {
        return [0xA5, uid as u8, (uid >> 8) as u8, 0x5A][off];
    }
    (((off as u32).wrapping_mul(2654435761) >> 13) as u8) ^ (uid as u8).wrapping_mul(29) ^ (dir.wrapping_mul(0x55)) ^ ((off >> 8) as u8)
}

#[derive(Default, Debug)]
struct DirRec {
    written: usize,
    received: usize,
    prog_done: bool,
    ends_with_flush_or_close: bool,
    close_started: Option<u64>,
    close_done: Option<u64>,
    eof: Option<u64>,
    read_err: Option<String>,
    write_err: Option<String>,
    reader_running: bool,
}

#[derive(Default)]
struct World {
    seq: u64,
    recs: HashMap<(u32, u8), DirRec>,
    accepted: HashSet<u32>,
    violations: Vec<(String, String)>,
    conn_errors: Vec<String>,
    anonymous_inbound: u64,
    ops: HashMap<&'static str, u64>,
    /// stream halves of finished tasks, keyed by (uid, direction this endpoint writes); an endpoint is
    /// really dropped only once it closed its write side *and* read EOF (dropping earlier would be an
    /// implicit close/reset, which is not in the statement's op list)
    parked: HashMap<(u32, u8), Vec<Box<dyn std::any::Any + Send>>>,
}
impl World {
    fn tick(&mut self) -> u64 {
        self.seq += 1;
        self.seq
    }
    fn op(&mut self, k: &'static str) {
        *self.ops.entry(k).or_insert(0) += 1;
    }
    /// park a finished half; drop the whole endpoint when it is completely done
    fn park(&mut self, uid: u32, wdir: u8, half: Box<dyn std::any::Any + Send>) {
        self.parked.entry((uid, wdir)).or_default().push(half);
        let closed = self.recs.get(&(uid, wdir)).map(|r| r.close_done.is_some()).unwrap_or(false);
        let eof = self.recs.get(&(uid, 1 - wdir)).map(|r| r.eof.is_some()).unwrap_or(false);
        if closed && eof && self.parked[&(uid, wdir)].len() == 2 {
            self.parked.remove(&(uid, wdir));
            self.op("endpoints_dropped_after_full_close");
        }
    }
    fn viol(&mut self, sig: &str, what: String) {
        if self.violations.len() < 8 {
            self.violations.push((sig.to_string(), what));
        }
    }
}
type W = Arc<Mutex<World>>;

/// op permit gate (u64::MAX = open)
pub struct Gate {
    permits: AtomicU64,
    wakers: Mutex<Vec<Waker>>,
}
impl Gate {
    fn new(open: bool) -> Arc<Gate> {
        Arc::new(Gate { permits: AtomicU64::new(if open { u64::MAX } else { 0 }), wakers: Mutex::new(vec![]) })
    }
    fn grant(&self, n: u64) {
        let cur = self.permits.load(Ordering::SeqCst);
        if cur != u64::MAX {
            self.permits.store(cur + n, Ordering::SeqCst);
        }
        for w in std::mem::take(&mut *self.wakers.lock().unwrap()) {
            w.wake();
        }
    }
    fn open(&self) {
        self.permits.store(u64::MAX, Ordering::SeqCst);
        for w in std::mem::take(&mut *self.wakers.lock().unwrap()) {
            w.wake();
        }
    }
    fn pass(&self) -> impl Future<Output = ()> + '_ {
        poll_fn(move |cx| {
            let cur = self.permits.load(Ordering::SeqCst);
            if cur == u64::MAX {
                return Poll::Ready(());
            }
            if cur > 0 {
                self.permits.store(cur - 1, Ordering::SeqCst);
                return Poll::Ready(());
            }
            self.wakers.lock().unwrap().push(cx.waker().clone());
            Poll::Pending
        })
    }
}

fn yield_now() -> impl Future<Output = ()> {
    let mut done = false;
    poll_fn(move |cx| {
        if done {
            Poll::Ready(())
        } else {
            done = true;
            cx.waker().wake_by_ref();
            Poll::Pending
        }
    })
}

/// Two tasks (reader, writer) that use the two halves of one substream, made to look like one task to
/// the substream: every poll passes a waker that wakes *both*. Used for yamux, whose `Stream` keeps a
/// single `mpsc::Sender` (one parked-task slot) for window updates (read path) and data (write path):
/// with two independent wakers the slot is overwritten and a wake-up is lost (rust-yamux 0.14.0, a
/// dependency, not code of /repo — see FINDINGS.md; reproduce with `--yamux_split_wakers 1`).
#[derive(Default)]
struct Pair {
    slots: Mutex<[Option<Waker>; 2]>,
}
impl std::task::Wake for Pair {
    fn wake(self: Arc<Self>) {
        self.wake_by_ref()
    }
    fn wake_by_ref(self: &Arc<Self>) {
        let ws: Vec<Waker> = self.slots.lock().unwrap().iter().flatten().cloned().collect();
        for w in ws {
            w.wake();
        }
    }
}
struct Joint<T> {
    inner: T,
    pair: Option<Arc<Pair>>,
    slot: usize,
}
impl<T> Joint<T> {
    fn with<R>(&mut self, cx: &mut Context<'_>, f: impl FnOnce(Pin<&mut T>, &mut Context<'_>) -> R) -> R
    where
        T: Unpin,
    {
        match &self.pair {
            None => f(Pin::new(&mut self.inner), cx),
            Some(p) => {
                p.slots.lock().unwrap()[self.slot] = Some(cx.waker().clone());
                let w = Waker::from(p.clone());
                f(Pin::new(&mut self.inner), &mut Context::from_waker(&w))
            }
        }
    }
}
impl<T: futures::AsyncRead + Unpin> futures::AsyncRead for Joint<T> {
    fn poll_read(mut self: Pin<&mut Self>, cx: &mut Context<'_>, buf: &mut [u8]) -> Poll<std::io::Result<usize>> {
        self.with(cx, |i, c| i.poll_read(c, buf))
    }
}
impl<T: futures::AsyncWrite + Unpin> futures::AsyncWrite for Joint<T> {
    fn poll_write(mut self: Pin<&mut Self>, cx: &mut Context<'_>, buf: &[u8]) -> Poll<std::io::Result<usize>> {
        self.with(cx, |i, c| i.poll_write(c, buf))
    }
    fn poll_flush(mut self: Pin<&mut Self>, cx: &mut Context<'_>) -> Poll<std::io::Result<()>> {
        self.with(cx, |i, c| i.poll_flush(c))
    }
    fn poll_close(mut self: Pin<&mut Self>, cx: &mut Context<'_>) -> Poll<std::io::Result<()>> {
        self.with(cx, |i, c| i.poll_close(c))
    }
}
type RH = Joint<ReadHalf<SubstreamBox>>;
type WH = Joint<WriteHalf<SubstreamBox>>;
fn split_stream(s: SubstreamBox, joint: bool) -> (RH, WH) {
    let (r, w) = s.split();
    let pair = if joint { Some(Arc::new(Pair::default())) } else { None };
    (Joint { inner: r, pair: pair.clone(), slot: 0 }, Joint { inner: w, pair, slot: 1 })
}

struct Ctx {
    w: W,
    spawner: Spawner,
    plans: HashMap<u32, StreamPlan>,
    wgates: HashMap<(u32, u8), Arc<Gate>>,
    rgate: Arc<Gate>,
    yields: bool,
    joint_wakers: bool,
}

async fn writer_task(cx: Arc<Ctx>, uid: u32, dir: u8, prog: Vec<WOp>, mut wh: WH) {
    writer_body(&cx, uid, dir, prog, &mut wh).await;
    cx.w.lock().unwrap().park(uid, dir, Box::new(wh));
}

async fn writer_body(cx: &Arc<Ctx>, uid: u32, dir: u8, prog: Vec<WOp>, wh: &mut WH) {
    let gate = cx.wgates[&(uid, dir)].clone();
    let mut off = 0usize;
    {
        let mut w = cx.w.lock().unwrap();
        let r = w.recs.entry((uid, dir)).or_default();
        r.ends_with_flush_or_close = matches!(prog.last(), Some(WOp::Flush) | Some(WOp::Close));
    }
    for op in prog {
        gate.pass().await;
        if cx.yields {
            yield_now().await;
        }
        match op {
            WOp::Write(n) => {
                let data: Vec<u8> = (off..off + n).map(|o| byte_at(uid, dir, o)).collect();
                let mut sent = 0;
                while sent < n {
                    match wh.write(&data[sent..]).await {
                        Ok(0) => {
                            cx.w.lock().unwrap().recs.get_mut(&(uid, dir)).unwrap().write_err = Some("write returned 0".into());
                            return;
                        }
                        Ok(k) => {
                            sent += k;
                            let mut w = cx.w.lock().unwrap();
                            w.tick();
                            w.op("write_calls");
                            w.recs.get_mut(&(uid, dir)).unwrap().written += k;
                        }
                        Err(e) => {
                            cx.w.lock().unwrap().recs.get_mut(&(uid, dir)).unwrap().write_err = Some(format!("write: {e}"));
                            return;
                        }
                    }
                }
                off += n;
            }
            WOp::Flush => {
                let r = wh.flush().await;
                let mut w = cx.w.lock().unwrap();
                w.op("flushes");
                if let Err(e) = r {
                    w.recs.get_mut(&(uid, dir)).unwrap().write_err = Some(format!("flush: {e}"));
                    return;
                }
            }
            WOp::Close => {
                {
                    let mut w = cx.w.lock().unwrap();
                    let s = w.tick();
                    w.recs.get_mut(&(uid, dir)).unwrap().close_started = Some(s);
                }
                let r = wh.close().await;
                let mut w = cx.w.lock().unwrap();
                w.op("half_closes");
                match r {
                    Ok(()) => {
                        let s = w.tick();
                        w.recs.get_mut(&(uid, dir)).unwrap().close_done = Some(s);
                    }
                    Err(e) => {
                        w.recs.get_mut(&(uid, dir)).unwrap().write_err = Some(format!("close: {e}"));
                        return;
                    }
                }
            }
        }
    }
    cx.w.lock().unwrap().recs.get_mut(&(uid, dir)).unwrap().prog_done = true;
}

/// checks `buf` against the expected bytes of (uid, dir) at the current receive offset
fn account_read(w: &mut World, uid: u32, dir: u8, buf: &[u8]) -> bool {
    w.tick();
    w.op("read_calls");
    let r = w.recs.entry((uid, dir)).or_default();
    let base = r.received;
    for (i, b) in buf.iter().enumerate() {
        if *b != byte_at(uid, dir, base + i) {
            let what = format!("stream {uid} dir {dir}: byte at offset {} is {:#04x}, expected {:#04x} (chunk of {} bytes at offset {base}: {})", base + i, b, byte_at(uid, dir, base + i), buf.len(), util::short_hex(buf));
            w.viol("foreign-or-corrupt-bytes", what);
            return false;
        }
    }
    r.received += buf.len();
    if r.received > r.written {
        let what = format!("stream {uid} dir {dir}: received {} bytes, only {} written so far", r.received, r.written);
        w.viol("bytes-from-nowhere", what);
        return false;
    }
    true
}

async fn reader_task(cx: Arc<Ctx>, uid: u32, dir: u8, mut rh: RH, chunk: usize) {
    reader_body(&cx, uid, dir, &mut rh, chunk).await;
    cx.w.lock().unwrap().park(uid, 1 - dir, Box::new(rh));
}

async fn reader_body(cx: &Arc<Ctx>, uid: u32, dir: u8, rh: &mut RH, chunk: usize) {
    cx.w.lock().unwrap().recs.entry((uid, dir)).or_default().reader_running = true;
    let mut buf = vec![0u8; chunk.max(1)];
    loop {
        cx.rgate.pass().await;
        match rh.read(&mut buf).await {
            Ok(0) => {
                let mut w = cx.w.lock().unwrap();
                let s = w.tick();
                let r = w.recs.entry((uid, dir)).or_default();
                r.eof = Some(s);
                let (cs, wr, rc) = (r.close_started, r.written, r.received);
                if cs.is_none() {
                    w.viol("eof-before-writer-closed", format!("stream {uid} dir {dir}: reader got EOF, writer has not closed (written {wr}, received {rc})"));
                } else if rc != wr {
                    w.viol("eof-before-all-bytes-delivered", format!("stream {uid} dir {dir}: EOF after {rc} of {wr} bytes"));
                }
                return;
            }
            Ok(n) => {
                let mut w = cx.w.lock().unwrap();
                if !account_read(&mut w, uid, dir, &buf[..n]) {
                    return;
                }
            }
            Err(e) => {
                cx.w.lock().unwrap().recs.entry((uid, dir)).or_default().read_err = Some(e.to_string());
                return;
            }
        }
        if cx.yields {
            yield_now().await;
        }
    }
}

/// acceptor side of a new inbound substream: learn the uid from the first four bytes
async fn inbound_task(cx: Arc<Ctx>, side: usize, s: SubstreamBox) {
    let (mut rh, wh) = split_stream(s, cx.joint_wakers);
    let mut pre = [0u8; 4];
    let mut got = 0;
    while got < 4 {
        cx.rgate.pass().await;
        match rh.read(&mut pre[got..]).await {
            Ok(0) | Err(_) => {
                // a stream that ended before identifying itself: nothing to attribute
                cx.w.lock().unwrap().anonymous_inbound += 1;
                return;
            }
            Ok(n) => got += n,
        }
    }
    let uid = pre[1] as u32 | ((pre[2] as u32) << 8);
    let plan = match cx.plans.get(&uid) {
        Some(p) if pre[0] == 0xA5 && pre[3] == 0x5A && p.opener != side => p.clone(),
        _ => {
            cx.w.lock().unwrap().viol("inbound-stream-with-foreign-preamble", format!("side {side}: new inbound stream starts with {}", vmon::hex(&pre)));
            return;
        }
    };
    {
        let mut w = cx.w.lock().unwrap();
        if !w.accepted.insert(uid) {
            w.viol("substream-accepted-twice", format!("uid {uid} arrived as two inbound substreams"));
            return;
        }
        w.op("streams_accepted");
        if !account_read(&mut w, uid, 0, &pre) {
            return;
        }
    }
    cx.spawner.spawn(writer_task(cx.clone(), uid, 1, plan.progs[1].clone(), wh).boxed());
    reader_task(cx.clone(), uid, 0, rh, plan.read_chunk[0]).await;
}

async fn mux_task(cx: Arc<Ctx>, side: usize, mut mux: StreamMuxerBox, mut opens: VecDeque<StreamPlan>, mut rng: Rng, open_gate: Arc<Gate>) {
    let mut permit = false;
    poll_fn(move |c: &mut Context<'_>| {
        // planned opens
        while let Some(p) = opens.front() {
            if !permit {
                match std::pin::pin!(open_gate.pass()).poll(c) {
                    Poll::Ready(()) => permit = true,
                    Poll::Pending => break,
                }
                if cx.yields && !rng.chance(1, 3) {
                    // spread opens over time
                    c.waker().wake_by_ref();
                    break;
                }
            }
            match Pin::new(&mut mux).poll_outbound(c) {
                Poll::Ready(Ok(s)) => {
                    permit = false;
                    let p = p.clone();
                    opens.pop_front();
                    cx.w.lock().unwrap().op("streams_opened");
                    let (rh, wh) = split_stream(s, cx.joint_wakers);
                    cx.spawner.spawn(writer_task(cx.clone(), p.uid, 0, p.progs[0].clone(), wh).boxed());
                    cx.spawner.spawn(reader_task(cx.clone(), p.uid, 1, rh, p.read_chunk[1]).boxed());
                }
                Poll::Ready(Err(e)) => {
                    cx.w.lock().unwrap().conn_errors.push(format!("side {side} poll_outbound: {e}"));
                    return Poll::Ready(());
                }
                Poll::Pending => break,
            }
        }
        for i in 0..4 {
            if i == 3 {
                // do not starve the other tasks, but come back: more inbound streams may be ready
                c.waker().wake_by_ref();
                break;
            }
            match Pin::new(&mut mux).poll_inbound(c) {
                Poll::Ready(Ok(s)) => cx.spawner.spawn(inbound_task(cx.clone(), side, s).boxed()),
                Poll::Ready(Err(e)) => {
                    cx.w.lock().unwrap().conn_errors.push(format!("side {side} poll_inbound: {e}"));
                    return Poll::Ready(());
                }
                Poll::Pending => break,
            }
        }
        match Pin::new(&mut mux).poll(c) {
            Poll::Ready(Ok(_)) => c.waker().wake_by_ref(),
            Poll::Ready(Err(e)) => {
                cx.w.lock().unwrap().conn_errors.push(format!("side {side} poll: {e}"));
                return Poll::Ready(());
            }
            Poll::Pending => {}
        }
        Poll::<()>::Pending
    })
    .await
}

fn build_muxers(plan: &Plan, a: pipe::End, b: pipe::End) -> (StreamMuxerBox, StreamMuxerBox) {
    match plan.kind {
        MuxKind::Mplex => {
            let mut cfg = libp2p_mplex::Config::new();
            cfg.set_split_send_size(plan.split_send).set_max_buffer_size(plan.max_buffer_len).set_max_buffer_behaviour(libp2p_mplex::MaxBufferBehaviour::Block);
            let ma = cfg.clone().upgrade_outbound(a, "/mplex/6.7.0").now_or_never().unwrap().unwrap();
            let mb = cfg.upgrade_inbound(b, "/mplex/6.7.0").now_or_never().unwrap().unwrap();
            (StreamMuxerBox::new(ma), StreamMuxerBox::new(mb))
        }
        MuxKind::Yamux => {
            let cfg = libp2p_yamux::Config::default();
            let ma = cfg.clone().upgrade_outbound(a, "/yamux/1.0.0").now_or_never().unwrap().unwrap();
            let mb = cfg.upgrade_inbound(b, "/yamux/1.0.0").now_or_never().unwrap().unwrap();
            (StreamMuxerBox::new(ma), StreamMuxerBox::new(mb))
        }
    }
}

pub struct Outcome {
    pub violations: Vec<(String, String)>,
    pub budget: bool,
    pub decisions: u64,
    pub ops: HashMap<&'static str, u64>,
    pub bytes: u64,
    pub streams_done: u64,
    pub summary: Vec<String>,
}

pub fn run_plan(plan: &Plan) -> Outcome {
    let (sa, sb) = match plan.chunk_seed {
        None => (pipe::Sched::smooth(), pipe::Sched::smooth()),
        Some(s) => {
            let mut r = Rng::new(s);
            let (mut x, mut y) = (pipe::Sched::random(&mut r), pipe::Sched::random(&mut r));
            let total: usize = plan.streams.iter().flat_map(|s| s.progs.iter()).flatten().map(|o| if let WOp::Write(n) = o { *n } else { 0 }).sum();
            if total > 20_000 {
                // byte-wise transport of hundreds of kilobytes only burns the poll budget
                for s in [&mut x, &mut y] {
                    s.max_read = s.max_read.max(2048);
                    s.max_write = s.max_write.max(2048);
                }
            }
            (x, y)
        }
    };
    let (a, b, a2b, b2a) = pipe::pipe(sa, sb);
    a2b.with(|d| d.record = false);
    b2a.with(|d| d.record = false);
    let (ma, mb) = build_muxers(plan, a, b);
    let mut tasks = Tasks::new();
    let w: W = Arc::new(Mutex::new(World::default()));
    let scripted = plan.scripted.is_some();
    let mut wgates = HashMap::new();
    for s in &plan.streams {
        for d in 0..2u8 {
            wgates.insert((s.uid, d), Gate::new(!scripted));
        }
    }
    let eager_readers = plan.scripted.as_ref().map(|s| s.1).unwrap_or(true);
    let cx = Arc::new(Ctx {
        w: w.clone(),
        spawner: tasks.spawner(),
        plans: plan.streams.iter().map(|s| (s.uid, s.clone())).collect(),
        wgates,
        rgate: Gate::new(eager_readers),
        yields: !scripted,
        joint_wakers: plan.kind == MuxKind::Yamux && !plan.yamux_split_wakers,
    });
    let mut rng = Rng::new(plan.sched_seed);
    let open_gate = Gate::new(true);
    let opens_a: VecDeque<StreamPlan> = plan.streams.iter().filter(|s| s.opener == 0).cloned().collect();
    let opens_b: VecDeque<StreamPlan> = plan.streams.iter().filter(|s| s.opener == 1).cloned().collect();
    tasks.spawner().spawn(mux_task(cx.clone(), 0, ma, opens_a, Rng::new(rng.next_u64()), open_gate.clone()).boxed());
    tasks.spawner().spawn(mux_task(cx.clone(), 1, mb, opens_b, Rng::new(rng.next_u64()), open_gate.clone()).boxed());

    let mut decisions: u64 = 0xcbf29ce484222325;
    let mut polls = 0u64;
    let mut budget = false;
    let cap = 2_000_000u64;
    let run_to_quiescence = |tasks: &mut Tasks, rng: &mut Rng, decisions: &mut u64, polls: &mut u64| -> bool {
        loop {
            let r = tasks.runnable();
            if r.is_empty() {
                return true;
            }
            let pick = r[rng.usize(r.len())];
            *decisions = (*decisions ^ pick as u64).wrapping_mul(0x100000001b3);
            tasks.poll(pick);
            *polls += 1;
            if *polls > cap {
                return false;
            }
        }
    };
    match &plan.scripted {
        None => {
            if !run_to_quiescence(&mut tasks, &mut rng, &mut decisions, &mut polls) {
                budget = true;
            }
        }
        Some((order, _)) => {
            if !run_to_quiescence(&mut tasks, &mut rng, &mut decisions, &mut polls) {
                budget = true;
            }
            for (uid, dir) in order {
                cx.wgates[&(*uid, *dir)].grant(1);
                if !run_to_quiescence(&mut tasks, &mut rng, &mut decisions, &mut polls) {
                    budget = true;
                    break;
                }
            }
            // afterwards everything may run freely
            for g in cx.wgates.values() {
                g.open();
            }
            cx.rgate.open();
            if !run_to_quiescence(&mut tasks, &mut rng, &mut decisions, &mut polls) {
                budget = true;
            }
        }
    }
    if std::env::var("VC_DEBUG").is_ok() {
        let g = w.lock().unwrap();
        eprintln!("quiescent after {polls} polls: a2b buffered {} (written {} read {}), b2a buffered {} (written {} read {}); live tasks {}; accepted {:?}; ops {:?}; anonymous {}", a2b.buffered(), a2b.written(), a2b.read(), b2a.buffered(), b2a.written(), b2a.read(), tasks.live(), g.accepted, g.ops, g.anonymous_inbound);
    }
    // end-of-history checks
    let mut g = w.lock().unwrap();
    let mut bytes = 0u64;
    let mut done = 0u64;
    let mut summary = vec![];
    if !budget {
        if !g.conn_errors.is_empty() {
            let e = g.conn_errors.join("; ");
            g.viol("connection-error-on-healthy-pipe", e);
        }
        let keys: Vec<(u32, u8)> = plan.streams.iter().flat_map(|s| [(s.uid, 0u8), (s.uid, 1u8)]).collect();
        for k in keys {
            let prog = &plan.streams.iter().find(|s| s.uid == k.0).unwrap().progs[k.1 as usize];
            let Some(r) = g.recs.get(&k) else {
                if !prog.is_empty() {
                    g.viol("stream-never-established", format!("stream {} dir {}: no writer/reader ever ran", k.0, k.1));
                }
                continue;
            };
            bytes += r.received as u64;
            summary.push(format!("{}:{} w{} r{} eof:{}", k.0, k.1, r.written, r.received, r.eof.is_some()));
            let (written, received, prog_done, fl, cd, eof, rerr, werr, rr) = (r.written, r.received, r.prog_done, r.ends_with_flush_or_close, r.close_done, r.eof, r.read_err.clone(), r.write_err.clone(), r.reader_running);
            if let Some(e) = werr {
                g.viol("write-error-on-healthy-stream", format!("stream {} dir {}: {e}", k.0, k.1));
                continue;
            }
            if let Some(e) = rerr {
                g.viol("read-error-on-healthy-stream", format!("stream {} dir {}: {e}", k.0, k.1));
                continue;
            }
            if !prog_done {
                g.viol("writer-stalled", format!("stream {} dir {}: writer program not finished at quiescence (written {written}, received {received})", k.0, k.1));
                continue;
            }
            if !rr && !prog.is_empty() && written > 0 {
                g.viol("stream-never-established", format!("stream {} dir {}: {written} bytes written, reader never started", k.0, k.1));
                continue;
            }
            if fl && received != written {
                g.viol("bytes-not-delivered-at-quiescence", format!("stream {} dir {}: {received} of {written} bytes delivered although the writer flushed/closed", k.0, k.1));
                continue;
            }
            if cd.is_some() && eof.is_none() && rr {
                g.viol("eof-not-delivered", format!("stream {} dir {}: writer's close completed, reader never saw EOF", k.0, k.1));
                continue;
            }
            if eof.is_some() {
                done += 1;
            }
        }
    }
    let out = Outcome { violations: g.violations.clone(), budget, decisions, ops: g.ops.clone(), bytes, streams_done: done, summary };
    drop(g);
    tasks.clear();
    out
}

fn gen_prog(rng: &mut Rng, first_min: usize, big: bool) -> Vec<WOp> {
    let mut p = vec![];
    let n_ops = 1 + rng.usize(6);
    for i in 0..n_ops {
        let n = match rng.usize(10) {
            0 => 1,
            1 | 2 => 1 + rng.usize(8),
            3 => 100 + rng.usize(400),
            4 => 8000 + rng.usize(600),
            5 if big => 20_000 + rng.usize(30_000),
            6 if big && rng.chance(1, 4) => 270_000 + rng.usize(40_000),
            _ => 1 + rng.usize(40),
        };
        p.push(WOp::Write(if i == 0 { n.max(first_min) } else { n }));
        if rng.chance(1, 3) {
            p.push(WOp::Flush);
        }
    }
    match rng.usize(6) {
        0 => p.push(WOp::Flush), // stays open
        _ => p.push(WOp::Close),
    }
    p
}

fn gen_plan(rng: &mut Rng, kind: MuxKind, big: bool) -> Plan {
    let n = 1 + rng.usize(6);
    let streams = (0..n)
        .map(|i| {
            let back = if rng.chance(1, 6) { vec![WOp::Close] } else { gen_prog(rng, 1, big) };
            StreamPlan { uid: 1 + i as u32 + 7 * rng.usize(30) as u32 * 8, opener: rng.usize(2), progs: [gen_prog(rng, 4, big), back], read_chunk: [*rng.pick(&[1usize, 3, 64, 4096, 70_000]), *rng.pick(&[1usize, 7, 512, 70_000])] }
        })
        .collect::<Vec<_>>();
    // unique uids
    let mut seen = HashSet::new();
    let streams: Vec<StreamPlan> = streams.into_iter().filter(|s| seen.insert(s.uid)).collect();
    let total: usize = streams.iter().flat_map(|s| s.progs.iter()).flatten().map(|o| if let WOp::Write(n) = o { *n } else { 0 }).sum();
    // tiny read buffers on hundreds of kilobytes only burn the poll budget
    let mut streams = streams;
    for st in &mut streams {
        for d in 0..2 {
            let n: usize = st.progs[d].iter().map(|o| if let WOp::Write(n) = o { *n } else { 0 }).sum();
            st.read_chunk[d] = st.read_chunk[d].max(n / 3000);
        }
    }
    let mut split_send = *rng.pick(&[1usize, 5, 64, 8192, 8192]);
    if total > 4_000 && split_send < 64 {
        split_send = 64;
    }
    if total > 100_000 {
        split_send = 8192;
    }
    Plan {
        kind,
        split_send,
        max_buffer_len: *rng.pick(&[1usize, 2, 4, 32, 32]),
        streams,
        chunk_seed: if rng.chance(1, 4) { None } else { Some(rng.next_u64()) },
        sched_seed: rng.next_u64(),
        scripted: None,
        case: 0,
        yamux_split_wakers: false,
    }
}

fn plan_json(p: &Plan) -> vmon::Value {
    json!({
        "muxer": format!("{:?}", p.kind), "mplex_split_send_size": p.split_send, "mplex_max_buffer_len": p.max_buffer_len,
        "streams": p.streams.iter().map(|s| json!({"uid": s.uid, "opener": if s.opener == 0 { "A" } else { "B" }, "opener_to_acceptor": format!("{:?}", s.progs[0]), "acceptor_to_opener": format!("{:?}", s.progs[1]), "read_chunk": s.read_chunk})).collect::<Vec<_>>(),
        "chunk_seed": p.chunk_seed, "sched_seed": p.sched_seed, "case": p.case,
        "scripted": p.scripted.as_ref().map(|s| json!({"op_order": s.0, "eager_readers": s.1})),
    })
}

fn run_and_judge(check: &Check, plan: &Plan) {
    let kind = match plan.kind {
        MuxKind::Mplex => "mplex",
        MuxKind::Yamux => "yamux",
    };
    match catch(|| run_plan(plan)) {
        Err(p) => check.violation(format!("panic@{}", p.site()), format!("panic in {kind} run: {}", p.msg), plan_json(plan)),
        Ok(o) => {
            if o.budget {
                check.inconclusive(format!("{kind}: poll budget exhausted"));
                return;
            }
            for (sig, what) in &o.violations {
                let mut w = plan_json(plan);
                w["per_stream"] = json!(o.summary);
                check.violation(format!("{sig}-{kind}"), what.clone(), w);
            }
            for (k, v) in &o.ops {
                check.count(&format!("ops_{k}"), *v);
            }
            check.count(&format!("bytes_delivered_{kind}"), o.bytes);
            check.count("stream_directions_completed_with_eof", o.streams_done);
            check.distinct("distinct_interleavings", o.decisions);
            let mut s = Sig::new().str(kind).u64(plan.split_send as u64).u64(plan.max_buffer_len as u64).u64(plan.chunk_seed.unwrap_or(0));
            for st in &plan.streams {
                s.push_u64(st.uid as u64 * 2 + st.opener as u64);
                for p in &st.progs {
                    for op in p {
                        s.push_u64(match op {
                            WOp::Write(n) => *n as u64 + 10,
                            WOp::Flush => 1,
                            WOp::Close => 2,
                        });
                    }
                    s.push_u64(0);
                }
            }
            if let Some((o, e)) = &plan.scripted {
                for x in o {
                    s.push_u64(x.0 as u64 * 2 + x.1 as u64);
                }
                s.push_u64(*e as u64);
            }
            check.case(s.0, o.bytes > 0);
            check.count(&format!("cases_{kind}"), 1);
            if check.want_sample() && plan.streams.len() >= 2 && plan.scripted.is_none() {
                check.sample(json!({"plan": plan_json(plan), "per_stream": o.summary}));
            }
        }
    }
}

fn serde_json_pretty(v: &vmon::Value) -> String {
    format!("{v:#}")
}

/// all merges of two sequences of length 3 (as choice strings)
fn merges() -> Vec<Vec<u8>> {
    let mut out = vec![];
    for mask in 0u32..64 {
        if mask.count_ones() == 3 {
            out.push((0..6).map(|i| ((mask >> i) & 1) as u8).collect());
        }
    }
    out
}

pub fn run(args: &Args) -> i32 {
    let check = Check::new(
        args,
        "exploration",
        "PRNG plans (1-6 substreams opened by either side, per-direction programs of Write/Flush/Close, mplex split/buffer settings, pipe chunking) under a PRNG task scheduler, \
         plus all 20 op merges of two 3-op writers x eager/late readers x 2 topologies per muxer; distinct = (muxer, settings, programs, op order); non-trivial = at least one byte delivered",
    );
    let tiny = util::tiny(args);
    if args.extra.contains_key("case") {
        util::debug_logging();
    }
    // bounded-exhaustive
    let mut scripted = vec![];
    for kind in [MuxKind::Mplex, MuxKind::Yamux] {
        for topo in 0..2usize {
            for eager in [true, false] {
                for m in merges() {
                    let prog = vec![WOp::Write(5), WOp::Flush, WOp::Close];
                    let streams = vec![
                        StreamPlan { uid: 11, opener: 0, progs: [prog.clone(), vec![WOp::Write(3), WOp::Close]], read_chunk: [64, 64] },
                        StreamPlan { uid: 22, opener: topo, progs: [prog.clone(), vec![WOp::Write(2), WOp::Close]], read_chunk: [2, 64] },
                    ];
                    let order: Vec<(u32, u8)> = m.iter().map(|c| (if *c == 0 { 11 } else { 22 }, 0u8)).collect();
                    scripted.push(Plan { kind, split_send: 8192, max_buffer_len: 32, streams, chunk_seed: None, sched_seed: 1, scripted: Some((order, eager)), case: 0, yamux_split_wakers: false });
                }
            }
        }
    }
    if tiny {
        scripted.truncate(3);
    }
    vmon::par_cases(&check, scripted.len() as u64, args.threads, |i, _| {
        run_and_judge(&check, &scripted[i as usize]);
        check.count("scripted_interleavings", 1);
    });
    check.note("exhaustive", json!({"two_streams_x_three_ops": "all 20 op merges x eager/late readers x {both opened by A, one by each side} x {mplex, yamux}", "overall": false}));
    // PRNG
    let only_case: Option<u64> = args.extra.get("case").and_then(|s| s.parse().ok());
    let n = util::budget(args, 2_400, 40_000, 4);
    vmon::par_cases(&check, n, args.threads, |i, rng| {
        let kind = if i % 2 == 0 { MuxKind::Mplex } else { MuxKind::Yamux };
        let big = !tiny && rng.chance(1, 3);
        let mut plan = gen_plan(rng, kind, big);
        plan.case = i;
        plan.yamux_split_wakers = args.extra.contains_key("yamux_split_wakers");
        if let Some(c) = only_case {
            if c != i {
                return;
            }
            eprintln!("plan: {}", serde_json_pretty(&plan_json(&plan)));
        }
        run_and_judge(&check, &plan);
    });
    check.finish()
}
