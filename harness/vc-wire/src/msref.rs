//! Independent reference for the multistream-select 1.0.0 wire format and negotiation outcome,
//! written from the spec / the property statements (shared by C14 and C15). Nothing here calls into
//! the crate under test.
use vmon::pb;

pub const HEADER: &[u8] = b"/multistream/1.0.0\n";
/// statement: "framed with a length prefix of at most two bytes" ⇒ a frame body is at most 2^14-1 bytes
pub const MAX_BODY: usize = (1 << 14) - 1;

#[derive(Debug, Clone, PartialEq, Eq)]
pub enum RMsg {
    Header,
    Na,
    Ls,
    /// `/name\n` (name without the newline, raw bytes)
    Proto(Vec<u8>),
    /// ls response: names without newline
    List(Vec<Vec<u8>>),
    Other(Vec<u8>),
}

#[derive(Debug, Clone, PartialEq, Eq)]
pub enum FrameErr {
    /// third prefix byte would be needed (both of the first two have the continuation bit)
    PrefixTooLong,
    /// two-byte prefix whose second byte is zero
    NonMinimal,
}

/// Split `wire` into frame bodies. Returns (bodies, error-or-None, unconsumed tail).
pub fn parse_frames(mut wire: &[u8]) -> (Vec<Vec<u8>>, Option<FrameErr>, Vec<u8>) {
    let mut out = vec![];
    loop {
        if wire.is_empty() {
            return (out, None, vec![]);
        }
        let (len, k) = if wire[0] < 0x80 {
            (wire[0] as usize, 1)
        } else {
            if wire.len() < 2 {
                return (out, None, wire.to_vec());
            }
            if wire[1] >= 0x80 {
                return (out, Some(FrameErr::PrefixTooLong), wire.to_vec());
            }
            if wire[1] == 0 {
                return (out, Some(FrameErr::NonMinimal), wire.to_vec());
            }
            (((wire[0] & 0x7f) as usize) | ((wire[1] as usize) << 7), 2)
        };
        if wire.len() < k + len {
            return (out, None, wire.to_vec());
        }
        out.push(wire[k..k + len].to_vec());
        wire = &wire[k + len..];
    }
}

pub fn classify(body: &[u8]) -> RMsg {
    if body == HEADER {
        return RMsg::Header;
    }
    if body == b"na\n" {
        return RMsg::Na;
    }
    if body == b"ls\n" {
        return RMsg::Ls;
    }
    if body.first() == Some(&b'/') && body.last() == Some(&b'\n') && !body[..body.len() - 1].contains(&b'\n') {
        return RMsg::Proto(body[..body.len() - 1].to_vec());
    }
    // ls response: (uvarint(len) name '\n')* '\n'
    let mut rest = body;
    let mut names = vec![];
    loop {
        if rest == b"\n" {
            return RMsg::List(names);
        }
        match pb::get_uvarint(rest) {
            Some((n, k)) if n >= 1 && rest.len() >= k + n as usize && rest[k + n as usize - 1] == b'\n' => {
                names.push(rest[k..k + n as usize - 1].to_vec());
                rest = &rest[k + n as usize..];
            }
            _ => return RMsg::Other(body.to_vec()),
        }
    }
}

pub fn frame(body: &[u8]) -> Vec<u8> {
    assert!(body.len() <= MAX_BODY);
    pb::frame(body)
}
pub fn enc_header() -> Vec<u8> {
    frame(HEADER)
}
pub fn enc_na() -> Vec<u8> {
    frame(b"na\n")
}
pub fn enc_ls() -> Vec<u8> {
    frame(b"ls\n")
}
pub fn enc_proto(name: &[u8]) -> Vec<u8> {
    let mut b = name.to_vec();
    b.push(b'\n');
    frame(&b)
}
pub fn enc_list(names: &[Vec<u8>]) -> Vec<u8> {
    let mut b = vec![];
    for n in names {
        b.extend(pb::uvarint(n.len() as u64 + 1));
        b.extend_from_slice(n);
        b.push(b'\n');
    }
    b.push(b'\n');
    frame(&b)
}

/// A name the statement's round-trip clause covers: starts with '/', valid UTF-8 (API takes &str),
/// no newline (the wire format is newline-terminated), not the reserved header line, and its frame
/// (name + '\n') fits a two-byte prefix.
pub fn is_plain_valid_name(n: &str) -> bool {
    n.starts_with('/') && !n.contains('\n') && n.as_bytes() != &HEADER[..HEADER.len() - 1] && n.len() < MAX_BODY
}

/// Reference negotiation outcome (statement of C14): the first dialer protocol the listener supports.
pub fn expected_protocol<'a>(dialer: &'a [String], listener: &[String]) -> Option<&'a String> {
    dialer.iter().find(|d| listener.iter().any(|l| l == *d))
}

#[derive(Debug, Clone, PartialEq, Eq)]
pub enum Outcome {
    Ok(Vec<u8>),
    Err,
    /// the byte stream does not determine the outcome under the statement (see callers)
    NotJudged,
}

/// Reference *listener* fed with the complete peer byte stream followed by EOF.
pub fn listener_outcome(input: &[u8], supported: &[String]) -> Outcome {
    let (frames, err, _tail) = parse_frames(input);
    let mut it = frames.iter();
    match it.next().map(|b| classify(b)) {
        Some(RMsg::Header) => {}
        _ => return Outcome::Err, // wrong first message, framing error, or EOF before a full header
    }
    for b in it {
        match classify(b) {
            RMsg::Ls => {}
            RMsg::Proto(p) => match std::str::from_utf8(&p) {
                Ok(s) if supported.iter().any(|x| x == s) => return Outcome::Ok(p),
                Ok(_) => {}
                Err(_) => return Outcome::Err,
            },
            _ => return Outcome::Err,
        }
    }
    let _ = err;
    Outcome::Err // framing error, truncated frame or EOF: no agreement
}

/// Reference *dialer* (V1 semantics; for V1Lazy with a single protocol it describes what the first
/// read must report) fed with the complete peer byte stream followed by EOF.
/// Header placement other than "exactly one, first" is not judged for acceptance.
pub fn dialer_outcome(input: &[u8], proposals: &[String]) -> Outcome {
    let (frames, _err, _tail) = parse_frames(input);
    let msgs: Vec<RMsg> = frames.iter().map(|b| classify(b)).collect();
    let conforming_header = matches!(msgs.first(), Some(RMsg::Header)) && msgs.iter().skip(1).all(|m| *m != RMsg::Header);
    let mut cur = 0usize;
    let mut saw_irregular_header = false;
    for (i, m) in msgs.iter().enumerate() {
        match m {
            RMsg::Header => {
                if i != 0 {
                    saw_irregular_header = true;
                }
            }
            RMsg::Na => {
                cur += 1;
                if cur >= proposals.len() {
                    return Outcome::Err;
                }
            }
            RMsg::Proto(p) => {
                if proposals.get(cur).map(|s| s.as_bytes()) == Some(&p[..]) {
                    if conforming_header && !saw_irregular_header {
                        return Outcome::Ok(p.clone());
                    }
                    return Outcome::NotJudged;
                }
                return Outcome::Err;
            }
            _ => return Outcome::Err,
        }
    }
    Outcome::Err
}
