//! C26 — mplex enforces `max_substreams` and `max_buffer_len` without losing data.
//!
//! Rig: one real `libp2p_mplex::Multiplex` (small `max_substreams` m, `max_buffer_len` b, both
//! `MaxBufferBehaviour`s) on one end of a `vmon::pipe`; the other end is the harness acting as a *raw
//! wire adversary* with the reference mplex codec of C25: it opens many streams, floods data frames
//! (8-byte payload = stream id + sequence number) while the local readers are slow, half-closes and
//! resets. Frames are *offered one at a time* (pipe gated at the frame's last byte), so "the frame has
//! been pulled from the connection" is observable as "the gate offset has been consumed". Local side:
//! direct `StreamMuxer`/`AsyncRead` polls: `poll_inbound`, `poll_outbound`, 8-byte `poll_read` (exactly
//! one frame), `poll_flush`, drop.
//!
//! Reference model (from the statement and the public `Config` docs): a substream is *in use* from
//! its admission (inbound Open processed while fewer than m are in use, or `poll_outbound` success)
//! until the application drops it.
//!
//! Checked:
//!  * live substream handles ≤ m at all times;
//!  * every inbound Open processed while m were in use is answered by exactly one `Reset` for that id
//!    (flag 5) on the wire by the end of the history, and never handed out;
//!  * Block: per substream, frames pulled − frames delivered ≤ b + 1 after every step; every data frame
//!    pulled for a readable substream is delivered, in order; at the end (all readers draining, all
//!    frames offered) nothing is left undelivered and nothing is left un-pulled (= connection not stuck);
//!  * ResetStream: a substream whose backlog reaches b + 1 is reset: a `Reset` for it appears on the wire,
//!    at most b + 1 more frames are readable and then reads end; other substreams lose nothing;
//!  * EOF on a substream only after the remote closed/reset it (or it overflowed under ResetStream);
//!    a well-behaved remote never causes a connection error or panic.
//!
//! Not judged: what is readable after a remote `Reset`; data the remote sends on ids it never opened,
//! after its own Close, or on refused/dropped substreams (legitimately discarded); the order in which
//! buffered inbound substreams are handed out.
use std::{
    collections::{BTreeMap, VecDeque},
    pin::Pin,
    sync::Arc,
    task::{Context, Poll, Waker},
};

use futures::{AsyncRead, AsyncWrite, FutureExt};
#[allow(unused_imports)]
use std::task::Wake as _;
use libp2p_core::{muxing::StreamMuxer, upgrade::InboundConnectionUpgrade};
use libp2p_mplex::{Config, MaxBufferBehaviour, Multiplex, Substream};
use vmon::{
    Args, Check, Rng, Sig, catch,
    exec::{Flag, flag_waker},
    json, pipe,
};

use crate::{
    c25::{RefFrame, RefItem, ref_decode, ref_encode},
    util,
};

#[derive(Clone, Copy, Debug, PartialEq, Eq, PartialOrd, Ord, Hash)]
struct Key {
    /// opened by the local (real) side
    outbound: bool,
    id: u64,
}

#[derive(Clone, Debug)]
enum Op {
    /// remote: Open(id) for a fresh inbound id
    ROpen,
    /// remote: `n` data frames on an existing stream (index into the list of known keys)
    RData(usize, usize),
    RClose(usize),
    RReset(usize),
    /// local
    PumpInbound,
    Read(usize),
    /// read the same handle up to n frames
    ReadMany(usize, usize),
    Drop(usize),
    Flush(usize),
    OpenOutbound,
    /// the muxer's socket stops accepting bytes (pipe capacity 256, harness stops reading) and a local substream
    /// writes 8 KiB chunks until the muxer pushes back: from then on the framed sink is not ready, so control
    /// frames the muxer wants to send (Reset for excess opens / overflows, Close/Reset of dropped substreams)
    /// have to wait in its queue
    Congest(usize),
    /// the socket accepts bytes again; the harness reads and a flush is driven
    Uncongest,
}

#[derive(Default, Debug, Clone)]
struct MS {
    admitted: bool,
    excess: bool,
    handed_out: bool,
    dropped: bool,
    /// sequence numbers pulled while the substream could still receive
    pulled: Vec<u32>,
    delivered: Vec<u32>,
    remote_closed: bool,
    remote_reset: bool,
    /// ResetStream: number of frames that may be delivered in total (set at overflow)
    overflow_cap: Option<usize>,
    eof_seen: bool,
    next_seq: u32,
}

struct Handle {
    sub: Option<Substream<pipe::End>>,
    key: Option<Key>,
    outbound: bool,
}

struct Rig {
    mux: Multiplex<pipe::End>,
    _h: pipe::End,
    h2m: pipe::DirCtl,
    m2h: pipe::DirCtl,
    injected: u64,
    out_buf: Vec<u8>,
    out_frames: Vec<RefFrame>,
    flag: Arc<Flag>,
    waker: Waker,
    conn_err: Option<String>,
    handles: Vec<Handle>,
    queue: VecDeque<RefFrame>,
    outstanding: Option<RefFrame>,
    // model
    m: usize,
    b: usize,
    block: bool,
    /// remote may reset a substream twice / after it was already reset (rare histories)
    hostile_resets: bool,
    /// the remote reset a substream that was already reset (by it, or locally for overflow): known trigger of F3
    redundant_reset_seen: bool,
    /// the application dropped the substream that was blocking reads (Block mode): known trigger of F2
    dropped_blocking: bool,
    reset_sent: std::collections::BTreeSet<Key>,
    streams: BTreeMap<Key, MS>,
    next_inbound_id: u64,
    violations: Vec<(String, String)>,
    frames_pulled: u64,
    frames_delivered: u64,
    max_backlog: usize,
    resets_for_excess: u64,
    log: Vec<String>,
    congested: bool,
    congestions: u64,
}

fn payload(id: u64, seq: u32) -> Vec<u8> {
    let mut v = (id as u32).to_le_bytes().to_vec();
    v.extend(seq.to_le_bytes());
    v
}

impl Rig {
    fn new(m: usize, b: usize, block: bool, sched: pipe::Sched) -> Rig {
        let (h, me, h2m, m2h) = pipe::pipe(pipe::Sched::smooth(), sched);
        h2m.set_limit(Some(0));
        let mut cfg = Config::new();
        cfg.set_max_num_streams(m).set_max_buffer_size(b).set_max_buffer_behaviour(if block { MaxBufferBehaviour::Block } else { MaxBufferBehaviour::ResetStream });
        let mux = cfg.upgrade_inbound(me, "/mplex/6.7.0").now_or_never().unwrap().unwrap();
        let (flag, waker) = flag_waker();
        Rig {
            mux,
            _h: h,
            h2m,
            m2h,
            injected: 0,
            out_buf: vec![],
            out_frames: vec![],
            flag,
            waker,
            conn_err: None,
            handles: vec![],
            queue: VecDeque::new(),
            outstanding: None,
            m,
            b,
            block,
            congested: false,
            congestions: 0,
            hostile_resets: false,
            redundant_reset_seen: false,
            dropped_blocking: false,
            reset_sent: Default::default(),
            streams: BTreeMap::new(),
            next_inbound_id: 0,
            violations: vec![],
            frames_pulled: 0,
            frames_delivered: 0,
            max_backlog: 0,
            resets_for_excess: 0,
            log: vec![],
        }
    }
    fn viol(&mut self, sig: &str, what: String) {
        // only the first violation of a history is reported: afterwards model and muxer have diverged
        if self.violations.is_empty() {
            // the two known triggers get their own signatures so that an unrelated regression with the same
            // symptom is not mistaken for them
            let sig = if self.dropped_blocking && sig == "connection-stalled-frames-never-pulled" {
                format!("{sig}-after-drop-of-blocking-substream")
            } else if self.redundant_reset_seen && (sig == "substreams-in-use-exceed-max" || sig == "connection-stalled-frames-never-pulled") {
                format!("{sig}-after-redundant-reset")
            } else {
                sig.to_string()
            };
            self.violations.push((sig, what));
        }
    }
    fn in_use(&self) -> usize {
        self.streams.values().filter(|s| s.admitted && !s.dropped).count()
    }
    fn live_handles(&self) -> usize {
        self.handles.iter().filter(|h| h.sub.is_some()).count()
    }
    /// remote flag for a frame kind on a stream: the remote is the initiator of inbound streams
    fn remote_flag(key: Key, kind: u8) -> u8 {
        // kind: 0 data, 1 close, 2 reset
        match (kind, key.outbound) {
            (0, false) => 2,
            (0, true) => 1,
            (1, false) => 4,
            (1, true) => 3,
            (_, false) => 6,
            (_, true) => 5,
        }
    }
    fn key_of_frame(f: &RefFrame) -> Key {
        // frames sent by the remote: initiator flags (0,2,4,6) belong to inbound streams
        Key { outbound: matches!(f.flag, 1 | 3 | 5), id: f.id }
    }

    /// make sure a frame is on offer if there is one queued
    fn offer(&mut self) {
        if self.outstanding.is_none() {
            if let Some(f) = self.queue.pop_front() {
                let bytes = ref_encode(&f);
                self.h2m.inject(&bytes);
                self.injected += bytes.len() as u64;
                self.h2m.set_limit(Some(self.injected));
                self.outstanding = Some(f);
            }
        }
    }
    /// model update when the offered frame has been pulled from the pipe
    fn on_pulled(&mut self, f: RefFrame) {
        self.frames_pulled += 1;
        let key = Self::key_of_frame(&f);
        match f.flag {
            0 => {
                let in_use = self.in_use();
                let s = self.streams.entry(key).or_default();
                if in_use >= self.m {
                    s.excess = true;
                } else {
                    s.admitted = true;
                }
                self.log.push(format!("pulled Open({}) in_use {in_use} -> {}", f.id, if in_use >= self.m { "excess" } else { "admitted" }));
            }
            1 | 2 => {
                if let Some(s) = self.streams.get_mut(&key) {
                    if s.admitted && !s.dropped && !s.remote_closed && !s.remote_reset && s.overflow_cap.is_none() {
                        let seq = u32::from_le_bytes(f.data[4..8].try_into().unwrap());
                        s.pulled.push(seq);
                    }
                }
            }
            3 | 4 => {
                if let Some(s) = self.streams.get_mut(&key) {
                    s.remote_closed = true;
                }
            }
            _ => {
                if let Some(s) = self.streams.get_mut(&key) {
                    if s.admitted && !s.dropped && (s.remote_reset || s.overflow_cap.is_some()) {
                        self.redundant_reset_seen = true;
                    }
                    s.remote_reset = true;
                }
            }
        }
    }
    /// after every local poll: account for a consumed offer, drain the muxer's output, check bounds
    fn after_poll(&mut self, delivered: Option<(usize, Vec<u8>)>, eof_on: Option<usize>) {
        if self.outstanding.is_some() && self.h2m.read() == self.injected {
            let f = self.outstanding.take().unwrap();
            self.on_pulled(f);
        }
        if let Some((h, data)) = delivered {
            self.on_delivered(h, &data);
        }
        if let Some(h) = eof_on {
            self.on_eof(h);
        }
        // wire output (while congested the harness does not read)
        let out = if self.congested { vec![] } else { self.m2h.drain() };
        if !out.is_empty() {
            self.out_buf.extend(out);
            match ref_decode(&self.out_buf) {
                Some(items) => {
                    let mut consumed = 0;
                    for it in items {
                        match it {
                            RefItem::Frame(f) => {
                                consumed += ref_encode(&f).len();
                                self.out_frames.push(f);
                            }
                            RefItem::Err => {
                                self.viol("muxer-wrote-invalid-frame", format!("bytes written by the muxer do not decode: {}", util::short_hex(&self.out_buf)));
                                break;
                            }
                        }
                    }
                    self.out_buf.drain(..consumed);
                }
                None => self.viol("muxer-wrote-invalid-frame", format!("non-canonical framing written: {}", util::short_hex(&self.out_buf))),
            }
        }
        // bounds
        if self.live_handles() > self.m {
            let (l, m) = (self.live_handles(), self.m);
            self.viol("substreams-in-use-exceed-max", format!("{l} substream handles alive (not dropped), max_substreams {m}"));
        }
        let keys: Vec<Key> = self.streams.keys().copied().collect();
        for k in keys {
            let s = &self.streams[&k];
            if s.overflow_cap.is_some() {
                continue;
            }
            let backlog = s.pulled.len().saturating_sub(s.delivered.len());
            self.max_backlog = self.max_backlog.max(backlog);
            if self.block && backlog > self.b + 1 {
                let b = self.b;
                self.viol("buffered-frames-exceed-max-buffer-len-plus-one", format!("substream {k:?}: {backlog} frames pulled but not delivered, max_buffer_len {b}"));
            }
            if !self.block && backlog >= self.b + 1 {
                // overflow: the substream is to be reset; what is buffered (b+1 frames) stays readable
                let s = self.streams.get_mut(&k).unwrap();
                s.overflow_cap = Some(s.pulled.len());
                let n = s.pulled.len();
                self.log.push(format!("overflow on {k:?} at {n} pulled"));
            }
        }
    }
    fn on_delivered(&mut self, h: usize, data: &[u8]) {
        self.frames_delivered += 1;
        if data.len() != 8 {
            self.viol("delivered-frame-altered", format!("read returned {} bytes, frames carry 8", data.len()));
            return;
        }
        let id = u32::from_le_bytes(data[0..4].try_into().unwrap()) as u64;
        let seq = u32::from_le_bytes(data[4..8].try_into().unwrap());
        let outbound = self.handles[h].outbound;
        let key = Key { outbound, id };
        match self.handles[h].key {
            None => {
                if self.handles.iter().any(|x| x.key == Some(key)) {
                    self.viol("two-handles-for-one-substream", format!("{key:?} read through a second handle"));
                    return;
                }
                self.handles[h].key = Some(key);
                match self.streams.get_mut(&key) {
                    Some(s) if s.admitted => s.handed_out = true,
                    Some(s) if s.excess => {
                        let (l, m) = (self.live_handles(), self.m);
                        self.viol("substreams-in-use-exceed-max", format!("inbound {key:?} was opened while {m} substreams were in use (not dropped), yet it was admitted and handed out ({l} handles alive now)"));
                        return;
                    }
                    _ => {
                        self.viol("unknown-substream-handed-out", format!("handle delivers data of {key:?}, which was never opened"));
                        return;
                    }
                }
            }
            Some(k) if k != key => {
                self.viol("foreign-frame-delivered", format!("handle of {k:?} delivered a frame of {key:?}"));
                return;
            }
            _ => {}
        }
        let s = self.streams.get_mut(&key).unwrap();
        let idx = s.delivered.len();
        s.delivered.push(seq);
        if s.pulled.get(idx) != Some(&seq) {
            let what = format!("{key:?}: delivery #{idx} has seq {seq}, expected {:?} (pulled {:?}..)", s.pulled.get(idx), &s.pulled[..s.pulled.len().min(8)]);
            self.viol("data-frame-lost-or-reordered", what);
        }
    }
    fn on_eof(&mut self, h: usize) {
        let Some(key) = self.handles[h].key else {
            // unidentified handle: EOF is legitimate only if *some* admitted, not handed out stream was closed/reset; not judged
            return;
        };
        let block = self.block;
        let s = self.streams.get_mut(&key).unwrap();
        s.eof_seen = true;
        if !(s.remote_closed || s.remote_reset || s.overflow_cap.is_some()) {
            self.viol("eof-on-open-substream", format!("{key:?}: read returned EOF, remote neither closed nor reset it"));
            return;
        }
        if s.remote_closed && !s.remote_reset && s.overflow_cap.is_none() && s.delivered.len() < s.pulled.len() {
            let what = format!("{key:?}: EOF after {} of {} frames", s.delivered.len(), s.pulled.len());
            self.viol(if block { "block-data-frame-dropped" } else { "data-frame-dropped-without-overflow" }, what);
        }
    }

    fn pump_inbound(&mut self) {
        let mut idle = 0;
        for _ in 0..(4 * self.b + 200) {
            self.offer();
            self.flag.take();
            let w = self.waker.clone();
            let r = Pin::new(&mut self.mux).poll_inbound(&mut Context::from_waker(&w));
            let before = (self.frames_pulled, self.handles.len());
            match r {
                Poll::Ready(Ok(sub)) => {
                    self.handles.push(Handle { sub: Some(sub), key: None, outbound: false });
                    self.after_poll(None, None);
                }
                Poll::Ready(Err(e)) => {
                    self.conn_err = Some(format!("poll_inbound: {e}"));
                    self.after_poll(None, None);
                    return;
                }
                Poll::Pending => {
                    let woken = self.flag.is_set();
                    self.after_poll(None, None);
                    if !woken {
                        return;
                    }
                }
            }
            if (self.frames_pulled, self.handles.len()) == before {
                // self-woken without progress: spurious Pending of the socket, or blocked on a full buffer
                idle += 1;
                if idle > 48 {
                    return;
                }
            } else {
                idle = 0;
            }
        }
    }
    /// one 8-byte read on handle h; returns true if a frame or EOF was obtained
    fn read(&mut self, h: usize) -> bool {
        for _ in 0..48 {
            self.offer();
            let w = self.waker.clone();
            let Some(sub) = self.handles[h].sub.as_mut() else { return false };
            let mut buf = [0u8; 8];
            self.flag.take();
            match Pin::new(sub).poll_read(&mut Context::from_waker(&w), &mut buf) {
                Poll::Ready(Ok(0)) => {
                    self.after_poll(None, Some(h));
                    return true;
                }
                Poll::Ready(Ok(n)) => {
                    self.after_poll(Some((h, buf[..n].to_vec())), None);
                    return true;
                }
                Poll::Ready(Err(e)) => {
                    self.conn_err = Some(format!("poll_read: {e}"));
                    self.after_poll(None, None);
                    return false;
                }
                Poll::Pending => {
                    let woken = self.flag.is_set();
                    self.after_poll(None, None);
                    if !woken {
                        return false;
                    }
                }
            }
        }
        false
    }
    fn flush(&mut self, h: usize) {
        let w = self.waker.clone();
        let Some(sub) = self.handles[h].sub.as_mut() else { return };
        for _ in 0..4 {
            match Pin::new(&mut *sub).poll_flush(&mut Context::from_waker(&w)) {
                Poll::Ready(Ok(())) => break,
                Poll::Ready(Err(e)) => {
                    self.conn_err = Some(format!("poll_flush: {e}"));
                    break;
                }
                Poll::Pending => {}
            }
        }
        self.after_poll(None, None);
    }
    fn drop_handle(&mut self, h: usize) {
        let Some(key) = self.handles[h].key else { return };
        if self.handles[h].sub.take().is_some() {
            let st = self.streams.get_mut(&key).unwrap();
            if self.block && st.pulled.len().saturating_sub(st.delivered.len()) >= self.b + 1 {
                self.dropped_blocking = true;
            }
            st.dropped = true;
            self.log.push(format!("drop {key:?}"));
        }
        self.after_poll(None, None);
    }
    fn open_outbound(&mut self) {
        if self.congested {
            // the rig learns an outbound substream's id from the Open frame on the wire, which it does not read now
            return;
        }
        let room = self.in_use() < self.m;
        let w = self.waker.clone();
        match Pin::new(&mut self.mux).poll_outbound(&mut Context::from_waker(&w)) {
            Poll::Ready(Ok(sub)) => {
                if !room {
                    let (u, m) = (self.in_use(), self.m);
                    self.viol("substreams-in-use-exceed-max", format!("poll_outbound succeeded with {u} substreams in use (not dropped), max_substreams {m}"));
                }
                self.handles.push(Handle { sub: Some(sub), key: None, outbound: true });
                let h = self.handles.len() - 1;
                let seen = self.out_frames.len();
                self.flush(h);
                // the Open frame tells the id
                let id = self.out_frames[seen..].iter().find(|f| f.flag == 0).map(|f| f.id);
                match id {
                    Some(id) => {
                        let key = Key { outbound: true, id };
                        self.handles[h].key = Some(key);
                        let s = self.streams.entry(key).or_default();
                        s.admitted = true;
                        s.handed_out = true;
                    }
                    None => self.viol("outbound-open-not-announced", "poll_outbound + flush wrote no Open frame".to_string()),
                }
            }
            Poll::Ready(Err(e)) => self.conn_err = Some(format!("poll_outbound: {e}")),
            Poll::Pending => {}
        }
        self.after_poll(None, None);
    }

    fn known_keys(&self) -> Vec<Key> {
        self.streams.keys().copied().collect()
    }

    fn apply(&mut self, op: &Op) {
        match op {
            Op::ROpen => {
                let id = self.next_inbound_id;
                self.next_inbound_id += 1;
                self.queue.push_back(RefFrame { flag: 0, id, data: if id % 3 == 0 { b"name".to_vec() } else { vec![] } });
                // streams are identified by their first data frame
                self.streams.entry(Key { outbound: false, id }).or_default();
                self.queue_data(Key { outbound: false, id }, 1);
            }
            Op::RData(k, n) => {
                let keys = self.known_keys();
                if !keys.is_empty() {
                    self.queue_data(keys[k % keys.len()], *n);
                }
            }
            Op::RClose(k) | Op::RReset(k) => {
                let keys = self.known_keys();
                if !keys.is_empty() {
                    let key = keys[k % keys.len()];
                    let kind = if matches!(op, Op::RClose(_)) { 1 } else { 2 };
                    if kind == 2 && !self.hostile_resets {
                        // a well-behaved remote resets a substream at most once, and (ResetStream mode) not one that
                        // may already have been reset for overflow
                        if !self.block || !self.reset_sent.insert(key) {
                            return;
                        }
                    }
                    self.queue.push_back(RefFrame { flag: Self::remote_flag(key, kind), id: key.id, data: vec![] });
                }
            }
            Op::PumpInbound => self.pump_inbound(),
            Op::Read(h) => {
                if !self.handles.is_empty() {
                    let h = h % self.handles.len();
                    self.read(h);
                }
            }
            Op::ReadMany(h, n) => {
                if !self.handles.is_empty() {
                    let h = h % self.handles.len();
                    for _ in 0..*n {
                        if !self.read(h) {
                            break;
                        }
                    }
                }
            }
            Op::Drop(h) => {
                if !self.handles.is_empty() {
                    let h = h % self.handles.len();
                    self.drop_handle(h);
                }
            }
            Op::Flush(h) => {
                if !self.handles.is_empty() {
                    let h = h % self.handles.len();
                    self.flush(h);
                }
            }
            Op::OpenOutbound => self.open_outbound(),
            Op::Congest(h) => self.congest(*h),
            Op::Uncongest => self.uncongest(),
        }
    }
    fn congest(&mut self, h: usize) {
        let live: Vec<usize> = (0..self.handles.len()).filter(|h| self.handles[*h].sub.is_some()).collect();
        if self.congested || live.is_empty() {
            return;
        }
        let h = live[h % live.len()];
        self.congested = true;
        self.m2h.set_capacity(Some(256));
        let w = self.waker.clone();
        let chunk = vec![0xABu8; 8 * 1024];
        let mut accepted = 0usize;
        for _ in 0..64 {
            let Some(sub) = self.handles[h].sub.as_mut() else { break };
            match Pin::new(&mut *sub).poll_write(&mut Context::from_waker(&w), &chunk) {
                Poll::Ready(Ok(n)) => accepted += n,
                Poll::Ready(Err(_)) => break, // write half closed / reset: nothing to congest with
                Poll::Pending => break,
            }
        }
        self.log.push(format!("congest: {accepted} bytes accepted by the muxer before it pushed back"));
        self.congestions += 1;
        self.after_poll(None, None);
    }
    fn uncongest(&mut self) {
        if !self.congested {
            return;
        }
        self.congested = false;
        self.m2h.set_capacity(None);
        self.after_poll(None, None);
        let live: Vec<usize> = (0..self.handles.len()).filter(|h| self.handles[*h].sub.is_some()).collect();
        for _ in 0..40 {
            // the bulk data leaves in pipe-sized pieces: keep flushing and reading until nothing moves
            let before = self.m2h.written();
            if let Some(h) = live.first() {
                self.flush(*h);
            } else {
                self.pump_inbound();
            }
            if self.m2h.written() == before {
                break;
            }
        }
    }
    fn queue_data(&mut self, key: Key, n: usize) {
        for _ in 0..n {
            let s = self.streams.entry(key).or_default();
            let seq = s.next_seq;
            s.next_seq += 1;
            self.queue.push_back(RefFrame { flag: Self::remote_flag(key, 0), id: key.id, data: payload(key.id, seq) });
        }
    }

    /// end of history: every reader drains, everything queued gets offered
    fn finish(&mut self) {
        self.uncongest();
        for _round in 0..10_000 {
            let before = (self.frames_pulled, self.frames_delivered, self.handles.len(), self.queue.len());
            self.pump_inbound();
            for h in 0..self.handles.len() {
                for _ in 0..(self.b + 3) {
                    if !self.read(h) || self.handles[h].key.and_then(|k| self.streams.get(&k)).map(|s| s.eof_seen).unwrap_or(false) {
                        break;
                    }
                }
            }
            if self.conn_err.is_some() {
                break;
            }
            let after = (self.frames_pulled, self.frames_delivered, self.handles.len(), self.queue.len());
            if before == after {
                break;
            }
        }
        // push pending frames out
        let live: Vec<usize> = (0..self.handles.len()).filter(|h| self.handles[*h].sub.is_some()).collect();
        if let Some(h) = live.first() {
            self.flush(*h);
        } else {
            let w = self.waker.clone();
            for _ in 0..4 {
                if Pin::new(&mut self.mux).poll_close(&mut Context::from_waker(&w)).is_ready() {
                    break;
                }
            }
            self.after_poll(None, None);
        }
        if let Some(e) = self.conn_err.clone() {
            self.viol("connection-error-with-wellbehaved-remote", e);
            return;
        }
        if self.outstanding.is_some() || !self.queue.is_empty() {
            let (q, blk) = (self.queue.len() + 1, self.block);
            let what = format!("{q} frame(s) never pulled although every live substream was read until Pending ({} mode); log tail: {:?}", if blk { "Block" } else { "ResetStream" }, self.log.iter().rev().take(4).collect::<Vec<_>>());
            self.viol("connection-stalled-frames-never-pulled", what);
            return;
        }
        let keys = self.known_keys();
        for k in keys {
            let s = self.streams[&k].clone();
            if s.excess {
                let n = self.out_frames.iter().filter(|f| f.id == k.id && f.flag == 5).count();
                if n != 1 {
                    self.viol("excess-open-not-answered-by-reset", format!("Open({}) arrived while max_substreams were in use; {n} Reset frames for it on the wire", k.id));
                } else {
                    self.resets_for_excess += 1;
                }
                if s.handed_out {
                    self.viol("refused-substream-handed-out", format!("{k:?}"));
                }
                continue;
            }
            if !s.admitted || s.dropped {
                continue;
            }
            let live = self.handles.iter().any(|h| h.key == Some(k) && h.sub.is_some());
            if !live {
                // admitted but never handed out (or never identified): it must still be obtainable
                if !s.pulled.is_empty() && !s.handed_out && !s.remote_reset {
                    self.viol("admitted-substream-never-handed-out", format!("{k:?} has {} frames but poll_inbound never returned it", s.pulled.len()));
                }
                continue;
            }
            if let Some(cap) = s.overflow_cap {
                let wire_reset = self.out_frames.iter().any(|f| f.id == k.id && f.flag == if k.outbound { 6 } else { 5 });
                if !wire_reset {
                    self.viol("overflowing-substream-not-reset", format!("{k:?}: backlog reached max_buffer_len + 1, no Reset on the wire"));
                }
                if s.delivered.len() > cap {
                    self.viol("frames-readable-after-overflow-reset", format!("{k:?}: {} frames delivered, at most {cap}", s.delivered.len()));
                }
                if !s.eof_seen {
                    self.viol("reads-do-not-end-after-overflow-reset", format!("{k:?}: no EOF after the substream was reset for overflow"));
                }
                continue;
            }
            if s.remote_reset {
                continue;
            }
            if s.delivered != s.pulled {
                let sig = if self.block { "block-data-frame-dropped" } else { "data-frame-dropped-without-overflow" };
                self.viol(sig, format!("{k:?}: pulled {} frames, delivered {} (first difference at #{})", s.pulled.len(), s.delivered.len(), s.delivered.iter().zip(&s.pulled).take_while(|(a, b)| a == b).count()));
            }
            if s.remote_closed && !s.eof_seen {
                self.viol("eof-not-delivered-after-remote-close", format!("{k:?}"));
            }
        }
        // resets for ids never refused and never dropped/overflowed
        let spurious: Vec<u64> = self
            .out_frames
            .iter()
            .filter(|f| f.flag == 5)
            .filter(|f| self.streams.get(&Key { outbound: false, id: f.id }).map(|s| s.admitted && !s.dropped && s.overflow_cap.is_none()).unwrap_or(false))
            .map(|f| f.id)
            .collect();
        if !spurious.is_empty() {
            self.viol("healthy-substream-reset", format!("Reset written for admitted, undropped, non-overflowing inbound substreams {spurious:?}"));
        }
    }
}

fn gen_ops(rng: &mut Rng, m: usize, b: usize) -> Vec<Op> {
    let mut ops = vec![];
    let n = 20 + rng.usize(100);
    let style = rng.usize(4);
    for _ in 0..n {
        let r = rng.usize(100);
        let op = match style {
            // open flood
            0 => match r {
                0..=34 => Op::ROpen,
                35..=49 => Op::PumpInbound,
                50..=59 => Op::RData(rng.usize(64), 1 + rng.usize(3)),
                60..=69 => Op::Drop(rng.usize(64)),
                70..=79 => Op::Read(rng.usize(64)),
                80..=84 => Op::OpenOutbound,
                85..=89 => Op::Flush(rng.usize(64)),
                90..=94 => Op::RClose(rng.usize(64)),
                _ => Op::ReadMany(rng.usize(64), 1 + rng.usize(b + 3)),
            },
            // data flood on few streams, slow readers
            1 => match r {
                0..=7 => Op::ROpen,
                8..=54 => Op::RData(rng.usize(3), 1 + rng.usize(b + 3)),
                55..=69 => Op::PumpInbound,
                70..=79 => Op::Read(rng.usize(64)),
                80..=86 => Op::ReadMany(rng.usize(64), 1 + rng.usize(2 * b + 3)),
                87..=89 => Op::Drop(rng.usize(64)),
                90..=93 => Op::RClose(rng.usize(64)),
                94..=95 => Op::RReset(rng.usize(64)),
                96..=97 => Op::OpenOutbound,
                _ => Op::Flush(rng.usize(64)),
            },
            // pump through reads (frames for other streams are buffered in the context of a read)
            2 => match r {
                0..=9 => Op::ROpen,
                10..=44 => Op::RData(rng.usize(64), 1 + rng.usize(b + 2)),
                45..=49 => Op::PumpInbound,
                50..=79 => Op::Read(rng.usize(4)),
                80..=87 => Op::ReadMany(rng.usize(64), 1 + rng.usize(b + 3)),
                88..=91 => Op::Drop(rng.usize(64)),
                92..=95 => Op::RClose(rng.usize(64)),
                96..=97 => Op::OpenOutbound,
                _ => Op::RReset(rng.usize(64)),
            },
            _ => match r {
                0..=14 => Op::ROpen,
                15..=39 => Op::RData(rng.usize(64), 1 + rng.usize(2 * b + 2)),
                40..=54 => Op::PumpInbound,
                55..=69 => Op::Read(rng.usize(64)),
                70..=77 => Op::ReadMany(rng.usize(64), 1 + rng.usize(b + 3)),
                78..=84 => Op::Drop(rng.usize(64)),
                85..=89 => Op::RClose(rng.usize(64)),
                90..=92 => Op::RReset(rng.usize(64)),
                93..=96 => Op::OpenOutbound,
                _ => Op::Flush(rng.usize(64)),
            },
        };
        ops.push(op);
    }
    let _ = m;
    // a third of the histories have one congestion episode somewhere
    if rng.chance(1, 3) && ops.len() > 4 {
        let i = rng.usize(ops.len() - 1);
        ops.insert(i, Op::Congest(rng.usize(64)));
        let j = i + 1 + rng.usize(ops.len() - i);
        ops.insert(j.min(ops.len()), Op::Uncongest);
    }
    ops
}

struct CaseOut {
    violations: Vec<(String, String)>,
    pulled: u64,
    delivered: u64,
    max_backlog: usize,
    resets_for_excess: u64,
    overflows: usize,
    handles: usize,
    congestions: u64,
    log: Vec<String>,
}

fn run_case(m: usize, b: usize, block: bool, hostile_resets: bool, ops: &[Op], chunk_seed: Option<u64>, prefix: usize) -> CaseOut {
    let sched = match chunk_seed {
        None => pipe::Sched::smooth(),
        Some(s) => {
            let mut r = Rng::new(s);
            let mut sc = pipe::Sched::random(&mut r);
            // spurious Pending on the muxer's socket is fine, but the harness polls a bounded number of times
            sc.pend_read = sc.pend_read.min(60);
            sc.pend_write = 0;
            sc.pend_flush = 0;
            sc
        }
    };
    let mut rig = Rig::new(m, b, block, sched);
    rig.hostile_resets = hostile_resets;
    let dbg = std::env::var("VC_DEBUG").is_ok();
    let prefix = std::env::var("VC_PREFIX").ok().and_then(|s| s.parse().ok()).unwrap_or(prefix);
    for op in ops.iter().take(prefix) {
        if rig.conn_err.is_some() {
            break;
        }
        let seen = rig.out_frames.len();
        rig.apply(op);
        if dbg {
            eprintln!(
                "{op:?}: in_use {} live {} queue {} outstanding {:?} pulled {} delivered {} wire+{:?} log {:?}",
                rig.in_use(),
                rig.live_handles(),
                rig.queue.len(),
                rig.outstanding.as_ref().map(|f| (f.flag, f.id)),
                rig.frames_pulled,
                rig.frames_delivered,
                rig.out_frames[seen..].iter().map(|f| (f.flag, f.id)).collect::<Vec<_>>(),
                rig.log.last()
            );
        }
    }
    rig.finish();
    if dbg {
        eprintln!("after finish: in_use {} live {} pulled {} delivered {} wire {:?}\nlog {:?}\nviolations {:?}", rig.in_use(), rig.live_handles(), rig.frames_pulled, rig.frames_delivered, rig.out_frames.iter().map(|f| (f.flag, f.id)).collect::<Vec<_>>(), rig.log, rig.violations);
        for (i, h) in rig.handles.iter().enumerate() {
            eprintln!("handle {i}: live {} key {:?} outbound {}", h.sub.is_some(), h.key, h.outbound);
        }
    }
    CaseOut {
        violations: rig.violations.clone(),
        pulled: rig.frames_pulled,
        delivered: rig.frames_delivered,
        max_backlog: rig.max_backlog,
        resets_for_excess: rig.resets_for_excess,
        overflows: rig.streams.values().filter(|s| s.overflow_cap.is_some()).count(),
        handles: rig.handles.len(),
        congestions: rig.congestions,
        log: rig.log.clone(),
    }
}

pub fn run(args: &Args) -> i32 {
    let check = Check::new(
        args,
        "exploration",
        "PRNG histories (20-120 ops: remote Open/Data bursts/Close/Reset, local poll_inbound/read/drop/flush/poll_outbound) x max_substreams {1,2,3,5,8} x max_buffer_len {1,2,4,8} x {Block, ResetStream}; \
         frames offered one at a time; distinct = (config, op list); non-trivial = at least one frame pulled; violating histories are shrunk to the shortest violating prefix",
    );
    let n = util::budget(args, 6_000, 300_000, 6);
    // directed histories (deterministic, judged like the generated ones)
    let directed: Vec<(&str, usize, usize, bool, bool, Vec<Op>)> = vec![
        ("drop-of-the-blocking-substream", 2, 1, true, false, vec![Op::ROpen, Op::PumpInbound, Op::Read(0), Op::RData(0, 3), Op::PumpInbound, Op::Drop(0), Op::ROpen, Op::PumpInbound]),
        ("open-flood", 2, 4, true, false, vec![Op::ROpen, Op::ROpen, Op::ROpen, Op::ROpen, Op::PumpInbound, Op::Read(0), Op::Read(1), Op::Drop(0), Op::ROpen, Op::ROpen, Op::PumpInbound]),
        ("flood-one-substream-block", 3, 2, true, false, vec![Op::ROpen, Op::ROpen, Op::PumpInbound, Op::RData(0, 9), Op::RData(1, 2), Op::PumpInbound, Op::Read(1), Op::ReadMany(0, 4), Op::PumpInbound]),
        ("flood-one-substream-resetstream", 3, 2, false, false, vec![Op::ROpen, Op::ROpen, Op::PumpInbound, Op::RData(0, 9), Op::RData(1, 2), Op::PumpInbound, Op::Read(1), Op::ReadMany(0, 4), Op::PumpInbound]),
        ("second-reset-of-a-substream", 1, 4, true, true, vec![Op::ROpen, Op::PumpInbound, Op::Read(0), Op::RReset(0), Op::RReset(0), Op::ROpen, Op::PumpInbound]),
    ];
    for (name, m, b, block, hostile, ops) in &directed {
        let cfg = json!({"directed": name, "max_substreams": m, "max_buffer_len": b, "behaviour": if *block { "Block" } else { "ResetStream" }, "remote_may_reset_twice": hostile});
        match catch(|| run_case(*m, *b, *block, *hostile, ops, None, ops.len())) {
            Err(p) => check.violation(format!("panic@{}", p.site()), format!("panic: {}", p.msg), json!({"config": cfg, "ops": format!("{ops:?}")})),
            Ok(out) => {
                for (s, what) in &out.violations {
                    let mode = if *block { "block" } else { "resetstream" };
                    check.violation(format!("{s}-{mode}"), what.clone(), json!({"config": cfg, "ops": ops.iter().map(|o| format!("{o:?}")).collect::<Vec<_>>(), "model_log": out.log}));
                }
                check.case(Sig::new().str(name).0, out.pulled > 0);
                check.count("directed_histories", 1);
            }
        }
    }
    let only_case: Option<u64> = args.extra.get("case").and_then(|s| s.parse().ok());
    vmon::par_cases(&check, n, args.threads, |i, rng| {
        if only_case.map(|c| c != i).unwrap_or(false) {
            return;
        }
        let m = *rng.pick(&[1usize, 2, 3, 5, 8]);
        let b = *rng.pick(&[1usize, 2, 4, 8]);
        let block = i % 2 == 0;
        let hostile = i % 8 >= 6;
        let ops = gen_ops(rng, m, b);
        let chunk_seed = if rng.chance(1, 3) { Some(rng.next_u64()) } else { None };
        let cfg = json!({"max_substreams": m, "max_buffer_len": b, "behaviour": if block { "Block" } else { "ResetStream" }, "chunk_seed": chunk_seed, "case": i, "remote_may_reset_twice": hostile});
        let r = catch(|| run_case(m, b, block, hostile, &ops, chunk_seed, ops.len()));
        match r {
            Err(p) => check.violation(format!("panic@{}", p.site()), format!("panic: {}", p.msg), json!({"config": cfg, "ops": format!("{ops:?}")})),
            Ok(out) => {
                if !out.violations.is_empty() {
                    // shrink: shortest prefix that still shows the first violation's signature
                    let sig = out.violations[0].0.clone();
                    let mut best = ops.len();
                    let mut best_out = out;
                    let mut lo = 1;
                    while lo < best {
                        let mid = (lo + best) / 2;
                        match catch(|| run_case(m, b, block, hostile, &ops, chunk_seed, mid)) {
                            Ok(o) if o.violations.iter().any(|v| v.0 == sig) => {
                                best = mid;
                                best_out = o;
                            }
                            _ => lo = mid + 1,
                        }
                    }
                    for (s, what) in &best_out.violations {
                        let mode = if block { "block" } else { "resetstream" };
                        check.violation(format!("{s}-{mode}"), what.clone(), json!({"config": cfg, "ops": ops[..best].iter().map(|o| format!("{o:?}")).collect::<Vec<_>>(), "model_log": best_out.log}));
                    }
                    check.case(0, false);
                    return;
                }
                check.count("frames_pulled", out.pulled);
                check.count("frames_delivered", out.delivered);
                check.count("excess_opens_reset", out.resets_for_excess);
                check.count("overflow_resets", out.overflows as u64);
                check.count("congestion_episodes_with_muxer_pushback", out.congestions);
                check.count("substreams_handed_out", out.handles as u64);
                check.count(if block { "histories_block" } else { "histories_resetstream" }, 1);
                check.distinct("max_backlog_values_seen", out.max_backlog as u64);
                if out.max_backlog == b + 1 {
                    check.count("histories_reaching_full_buffer", 1);
                }
                let mut s = Sig::new().u64(m as u64).u64(b as u64).u64(block as u64);
                s.push_str(&format!("{ops:?}"));
                check.case(s.0, out.pulled > 0);
                if check.want_sample() && out.resets_for_excess > 0 && out.max_backlog > b {
                    check.sample(json!({"config": cfg, "ops": ops.len(), "frames_pulled": out.pulled, "frames_delivered": out.delivered, "excess_opens_reset": out.resets_for_excess, "overflow_resets": out.overflows, "max_backlog": out.max_backlog, "first_ops": ops.iter().take(12).map(|o| format!("{o:?}")).collect::<Vec<_>>()}));
                }
            }
        }
    });
    check.note("exhaustive", json!(false));
    check.finish()
}
