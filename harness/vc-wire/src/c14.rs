//! C14 — multistream-select: both sides agree on the first dialer protocol the listener supports
//! (or both fail with `NegotiationError::Failed`), V1Lazy failure is reported by the dialer's first
//! read at the latest, and application bytes written right after (or, lazily, before the end of) the
//! negotiation arrive complete and in order.
//!
//! Real code: `dialer_select_proto` / `listener_select_proto` / `Negotiated` on the two ends of a
//! `vmon::pipe`. Each side is an async task `negotiate → write payload → (flush|close) → read the
//! other side's payload → close → read to EOF`, polled by a PRNG scheduler (which task runs next, how
//! many bytes a read/write moves, spurious Pending). Independent oracle: `msref::expected_protocol`
//! (first dialer protocol contained in the listener's list) and byte equality of tagged payloads.
//!
//! Enumerated: all dialer lists × listener lists of length ≤ 3 (quick: ≤ 2, plus sampled length-3
//! lists) over {/a,/b,/c,/ab} incl. duplicates and the empty list, V1 and V1Lazy.
//! Schedules: (1) exhaustive single gate: for every offset s in 1..=48, the dialer→listener (resp.
//! listener→dialer) direction is held at s bytes until nothing can move, then released (covers every
//! split of the first three frames in each direction); (2) pairs of gates (sampled); (3) PRNG chunking
//! with 1-byte reads/writes and Pending storms; (4) smooth pipe (everything coalesced).
//!
//! Verdict rules
//!  * expected Some(p): dialer Ok(p), listener Ok(p); each side receives exactly the other's payload.
//!  * expected None, V1: dialer Err(Failed), listener Err(Failed).
//!  * expected None, V1Lazy: listener Err(Failed); dialer either Err(Failed) from the future or Ok(_)
//!    from the future followed by an error from its *first* read.
//!  * a run in which no task can move although every gate is open and a task is unfinished is a
//!    deadlock of the negotiation (decided on wake-ups, not on time).
//!
//! Not judged: flush-only discovery of a lazy failure (the dialer always reads here); in the failing
//! V1Lazy case the dialer's early payload is restricted to what a listener cannot mistake for a
//! negotiation message (empty, a single byte 1..=127, or one framed non-message) — the documented
//! V1Lazy pitfall is outside the statement.
use std::{
    future::Future,
    pin::Pin,
    task::{Context, Poll},
};

use futures::{AsyncReadExt, AsyncWriteExt};
use multistream_select::{Negotiated, NegotiationError, ProtocolError, Version, dialer_select_proto, listener_select_proto};
use vmon::{Args, Check, Rng, Sig, catch, exec::flag_waker, json, pipe};

use crate::{msref, util};

const ALPHABET: [&str; 4] = ["/a", "/b", "/c", "/ab"];

fn all_lists(max_len: usize) -> Vec<Vec<String>> {
    let mut out: Vec<Vec<String>> = vec![vec![]];
    let mut prev: Vec<Vec<String>> = vec![vec![]];
    for _ in 0..max_len {
        let mut next = vec![];
        for l in &prev {
            for a in ALPHABET {
                let mut n = l.clone();
                n.push(a.to_string());
                next.push(n);
            }
        }
        out.extend(next.iter().cloned());
        prev = next;
    }
    out
}

#[derive(Debug, Clone, PartialEq, Eq)]
enum Neg {
    Ok(String),
    Failed,
    Other(String),
}
fn neg_err(e: &NegotiationError) -> Neg {
    match e {
        NegotiationError::Failed => Neg::Failed,
        NegotiationError::ProtocolError(ProtocolError::IoError(e)) => Neg::Other(format!("io:{:?}", e.kind())),
        NegotiationError::ProtocolError(p) => Neg::Other(format!("{p:?}")),
    }
}

#[derive(Clone, Copy, Debug, PartialEq, Eq)]
enum Style {
    /// write, flush, read_exact(n), close, read_to_end
    FlushReadClose,
    /// write, close, read_to_end
    CloseThenRead,
    /// read_exact(n) first (no explicit flush: reading must push pending negotiation data), then write, close, read_to_end
    ReadFirst,
}

struct SideOut {
    neg: Option<Neg>,
    /// result of the first read call after negotiation: Ok(n) / Err(kind)
    first_read: Option<Result<usize, String>>,
    received: Vec<u8>,
    io_err: Option<String>,
    finished_app: bool,
    _io: Option<Negotiated<pipe::End>>,
}

/// `write_all`, or (for a third of the payload lengths) the same bytes through `write_vectored` with two slices:
/// `Negotiated` has a separate vectored write path that must push pending negotiation data just the same
async fn write_payload(io: &mut Negotiated<pipe::End>, payload: &[u8]) -> std::io::Result<()> {
    if payload.len() % 3 != 1 {
        return io.write_all(payload).await;
    }
    let mut off = 0;
    while off < payload.len() {
        let rest = &payload[off..];
        let cut = (rest.len() / 2).max(1).min(rest.len());
        let bufs = [std::io::IoSlice::new(&rest[..cut]), std::io::IoSlice::new(&rest[cut..])];
        let n = io.write_vectored(&bufs).await?;
        if n == 0 {
            return Err(std::io::ErrorKind::WriteZero.into());
        }
        off += n;
    }
    Ok(())
}

async fn app_phase(mut io: Negotiated<pipe::End>, payload: Vec<u8>, expect: usize, style: Style, out: &mut SideOut) {
    macro_rules! tri {
        ($what:expr, $e:expr) => {
            match $e {
                Ok(v) => v,
                Err(e) => {
                    out.io_err = Some(format!("{}: {:?}", $what, e.kind()));
                    return; // io dropped here
                }
            }
        };
    }
    // first read is observed separately
    async fn read_some(io: &mut Negotiated<pipe::End>, want: usize, out: &mut SideOut) -> Result<(), std::io::Error> {
        // reads until `want` bytes (want = usize::MAX: until EOF)
        let mut buf = [0u8; 97];
        let mut got = 0usize;
        while got < want {
            let cap = buf.len().min(want - got);
            let r = io.read(&mut buf[..cap]).await;
            if out.first_read.is_none() {
                out.first_read = Some(r.as_ref().map(|n| *n).map_err(|e| format!("{:?}", e.kind())));
            }
            let n = r?;
            if n == 0 {
                if want == usize::MAX {
                    return Ok(());
                }
                return Err(std::io::ErrorKind::UnexpectedEof.into());
            }
            out.received.extend_from_slice(&buf[..n]);
            got += n;
        }
        Ok(())
    }
    match style {
        Style::FlushReadClose => {
            tri!("write", write_payload(&mut io, &payload).await);
            tri!("flush", io.flush().await);
            tri!("read", read_some(&mut io, expect, out).await);
            tri!("close", io.close().await);
            tri!("read-to-end", read_some(&mut io, usize::MAX, out).await);
        }
        Style::CloseThenRead => {
            tri!("write", write_payload(&mut io, &payload).await);
            tri!("close", io.close().await);
            tri!("read-to-end", read_some(&mut io, usize::MAX, out).await);
        }
        Style::ReadFirst => {
            tri!("read", read_some(&mut io, expect, out).await);
            tri!("write", write_payload(&mut io, &payload).await);
            tri!("close", io.close().await);
            tri!("read-to-end", read_some(&mut io, usize::MAX, out).await);
        }
    }
    out.finished_app = true;
    out._io = Some(io);
}

async fn dialer_side(io: pipe::End, protos: Vec<String>, ver: Version, payload: Vec<u8>, expect: usize, style: Style) -> SideOut {
    let mut out = SideOut { neg: None, first_read: None, received: vec![], io_err: None, finished_app: false, _io: None };
    match dialer_select_proto(io, protos, ver).await {
        Err(e) => out.neg = Some(neg_err(&e)),
        Ok((p, io)) => {
            out.neg = Some(Neg::Ok(p));
            app_phase(io, payload, expect, style, &mut out).await;
        }
    }
    out
}

async fn listener_side(io: pipe::End, protos: Vec<String>, payload: Vec<u8>, expect: usize, style: Style) -> SideOut {
    let mut out = SideOut { neg: None, first_read: None, received: vec![], io_err: None, finished_app: false, _io: None };
    match listener_select_proto(io, protos).await {
        Err(e) => out.neg = Some(neg_err(&e)),
        Ok((p, io)) => {
            out.neg = Some(Neg::Ok(p));
            app_phase(io, payload, expect, style, &mut out).await;
        }
    }
    out
}

#[derive(Clone, Debug)]
struct Scenario {
    d: Vec<String>,
    l: Vec<String>,
    lazy: bool,
    dpay: Vec<u8>,
    lpay: Vec<u8>,
    dstyle: Style,
    lstyle: Style,
    /// successive (dialer→listener limit, listener→dialer limit) stages; after the last one all open
    gates: Vec<(Option<u64>, Option<u64>)>,
    /// None = smooth pipe; Some(seed) = PRNG chunking for both ends
    chunk_seed: Option<u64>,
    /// scheduler seed (which runnable task is polled next)
    sched_seed: u64,
}

struct RunOut {
    d: Option<SideOut>,
    l: Option<SideOut>,
    deadlock: bool,
    budget: bool,
    decisions: u64,
    d2l: Vec<u8>,
    l2d: Vec<u8>,
}

fn run_scenario(sc: &Scenario) -> RunOut {
    let (sa, sb) = match sc.chunk_seed {
        None => (pipe::Sched::smooth(), pipe::Sched::smooth()),
        Some(s) => {
            let mut r = Rng::new(s);
            (pipe::Sched::random(&mut r), pipe::Sched::random(&mut r))
        }
    };
    let (a, b, d2l, l2d) = pipe::pipe(sa, sb);
    let ver = if sc.lazy { Version::V1Lazy } else { Version::V1 };
    let mut dt: Pin<Box<dyn Future<Output = SideOut>>> = Box::pin(dialer_side(a, sc.d.clone(), ver, sc.dpay.clone(), sc.lpay.len(), sc.dstyle));
    let mut lt: Pin<Box<dyn Future<Output = SideOut>>> = Box::pin(listener_side(b, sc.l.clone(), sc.lpay.clone(), sc.dpay.len(), sc.lstyle));
    let (df, dw) = flag_waker();
    let (lf, lw) = flag_waker();
    let mut rng = Rng::new(sc.sched_seed);
    let mut out = RunOut { d: None, l: None, deadlock: false, budget: false, decisions: 0xcbf29ce484222325, d2l: vec![], l2d: vec![] };
    let mut stage = 0usize;
    let apply = |stage: usize| {
        let (x, y) = sc.gates.get(stage).copied().unwrap_or((None, None));
        d2l.set_limit(x);
        l2d.set_limit(y);
    };
    apply(0);
    let mut polls = 0u64;
    loop {
        if out.d.is_some() && out.l.is_some() {
            break;
        }
        let d_run = out.d.is_none() && df.is_set();
        let l_run = out.l.is_none() && lf.is_set();
        if !d_run && !l_run {
            if stage < sc.gates.len() {
                stage += 1;
                apply(stage);
                continue;
            }
            out.deadlock = true;
            break;
        }
        polls += 1;
        if polls > 3_000_000 {
            out.budget = true;
            break;
        }
        let pick_d = if d_run && l_run { rng.bool() } else { d_run };
        out.decisions = (out.decisions ^ pick_d as u64).wrapping_mul(0x100000001b3);
        if pick_d {
            df.take();
            if let Poll::Ready(v) = dt.as_mut().poll(&mut Context::from_waker(&dw)) {
                out.d = Some(v);
                // a finished task no longer holds its end unless it succeeded (SideOut keeps io then)
                dt = Box::pin(std::future::pending());
            }
        } else {
            lf.take();
            if let Poll::Ready(v) = lt.as_mut().poll(&mut Context::from_waker(&lw)) {
                out.l = Some(v);
                lt = Box::pin(std::future::pending());
            }
        }
    }
    out.d2l = d2l.log();
    out.l2d = l2d.log();
    out
}

fn sc_json(sc: &Scenario) -> vmon::Value {
    json!({
        "dialer": sc.d, "listener": sc.l, "version": if sc.lazy { "V1Lazy" } else { "V1" },
        "dialer_payload": util::short_hex(&sc.dpay), "listener_payload": util::short_hex(&sc.lpay),
        "dialer_style": format!("{:?}", sc.dstyle), "listener_style": format!("{:?}", sc.lstyle),
        "gates_d2l_l2d": sc.gates, "chunk_seed": sc.chunk_seed, "sched_seed": sc.sched_seed,
    })
}

fn judge(check: &Check, sc: &Scenario, r: &RunOut) {
    let want = msref::expected_protocol(&sc.d, &sc.l).cloned();
    let ver = if sc.lazy { "lazy" } else { "v1" };
    let mut w = sc_json(sc);
    w["wire_d2l"] = json!(util::short_hex(&r.d2l));
    w["wire_l2d"] = json!(util::short_hex(&r.l2d));
    w["expected"] = json!(want);
    if r.budget {
        check.inconclusive("poll budget");
        return;
    }
    let (Some(d), Some(l)) = (&r.d, &r.l) else {
        check.violation(
            format!("negotiation-deadlock-{ver}"),
            format!("no task can move, all gates open; dialer done: {}, listener done: {}", r.d.is_some(), r.l.is_some()),
            w,
        );
        return;
    };
    let dn = d.neg.clone().unwrap();
    let ln = l.neg.clone().unwrap();
    w["dialer_result"] = json!(format!("{dn:?} first_read={:?} io_err={:?}", d.first_read, d.io_err));
    w["listener_result"] = json!(format!("{ln:?} first_read={:?} io_err={:?}", l.first_read, l.io_err));
    match &want {
        Some(p) => {
            if ln != Neg::Ok(p.clone()) {
                let k = if matches!(ln, Neg::Ok(_)) { "listener-selected-wrong-protocol" } else { "listener-failed-despite-common-protocol" };
                check.violation(format!("{k}-{ver}"), format!("listener {ln:?}, expected Ok({p})"), w.clone());
                return;
            }
            if dn != Neg::Ok(p.clone()) {
                let k = if matches!(dn, Neg::Ok(_)) { "dialer-selected-wrong-protocol" } else { "dialer-failed-despite-common-protocol" };
                check.violation(format!("{k}-{ver}"), format!("dialer {dn:?}, expected Ok({p})"), w.clone());
                return;
            }
            // transparency
            for (who, side, sent_by_other) in [("dialer", d, &sc.lpay), ("listener", l, &sc.dpay)] {
                if side.received != *sent_by_other || !side.finished_app {
                    let k = if side.io_err.is_some() {
                        "app-io-error-after-agreement"
                    } else if side.received.len() < sent_by_other.len() {
                        "app-bytes-missing"
                    } else if side.received.len() > sent_by_other.len() {
                        "app-bytes-extra"
                    } else {
                        "app-bytes-altered"
                    };
                    check.violation(
                        format!("{k}-{who}-{ver}"),
                        format!("{who} received {} bytes ({}), other side wrote {} ({}); io_err {:?}", side.received.len(), util::short_hex(&side.received), sent_by_other.len(), util::short_hex(sent_by_other), side.io_err),
                        w.clone(),
                    );
                    return;
                }
            }
            check.count("agreements", 1);
            check.count("app_bytes_delivered", (sc.dpay.len() + sc.lpay.len()) as u64);
        }
        None => {
            if ln != Neg::Failed {
                let k = if matches!(ln, Neg::Ok(_)) { "listener-agreed-without-common-protocol" } else { "listener-error-not-failed" };
                check.violation(format!("{k}-{ver}"), format!("listener {ln:?}, expected Err(Failed)"), w.clone());
                return;
            }
            match (&dn, sc.lazy) {
                (Neg::Failed, _) => {}
                (Neg::Ok(_), true) => match &d.first_read {
                    Some(Err(_)) => check.count("lazy_failures_reported_by_first_read", 1),
                    other => {
                        check.violation(
                            "lazy-dialer-first-read-did-not-fail",
                            format!("no common protocol; dialer future Ok, first read {other:?} (io_err {:?}, received {} bytes)", d.io_err, d.received.len()),
                            w.clone(),
                        );
                        return;
                    }
                },
                (Neg::Ok(_), false) => {
                    check.violation("dialer-agreed-without-common-protocol-v1", format!("dialer {dn:?}"), w.clone());
                    return;
                }
                (Neg::Other(_), _) => {
                    check.violation(format!("dialer-error-not-failed-{ver}"), format!("dialer {dn:?}, expected Err(Failed)"), w.clone());
                    return;
                }
            }
            check.count("failures_agreed", 1);
        }
    }
}

fn payload(tag: u8, n: usize, salt: u64) -> Vec<u8> {
    (0..n).map(|i| if i == 0 { tag } else { (i as u64).wrapping_mul(7).wrapping_add(salt) as u8 }).collect()
}

fn gen_payloads(rng: &mut Rng, failing_lazy: bool) -> (Vec<u8>, Vec<u8>) {
    let (dp, lp) = gen_payloads_full(rng, failing_lazy);
    if SMALL_PAYLOADS.load(std::sync::atomic::Ordering::Relaxed) {
        return (dp.into_iter().take(40).collect(), lp.into_iter().take(40).collect());
    }
    (dp, lp)
}

/// set for `--budget tiny` (Miri)
static SMALL_PAYLOADS: std::sync::atomic::AtomicBool = std::sync::atomic::AtomicBool::new(false);

fn gen_payloads_full(rng: &mut Rng, failing_lazy: bool) -> (Vec<u8>, Vec<u8>) {
    let lp = match rng.usize(5) {
        0 => vec![],
        1 => payload(b'L', 1, 0),
        2 => payload(b'L', 5000 + rng.usize(4000), rng.next_u64()),
        _ => payload(b'L', 1 + rng.usize(60), rng.next_u64()),
    };
    let dp = if failing_lazy {
        match rng.usize(3) {
            0 => vec![],
            1 => vec![1 + rng.usize(127) as u8],
            _ => msref::frame(b"hello, not a multistream message"),
        }
    } else {
        match rng.usize(7) {
            0 => vec![],
            1 => payload(b'D', 1, 0),
            2 => payload(b'D', 5000 + rng.usize(4000), rng.next_u64()),
            // payloads that look like negotiation messages must pass through untouched once agreed
            3 => msref::enc_proto(b"/b"),
            4 => {
                let mut v = msref::enc_header();
                v.extend(msref::enc_na());
                v
            }
            _ => payload(b'D', 1 + rng.usize(60), rng.next_u64()),
        }
    };
    (dp, lp)
}

fn pick_style(rng: &mut Rng) -> Style {
    *rng.pick(&[Style::FlushReadClose, Style::FlushReadClose, Style::CloseThenRead, Style::ReadFirst])
}

fn make(rng: &mut Rng, d: &[String], l: &[String], lazy: bool) -> Scenario {
    let want = msref::expected_protocol(d, l);
    let (dpay, lpay) = gen_payloads(rng, lazy && want.is_none());
    let mut dstyle = pick_style(rng);
    let mut lstyle = pick_style(rng);
    // both sides waiting for the other's bytes before writing would be a harness-made deadlock
    if dstyle == Style::ReadFirst && lstyle == Style::ReadFirst {
        lstyle = Style::FlushReadClose;
    }
    if dstyle == Style::ReadFirst && lpay.is_empty() && lstyle != Style::CloseThenRead {
        // reading 0 bytes does not read at all; keep the style meaningful
        dstyle = Style::FlushReadClose;
    }
    Scenario { d: d.to_vec(), l: l.to_vec(), lazy, dpay, lpay, dstyle, lstyle, gates: vec![], chunk_seed: None, sched_seed: rng.next_u64() }
}

fn run_one(check: &Check, sc: &Scenario) {
    match catch(|| run_scenario(sc)) {
        Err(p) => check.violation(format!("panic@{}", p.site()), format!("panic during negotiation: {}", p.msg), sc_json(sc)),
        Ok(r) => {
            judge(check, sc, &r);
            check.distinct("distinct_interleavings", r.decisions ^ Sig::new().u64(sc.chunk_seed.unwrap_or(0)).0);
            let mut s = Sig::new().u64(sc.lazy as u64).u64(sc.dpay.len() as u64).u64(sc.lpay.len() as u64).u64(sc.dstyle as u64).u64(sc.lstyle as u64);
            for x in &sc.d {
                s.push_str(x);
            }
            s.push_str("|");
            for x in &sc.l {
                s.push_str(x);
            }
            for g in &sc.gates {
                s.push_u64(g.0.unwrap_or(0));
                s.push_u64(g.1.unwrap_or(0));
            }
            s.push_u64(sc.chunk_seed.unwrap_or(0));
            check.case(s.0, true);
            check.count(if sc.lazy { "cases_v1lazy" } else { "cases_v1" }, 1);
            if check.want_sample() && !sc.gates.is_empty() && sc.d.len() >= 2 {
                check.sample(json!({"scenario": sc_json(sc), "dialer": r.d.as_ref().map(|d| format!("{:?}", d.neg)), "listener": r.l.as_ref().map(|d| format!("{:?}", d.neg)), "wire_d2l": util::short_hex(&r.d2l), "wire_l2d": util::short_hex(&r.l2d)}));
            }
        }
    }
}

pub fn run(args: &Args) -> i32 {
    let check = Check::new(
        args,
        "exploration",
        "all (dialer list, listener list, version) over {/a,/b,/c,/ab} up to the stated length x schedules (single gate at every offset 1..48 in each \
         direction, gate pairs, PRNG chunking, smooth); distinct = (lists, version, payload sizes, styles, gates, chunk seed); every case runs both real futures",
    );
    let tiny = util::tiny(args);
    SMALL_PAYLOADS.store(tiny, std::sync::atomic::Ordering::Relaxed);
    let thorough = args.tier == vmon::Tier::Thorough && !tiny;
    let lists3 = all_lists(3);
    let lists2 = all_lists(2);
    let lists1 = all_lists(1);

    // (a) every combination, one PRNG schedule + one smooth schedule each
    let combos_full: Vec<(usize, usize, bool)> = {
        let n = lists3.len();
        let mut v = vec![];
        for i in 0..n {
            for j in 0..n {
                for lazy in [false, true] {
                    v.push((i, j, lazy));
                }
            }
        }
        v
    };
    let n_a = if tiny { 8 } else { combos_full.len() as u64 };
    let reps = if thorough { 16 } else { 1 };
    vmon::par_cases(&check, n_a * reps, args.threads, |i, rng| {
        let (di, li, lazy) = combos_full[(i % combos_full.len() as u64) as usize];
        let mut sc = make(rng, &lists3[di], &lists3[li], lazy);
        if i % 3 != 0 || tiny {
            sc.chunk_seed = Some(rng.next_u64() | 1);
        }
        if rng.chance(1, 3) {
            let g1 = 1 + rng.below(60);
            let g2 = 1 + rng.below(60);
            sc.gates = vec![(Some(g1), None), (Some(g1 + g2), Some(g2))];
        }
        run_one(&check, &sc);
    });
    check.note("list_combinations", json!({"dialer_lists": lists3.len(), "listener_lists": lists3.len(), "versions": 2, "all_run": !tiny}));

    // (b) exhaustive single gates over the lists of length <= 2 (thorough: <= 3 for the dialer)
    if !tiny {
        let dl = if thorough { &lists3 } else { &lists2 };
        let ll = &lists2;
        let mut jobs: Vec<(usize, usize, bool)> = vec![];
        for i in 0..dl.len() {
            for j in 0..ll.len() {
                for lazy in [false, true] {
                    jobs.push((i, j, lazy));
                }
            }
        }
        vmon::par_cases(&check, jobs.len() as u64, args.threads, |k, rng| {
            let (i, j, lazy) = jobs[k as usize];
            let base = make(rng, &dl[i], &ll[j], lazy);
            // quick: every third offset per combination (rotating), all offsets over the lists of length <= 1
            let full = thorough || (dl[i].len() <= 1 && ll[j].len() <= 1);
            for s in 1..=48u64 {
                if !full && (s + k) % 3 != 0 {
                    continue;
                }
                for dir in 0..2 {
                    let mut sc = base.clone();
                    sc.gates = vec![if dir == 0 { (Some(s), None) } else { (None, Some(s)) }];
                    sc.sched_seed = base.sched_seed ^ s;
                    run_one(&check, &sc);
                    check.count("single_gate_schedules", 1);
                }
            }
        });
        check.note("exhaustive", json!({"single_gate_offsets": "1..=48 in both directions", "for_lists": if thorough { "dialer <= 3, listener <= 2 entries: all offsets" } else { "<= 1 entry: all offsets; <= 2 entries: every third offset" }, "overall": false}));
        let _ = &lists1;
    } else {
        // tiny (Miri): 2-protocol subset, a few gates
        let d = vec!["/a".to_string(), "/b".to_string()];
        for (l, lazy, s) in [(vec!["/b".to_string()], false, 3u64), (vec!["/b".to_string()], true, 21), (vec!["/c".to_string()], true, 22), (vec!["/c".to_string()], false, 25)] {
            let mut rng = Rng::new(s);
            let mut sc = make(&mut rng, &d, &l, lazy);
            sc.gates = vec![(Some(s), None), (None, Some(s))];
            run_one(&check, &sc);
            let mut sc = make(&mut rng, &d[..1], &l, lazy);
            sc.chunk_seed = Some(s);
            run_one(&check, &sc);
        }
        check.note("exhaustive", json!(false));
    }
    check.finish()
}
