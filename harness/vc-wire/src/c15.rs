//! C15 — multistream-select messages round-trip with a ≤ 2-byte length prefix; hostile input never
//! panics; oversize frames, > 1000 listed protocols and names without leading '/' are rejected.
//!
//! `Message` is crate-private, so everything is observed through the public futures
//! (`dialer_select_proto`, `listener_select_proto`, `Negotiated`) over an in-memory pipe whose far end
//! is the harness speaking raw bytes with the independent codec in `msref`.
//!
//!  A  round trip: generated names (punctuation, spaces, NUL, multi-byte UTF-8, lengths 1, 126–128,
//!     16382 = largest that fits, 16383+) —
//!       A1 real dialer → reference parser must read exactly [header, "/name\n"], each with a prefix
//!          of ≤ 2 bytes; reference reply (header, [na…], echo) → dialer returns that name;
//!       A2 reference dialer bytes → real listener returns that name; its output parses as
//!          [header, (na)*, echo];
//!       A3 `ls` to a real listener → reference parser reads the list == the listener's valid names;
//!       A4 real dialer ↔ real listener over a chunking pipe: both return the name.
//!     Every byte the real code writes, in every sub-workload, must parse with ≤ 2-byte prefixes.
//!  B  hostile bytes to listener, V1 dialer and V1Lazy dialer (first read / `complete()`), as the very
//!     first bytes and after a valid header: all strings of length 1–2 (thorough: 3) exhaustively,
//!     PRNG strings, mutated valid conversations; followed by EOF. Oracle: no panic, and the
//!     outcome equals the reference outcome (`msref::listener_outcome/dialer_outcome`): accepted
//!     only when the peer really sent the matching "/name\n" in sequence, `Err` otherwise.
//!     A prefix with two continuation bytes must be rejected with the connection held open
//!     (no third byte needed).
//!  C  ls-style lists with 999/1000/1001/1002/5000 entries: > 1000 ⇒ `Err`, and the error is
//!     `ProtocolError::TooManyProtocols` (the documented error for that class); lists and single
//!     messages whose name lacks '/' ⇒ `Err`; dialer API given a name without '/' ⇒ `Err`.
//!
//!  D  V1Lazy dialer whose first read failed because of what the peer sent (a plain "na", garbage,
//!     EOF): the follow-up calls an application makes on an errored stream (read again / write / flush /
//!     close) must not panic either ("arbitrary incoming bytes never cause a panic").
//!
//! Not judged: names containing '\n' or equal to the header line (not valid messages); which error
//! variant is returned (except TooManyProtocols); acceptance by the dialer when the peer's header is
//! missing/duplicated (statement is silent); *what* a `Negotiated` returns after it returned an error
//! (only that it does not panic).
use futures::{AsyncReadExt, AsyncWriteExt, FutureExt};
use multistream_select::{NegotiationError, ProtocolError, Version, dialer_select_proto, listener_select_proto};
use vmon::{Args, Check, Rng, Sig, catch, json, pipe};

use crate::util::{Step, drive};

use crate::{
    msref::{self, Outcome, RMsg},
    util,
};

#[derive(Debug, Clone, PartialEq, Eq)]
pub enum Real {
    Ok(String),
    Failed,
    Io,
    InvalidMessage,
    InvalidProtocol,
    TooManyProtocols,
    /// future is waiting for more input
    Stalled,
    /// poll budget exhausted (harness limit; never a verdict)
    Budget,
}
impl Real {
    fn is_err(&self) -> bool {
        !matches!(self, Real::Ok(_) | Real::Stalled | Real::Budget)
    }
}

fn classify_err(e: &NegotiationError) -> Real {
    match e {
        NegotiationError::Failed => Real::Failed,
        NegotiationError::ProtocolError(ProtocolError::IoError(_)) => Real::Io,
        NegotiationError::ProtocolError(ProtocolError::InvalidMessage) => Real::InvalidMessage,
        NegotiationError::ProtocolError(ProtocolError::InvalidProtocol) => Real::InvalidProtocol,
        NegotiationError::ProtocolError(ProtocolError::TooManyProtocols) => Real::TooManyProtocols,
    }
}

const POLLS: usize = 2_000_000;

/// real listener against raw `input` (then EOF unless `hold_open`); returns (outcome, bytes it wrote)
pub fn run_listener(protos: &[String], input: &[u8], sched: pipe::Sched, hold_open: bool) -> (Real, Vec<u8>) {
    let (a, b, a2b, b2a) = pipe::pipe(sched, pipe::Sched::smooth());
    b2a.inject(input);
    if !hold_open {
        b2a.close();
    }
    let mut fut = listener_select_proto(a, protos.to_vec());
    let r = match drive(&mut fut, POLLS) {
        Step::Stalled => Real::Stalled,
        Step::Budget => Real::Budget,
        Step::Done(Ok((name, _io))) => Real::Ok(name),
        Step::Done(Err(e)) => classify_err(&e),
    };
    drop(fut);
    let wire = a2b.log();
    drop(b);
    (r, wire)
}

#[derive(Clone, Copy, PartialEq, Eq, Debug)]
pub enum DialMode {
    V1,
    /// V1Lazy, then `Negotiated::complete()`
    LazyComplete,
    /// V1Lazy, then a 1-byte read
    LazyRead,
}

/// real dialer against raw `input`
pub fn run_dialer(protos: &[String], input: &[u8], sched: pipe::Sched, mode: DialMode, hold_open: bool) -> (Real, Vec<u8>) {
    let (a, b, a2b, b2a) = pipe::pipe(sched, pipe::Sched::smooth());
    b2a.inject(input);
    if !hold_open {
        b2a.close();
    }
    let version = if mode == DialMode::V1 { Version::V1 } else { Version::V1Lazy };
    let mut fut = dialer_select_proto(a, protos.to_vec(), version);
    let r = match drive(&mut fut, POLLS) {
        Step::Stalled => Real::Stalled,
        Step::Budget => Real::Budget,
        Step::Done(Err(e)) => classify_err(&e),
        Step::Done(Ok((name, mut io))) => match mode {
            DialMode::V1 => Real::Ok(name),
            DialMode::LazyComplete => {
                let mut c = io.complete();
                match drive(&mut c, POLLS) {
                    Step::Stalled => Real::Stalled,
                    Step::Budget => Real::Budget,
                    Step::Done(Ok(_)) => Real::Ok(name),
                    Step::Done(Err(e)) => classify_err(&e),
                }
            }
            DialMode::LazyRead => {
                let mut one = [0u8; 1];
                let mut rd = io.read(&mut one).boxed();
                match drive(&mut rd, POLLS) {
                    Step::Stalled => Real::Stalled,
                    Step::Budget => Real::Budget,
                    Step::Done(Ok(_)) => Real::Ok(name),
                    Step::Done(Err(e)) => {
                        if e.kind() == std::io::ErrorKind::InvalidData {
                            Real::InvalidMessage
                        } else {
                            Real::Failed
                        }
                    }
                }
            }
        },
    };
    let wire = a2b.log();
    drop(b);
    (r, wire)
}

/// every byte written by the real code must be well-framed (≤ 2-byte prefixes, complete frames)
fn check_written(check: &Check, who: &str, wire: &[u8], w: &vmon::Value) -> Option<Vec<RMsg>> {
    let (frames, err, tail) = msref::parse_frames(wire);
    if let Some(e) = err {
        check.violation(format!("written-frame-bad-prefix-{who}"), format!("{who} wrote a frame the reference parser rejects: {e:?}"), w.clone());
        return None;
    }
    if !tail.is_empty() {
        check.violation(format!("written-frame-truncated-{who}"), format!("{who} left {} bytes of an incomplete frame on the wire", tail.len()), w.clone());
        return None;
    }
    check.count("frames_written_by_real_code_parsed", frames.len() as u64);
    Some(frames.iter().map(|b| msref::classify(b)).collect())
}

fn gen_name(rng: &mut Rng) -> String {
    gen_name_max(rng, usize::MAX)
}

fn gen_name_max(rng: &mut Rng, max: usize) -> String {
    const ODD: [&str; 19] = [" ", "\0", "\t", "\r", "é", "ß", "中", "🦀", "\u{80}", "\u{7f}", "%", "\\", "\"", "/", "//", ".", "na", "ls", "\u{2028}"];
    let target = match rng.usize(14) {
        0 => 1,
        1 => 2,
        2 => 125,
        3 => 126,
        4 => 127,
        5 => 128,
        6 => 129,
        7 => 16381,
        8 | 9 => 16382,
        10 => 300 + rng.usize(3000),
        _ => 2 + rng.usize(40),
    }
    .min(max);
    let mut s = String::from("/");
    while s.len() < target {
        match rng.usize(4) {
            0 => s.push_str(*rng.pick(&ODD)),
            1 => s.push((b'a' + rng.usize(26) as u8) as char),
            2 => s.push((b'0' + rng.usize(10) as u8) as char),
            _ => s.push(*rng.pick(&['-', '_', '.', '/', ':', '~', '@'])),
        }
    }
    while s.len() > target {
        s.pop();
    }
    s
}

fn roundtrip_case(check: &Check, rng: &mut Rng, tiny: bool) {
    let name = if tiny { gen_name_max(rng, 200) } else { gen_name(rng) };
    if !msref::is_plain_valid_name(&name) {
        return;
    }
    let nb = name.as_bytes().to_vec();
    let w = json!({"name_len": name.len(), "name_head": name.chars().take(24).collect::<String>(), "name_hex_head": util::short_hex(&nb)});
    let other = format!("/zz{}", rng.usize(1000));
    let sig = Sig::new().str("rt").str(&name).0;

    // A1: real dialer, reference peer. k rejected proposals first.
    let k = rng.usize(3);
    let mut proposals: Vec<String> = (0..k).map(|i| format!("{other}/{i}")).collect();
    proposals.push(name.clone());
    let mut reply = msref::enc_header();
    for _ in 0..k {
        reply.extend(msref::enc_na());
    }
    reply.extend(msref::enc_proto(&nb));
    let mode = if k == 0 { *rng.pick(&[DialMode::V1, DialMode::LazyComplete, DialMode::LazyRead]) } else { DialMode::V1 };
    match catch(|| run_dialer(&proposals, &reply, pipe::Sched::random(rng), mode, false)) {
        Err(p) => {
            check.violation(format!("panic@{}", p.site()), format!("dialer panic: {}", p.msg), w.clone());
            return;
        }
        Ok((r, wire)) => {
            if let Some(msgs) = check_written(check, "dialer", &wire, &w) {
                let mut want = vec![RMsg::Header];
                for p in &proposals {
                    want.push(RMsg::Proto(p.as_bytes().to_vec()));
                }
                if msgs != want {
                    check.violation("dialer-encoding-differs", format!("reference parser reads {:?} frames, expected header + {} proposals ending in the name", msgs.len(), proposals.len()), w.clone());
                }
            }
            if r == Real::Budget {
                check.inconclusive("poll budget (A1)");
                return;
            }
            if r != Real::Ok(name.clone()) {
                check.violation("dialer-rejects-valid-echo", format!("dialer ({mode:?}) got a well-formed echo of its proposal but returned {r:?}"), w.clone());
            }
        }
    }

    // A2: reference dialer bytes -> real listener
    let mut supported = vec![other.clone(), name.clone()];
    if rng.bool() {
        supported.reverse();
    }
    let mut input = msref::enc_header();
    let unsupported = format!("{other}/x");
    let n_na = rng.usize(3);
    for _ in 0..n_na {
        input.extend(msref::enc_proto(unsupported.as_bytes()));
    }
    input.extend(msref::enc_proto(&nb));
    match catch(|| run_listener(&supported, &input, pipe::Sched::random(rng), false)) {
        Err(p) => {
            check.violation(format!("panic@{}", p.site()), format!("listener panic: {}", p.msg), w.clone());
            return;
        }
        Ok((r, wire)) => {
            if r == Real::Budget {
                check.inconclusive("poll budget (A2)");
                return;
            }
            if r != Real::Ok(name.clone()) {
                check.violation("listener-rejects-valid-proposal", format!("listener supports the name and got a well-formed proposal but returned {r:?}"), w.clone());
            }
            if let Some(msgs) = check_written(check, "listener", &wire, &w) {
                let mut want = vec![RMsg::Header];
                for _ in 0..n_na {
                    want.push(RMsg::Na);
                }
                want.push(RMsg::Proto(nb.clone()));
                if msgs != want && r == Real::Ok(name.clone()) {
                    check.violation("listener-encoding-differs", format!("listener's output parses as {} frames, expected header, {n_na} na, echo", msgs.len()), w.clone());
                }
            }
        }
    }

    // A3: ls
    let mut names: Vec<String> = (0..rng.usize(4)).map(|_| gen_name(rng)).filter(|n| msref::is_plain_valid_name(n) && n.len() < 3000).collect();
    if name.len() < 3000 {
        names.push(name.clone());
    }
    if rng.bool() {
        names.push("invalid-no-slash".into()); // listeners drop such names
    }
    rng.shuffle(&mut names);
    let valid: Vec<Vec<u8>> = names.iter().filter(|n| n.starts_with('/')).map(|n| n.as_bytes().to_vec()).collect();
    let list_body: usize = valid.iter().map(|n| n.len() + 1 + if n.len() + 1 < 128 { 1 } else { 2 }).sum::<usize>() + 1;
    let mut input = msref::enc_header();
    input.extend(msref::enc_ls());
    match catch(|| run_listener(&names, &input, pipe::Sched::random(rng), false)) {
        Err(p) => check.violation(format!("panic@{}", p.site()), format!("listener panic on ls: {}", p.msg), w.clone()),
        Ok((_r, wire)) => {
            if let Some(msgs) = check_written(check, "listener-ls", &wire, &w) {
                if list_body <= msref::MAX_BODY {
                    let want = vec![RMsg::Header, RMsg::List(valid.clone())];
                    if msgs != want {
                        check.violation("ls-response-differs", format!("ls response parses as {:?}.., expected header + list of {} names", msgs.iter().take(2).map(|m| format!("{m:?}").chars().take(40).collect::<String>()).collect::<Vec<_>>(), valid.len()), json!({"names": names.iter().map(|n| n.chars().take(30).collect::<String>()).collect::<Vec<_>>()}));
                    }
                    check.count("ls_responses_parsed", 1);
                }
            }
        }
    }

    // A4: real <-> real
    let (a, b, a2b, b2a) = pipe::pipe(pipe::Sched::random(rng), pipe::Sched::random(rng));
    let ver = if rng.bool() { Version::V1 } else { Version::V1Lazy };
    let dprops = proposals.clone();
    let prog = {
        let (x, y) = (a2b.clone(), b2a.clone());
        move || x.written() + x.read() + y.written() + y.read()
    };
    let r = catch(|| {
        let mut d = dialer_select_proto(a, dprops, ver);
        let mut l = listener_select_proto(b, supported.clone());
        let (mut rd, mut rl) = (None, None);
        util::drive_pair(&mut d, &mut l, &mut rd, &mut rl, &prog, 100_000);
        // lazy dialer: drive to confirmation
        let rd2 = match rd {
            Some(Ok((n, io))) => {
                let mut c = io.complete();
                let mut rc = None;
                if rl.is_some() {
                    if let util::Step::Done(x) = util::drive(&mut c, POLLS) {
                        rc = Some(x);
                    }
                } else {
                    util::drive_pair(&mut c, &mut l, &mut rc, &mut rl, &prog, 100_000);
                }
                rc.map(|x| x.map(|_| n.clone()).map_err(|e| classify_err(&e)))
            }
            Some(Err(e)) => Some(Err(classify_err(&e))),
            None => None,
        };
        (rd2, rl.map(|x| x.map(|(n, _)| n).map_err(|e| classify_err(&e))))
    });
    match r {
        Err(p) => check.violation(format!("panic@{}", p.site()), format!("panic in real<->real negotiation: {}", p.msg), w.clone()),
        Ok((rd, rl)) => {
            if rd != Some(Ok(name.clone())) || rl != Some(Ok(name.clone())) {
                check.violation("real-pair-roundtrip-failed", format!("dialer {:?} / listener {:?}, both should settle on the generated name ({ver:?})", rd, rl), w.clone());
            }
            let _ = check_written(check, "dialer", &a2b.log(), &w);
            let _ = check_written(check, "listener", &b2a.log(), &w);
        }
    }
    check.count("names_roundtripped", 1);
    check.distinct("name_lengths", name.len() as u64);
    check.case(sig, true);
    if check.want_sample() {
        check.sample(json!({"kind": "roundtrip", "name_len": name.len(), "name_head": name.chars().take(32).collect::<String>(), "rejected_first": k}));
    }
}

/// names too long for a frame / without slash given to the dialer API
fn api_reject_case(check: &Check, rng: &mut Rng) {
    let reply = msref::enc_header();
    // no leading slash
    let bad = rng.pick(&["a", "", "proto/1", " /x", "na", "ls", "\n/x"]).to_string();
    match catch(|| run_dialer(&[bad.clone()], &reply, pipe::Sched::random(rng), DialMode::V1, false)) {
        Err(p) => check.violation(format!("panic@{}", p.site()), format!("dialer panic on invalid name: {}", p.msg), json!({"name": bad})),
        Ok((r, wire)) => {
            if !r.is_err() {
                check.violation("dialer-accepts-name-without-slash", format!("dialer_select_proto with name {bad:?} returned {r:?}"), json!({"name": bad}));
            }
            if let Some(msgs) = check_written(check, "dialer", &wire, &json!({"name": bad})) {
                if msgs.iter().any(|m| matches!(m, RMsg::Other(_))) {
                    check.violation("dialer-wrote-invalid-name", "a message that is not a valid multistream message was written".to_string(), json!({"name": bad}));
                }
            }
            check.count("api_names_without_slash", 1);
        }
    }
    // too long for a 2-byte prefix
    let n = msref::MAX_BODY + rng.usize(3) + if rng.chance(1, 4) { 70_000 } else { 0 };
    let long = format!("/{}", "x".repeat(n - 1));
    let mut reply = msref::enc_header();
    reply.extend(msref::enc_na());
    for mode in [DialMode::V1, DialMode::LazyComplete] {
        match catch(|| run_dialer(&[long.clone()], &reply, pipe::Sched::smooth(), mode, false)) {
            Err(p) => check.violation(format!("panic@{}", p.site()), format!("dialer panic on over-long name: {}", p.msg), json!({"name_len": n})),
            Ok((r, wire)) => {
                let _ = check_written(check, "dialer", &wire, &json!({"name_len": n}));
                if !r.is_err() {
                    check.violation("dialer-accepts-overlong-name", format!("name of {n} bytes: {r:?}"), json!({"name_len": n}));
                }
                check.count("api_names_too_long", 1);
            }
        }
    }
    // listener: over-long names can never be confirmed on the wire
    let mut input = msref::enc_header();
    input.extend(msref::enc_ls());
    match catch(|| run_listener(&[long.clone(), "/ok".into()], &input, pipe::Sched::smooth(), false)) {
        Err(p) => check.violation(format!("panic@{}", p.site()), format!("listener panic with over-long supported name: {}", p.msg), json!({"name_len": n})),
        Ok((_, wire)) => {
            let _ = check_written(check, "listener", &wire, &json!({"name_len": n}));
        }
    }
    check.cases(1);
}

const L_PROTOS: [&str; 3] = ["/", "/a", "/proto/1.0.0"];
const D_PROTOS: [&str; 2] = ["/", "/a"];

#[derive(Clone, Copy, Debug, PartialEq, Eq)]
enum Rig {
    Listener,
    DialerV1,
    DialerV1Two,
    LazyComplete,
    LazyRead,
}
const RIGS: [Rig; 5] = [Rig::Listener, Rig::DialerV1, Rig::DialerV1Two, Rig::LazyComplete, Rig::LazyRead];

fn hostile(check: &Check, rig: Rig, input: &[u8], sched: pipe::Sched, label: &str) {
    let lp: Vec<String> = L_PROTOS.iter().map(|s| s.to_string()).collect();
    let (dp, mode): (Vec<String>, DialMode) = match rig {
        Rig::DialerV1Two => (D_PROTOS.iter().map(|s| s.to_string()).collect(), DialMode::V1),
        Rig::DialerV1 => (vec!["/".into()], DialMode::V1),
        Rig::LazyComplete => (vec!["/".into()], DialMode::LazyComplete),
        _ => (vec!["/".into()], DialMode::LazyRead),
    };
    let w = json!({"rig": format!("{rig:?}"), "input": util::short_hex(input), "input_len": input.len(), "class": label});
    let (real, want) = match rig {
        Rig::Listener => (catch(|| run_listener(&lp, input, sched, false)), msref::listener_outcome(input, &lp)),
        _ => (catch(|| run_dialer(&dp, input, sched, mode, false)), msref::dialer_outcome(input, &dp)),
    };
    check.count("hostile_inputs", 1);
    match real {
        Err(p) => check.violation(format!("panic@{}", p.site()), format!("panic on hostile input: {}", p.msg), w),
        Ok((r, wire)) => {
            let _ = check_written(check, if rig == Rig::Listener { "listener" } else { "dialer" }, &wire, &w);
            match (&r, &want) {
                (Real::Budget, _) => check.inconclusive("poll budget (hostile)"),
                (Real::Stalled, _) => check.inconclusive(format!("future stalled although input ended with EOF: {w}")),
                (_, Outcome::NotJudged) => check.count("hostile_not_judged", 1),
                (Real::Ok(n), Outcome::Ok(m)) if n.as_bytes() == &m[..] => check.count("hostile_inputs_accepted_legitimately", 1),
                (Real::Ok(n), _) => check.violation(
                    format!("accepted-without-matching-message-{}", if rig == Rig::Listener { "listener" } else { "dialer" }),
                    format!("returned Ok({n:?}) but the peer bytes do not contain the matching negotiation (reference: {want:?})"),
                    w,
                ),
                (e, Outcome::Ok(m)) => check.violation(
                    format!("rejected-wellformed-conversation-{}", if rig == Rig::Listener { "listener" } else { "dialer" }),
                    format!("returned {e:?} although the peer bytes are a well-formed negotiation of {:?}", String::from_utf8_lossy(m)),
                    w,
                ),
                (_, Outcome::Err) => check.count("hostile_inputs_rejected", 1),
            }
        }
    }
}

fn gen_hostile(rng: &mut Rng) -> (Vec<u8>, &'static str) {
    let mut conv = msref::enc_header();
    match rng.usize(9) {
        0 => (util::rbytes(rng, 0, 39), "prng"),
        1 => {
            conv.extend(util::rbytes(rng, 1, 30));
            (conv, "header+prng")
        }
        2 => {
            // frame with PRNG body
            let n = rng.usize(300);
            let mut body = rng.bytes(n);
            if rng.bool() && n > 0 {
                body[0] = b'/';
            }
            if rng.bool() && n > 0 {
                body[n - 1] = b'\n';
            }
            conv.extend(msref::frame(&body));
            (conv, "header+framed-prng")
        }
        3 => {
            // name without slash
            let name = rng.pick(&["a", "proto", "\u{e9}", " /a", "na ", "ls/", "multistream/1.0.0"]).as_bytes().to_vec();
            conv.extend(msref::enc_proto(&name));
            if rng.bool() {
                conv.extend(msref::enc_proto(b"/"));
            }
            (conv, "name-without-slash")
        }
        4 => {
            // list with a name lacking '/', or plain valid list
            let names: Vec<Vec<u8>> = (0..1 + rng.usize(4)).map(|i| if i == 0 && rng.bool() { b"x".to_vec() } else { b"/a".to_vec() }).collect();
            conv.extend(msref::enc_list(&names));
            conv.extend(msref::enc_proto(b"/"));
            (conv, "list-message")
        }
        5 => {
            // oversize prefix then junk
            conv.extend([0x80 | rng.usize(128) as u8, 0x80 | rng.usize(128) as u8]);
            conv.extend(util::rbytes(rng, 0, 19));
            (conv, "three-byte-prefix")
        }
        6 => {
            // valid conversation, mutated
            for _ in 0..rng.usize(3) {
                conv.extend(if rng.bool() { msref::enc_na() } else { msref::enc_proto(b"/nope") });
            }
            conv.extend(msref::enc_proto(rng.pick(&["/", "/a", "/proto/1.0.0"]).as_bytes()));
            let i = rng.usize(conv.len());
            match rng.usize(4) {
                0 => conv[i] ^= 1 << rng.usize(8),
                1 => conv.truncate(i),
                2 => conv.insert(i, rng.next_u32() as u8),
                _ => {
                    conv.remove(i);
                }
            }
            (conv, "mutated-conversation")
        }
        7 => {
            // valid conversation (acceptance must be reachable too)
            for _ in 0..rng.usize(3) {
                conv.extend(match rng.usize(3) {
                    0 => msref::enc_na(),
                    1 => msref::enc_ls(),
                    _ => msref::enc_proto(b"/nope"),
                });
            }
            conv.extend(msref::enc_proto(rng.pick(&["/", "/a", "/proto/1.0.0"]).as_bytes()));
            conv.extend(util::rbytes(rng, 0, 3));
            (conv, "valid-conversation")
        }
        _ => {
            // non-UTF-8 name, zero-length frames, duplicate headers
            match rng.usize(3) {
                0 => conv.extend(msref::enc_proto(&[b'/', 0xff, 0xfe])),
                1 => conv.extend([0u8, 0]),
                _ => conv.extend(msref::enc_header()),
            }
            conv.extend(msref::enc_proto(b"/"));
            (conv, "odd-frames")
        }
    }
}

fn too_many_case(check: &Check, n: usize, rig: Rig, with_bad_name: bool) {
    let mut names: Vec<Vec<u8>> = vec![b"/".to_vec(); n];
    if with_bad_name && n > 0 {
        names[n / 2] = b"x".to_vec();
    }
    let mut input = msref::enc_header();
    input.extend(msref::enc_list(&names));
    input.extend(msref::enc_proto(b"/"));
    let w = json!({"rig": format!("{rig:?}"), "listed_protocols": n, "one_name_without_slash": with_bad_name});
    let lp: Vec<String> = L_PROTOS.iter().map(|s| s.to_string()).collect();
    let r = match rig {
        Rig::Listener => catch(|| run_listener(&lp, &input, pipe::Sched::smooth(), false)),
        Rig::LazyComplete => catch(|| run_dialer(&["/".to_string()], &input, pipe::Sched::smooth(), DialMode::LazyComplete, false)),
        _ => catch(|| run_dialer(&["/".to_string()], &input, pipe::Sched::smooth(), DialMode::V1, false)),
    };
    check.count("list_messages_fed", 1);
    check.cases(1);
    check.nontrivial(Sig::new().str("list").u64(n as u64).u64(rig as u64).u64(with_bad_name as u64).0);
    match r {
        Err(p) => check.violation(format!("panic@{}", p.site()), format!("panic on list message: {}", p.msg), w),
        Ok((r, _)) => {
            if !r.is_err() {
                check.violation("list-message-accepted", format!("a list of {n} protocols sent instead of a reply was answered with {r:?}"), w);
            } else if n > 1000 && !with_bad_name && r != Real::TooManyProtocols {
                check.violation("too-many-protocols-not-flagged", format!("{n} listed protocols rejected as {r:?}, not TooManyProtocols"), w);
            } else if n > 1000 {
                check.count("too_many_protocols_rejections", 1);
            }
        }
    }
}

/// D: follow-up operations on a lazily negotiated stream after its first read failed
fn lazy_followup_case(check: &Check, rng: &mut Rng, input: Vec<u8>, label: &str, fixed_ops: Option<Vec<u8>>) {
    let fixed_ops_given = fixed_ops.is_some();
    let ops: Vec<u8> = fixed_ops.unwrap_or_else(|| (0..1 + rng.usize(3)).map(|_| rng.usize(4) as u8).collect());
    let names = ["read", "write", "flush", "close"];
    let opnames: Vec<&str> = ops.iter().map(|o| names[*o as usize]).collect();
    let w = json!({"dialer": "V1Lazy, proposals [\"/\"]", "peer_bytes_then_eof": util::short_hex(&input), "class": label, "first_op": "read", "followup_ops": opnames});
    let sched = if fixed_ops_given { pipe::Sched::smooth() } else if rng.bool() { pipe::Sched::random(rng) } else { pipe::Sched::smooth() };
    let (a, b, _a2b, b2a) = pipe::pipe(sched, pipe::Sched::smooth());
    b2a.inject(&input);
    b2a.close();
    let mut fut = dialer_select_proto(a, vec!["/".to_string()], Version::V1Lazy);
    let Step::Done(Ok((_, mut io))) = drive(&mut fut, POLLS) else {
        check.inconclusive("lazy dialer did not settle immediately");
        return;
    };
    let mut one = [0u8; 1];
    let first = catch(|| {
        let mut rd = io.read(&mut one).boxed();
        match drive(&mut rd, POLLS) {
            Step::Done(r) => Some(r.is_ok()),
            _ => None,
        }
    });
    check.cases(1);
    match first {
        Err(p) => {
            check.violation(format!("panic@{}", p.site()), format!("panic in first read: {}", p.msg), w);
            return;
        }
        Ok(None) => {
            check.inconclusive("first read did not finish");
            return;
        }
        Ok(Some(true)) => {
            check.count("lazy_followup_first_read_ok", 1);
            return;
        }
        Ok(Some(false)) => {}
    }
    check.count("lazy_followup_after_failed_read", 1);
    check.nontrivial(Sig::new().str("followup").bytes(&input).bytes(&ops).0);
    for (i, op) in ops.iter().enumerate() {
        let r = catch(|| match op {
            0 => {
                let mut f = io.read(&mut one).boxed();
                let _ = drive(&mut f, POLLS);
            }
            1 => {
                let mut f = io.write(b"x").boxed();
                let _ = drive(&mut f, POLLS);
            }
            2 => {
                let mut f = io.flush().boxed();
                let _ = drive(&mut f, POLLS);
            }
            _ => {
                let mut f = io.close().boxed();
                let _ = drive(&mut f, POLLS);
            }
        });
        check.count("lazy_followup_ops", 1);
        if let Err(p) = r {
            let sig = if p.msg.contains("Invalid state") && p.site().contains("negotiated.rs") {
                "negotiated-invalid-state-panic-after-failed-lazy-negotiation".to_string()
            } else {
                format!("panic@{}", p.site())
            };
            check.violation(sig, format!("{}() on the Negotiated stream after its first read returned Err panicked at {}: {}", opnames[i], p.site(), p.msg), w);
            break;
        }
    }
    drop(b);
}

pub fn run(args: &Args) -> i32 {
    let check = Check::new(
        args,
        "exploration",
        "A: generated protocol names through dialer/listener against the reference codec (distinct = name); \
         B: hostile byte strings x 5 rigs (listener, V1 dialer with 1 and 2 proposals, V1Lazy dialer via complete()/read) judged against the \
         reference outcome (distinct = (rig, bytes)); C: list messages of 999..5000 entries",
    );
    let tiny = util::tiny(args);
    let thorough = args.tier == vmon::Tier::Thorough && !tiny;

    let n_a = util::budget(args, 1_200, 40_000, 4);
    vmon::par_cases(&check, n_a, args.threads, |_, rng| roundtrip_case(&check, rng, tiny));
    vmon::par_cases(&check, util::budget(args, 60, 2_000, 0), args.threads, |_, rng| api_reject_case(&check, rng));

    // B exhaustive short strings, bare and after a header
    if !tiny {
        let max3: u64 = if thorough { 1 << 24 } else { 0 };
        let total = 256 + 65_536 + max3;
        vmon::par_cases(&check, total, args.threads, |i, _| {
            let bytes: Vec<u8> = if i < 256 {
                vec![i as u8]
            } else if i < 256 + 65_536 {
                let v = i - 256;
                vec![(v >> 8) as u8, v as u8]
            } else {
                let v = i - 256 - 65_536;
                vec![(v >> 16) as u8, (v >> 8) as u8, v as u8]
            };
            let three = bytes.len() == 3;
            for rig in RIGS {
                // 3-byte strings: listener all of them, V1 dialer every fourth
                if three && !(rig == Rig::Listener || (rig == Rig::DialerV1 && i % 4 == 0)) {
                    continue;
                }
                if !three {
                    hostile(&check, rig, &bytes, pipe::Sched::smooth(), "exhaustive-bare");
                }
                let mut withh = msref::enc_header();
                withh.extend(&bytes);
                hostile(&check, rig, &withh, pipe::Sched::smooth(), "exhaustive-after-header");
            }
            check.case(Sig::new().str("ex").bytes(&bytes).0, true);
        });
    }
    // sampled 3-byte strings in quick tier
    if !thorough {
        vmon::par_cases(&check, util::budget(args, 60_000, 0, 30), args.threads, |_, rng| {
            let bytes = rng.bytes(3);
            let mut withh = msref::enc_header();
            withh.extend(&bytes);
            hostile(&check, *rng.pick(&RIGS), &withh, pipe::Sched::smooth(), "sampled-3-bytes-after-header");
            check.case(Sig::new().str("ex").bytes(&bytes).0, true);
        });
    }
    // B PRNG / structured
    vmon::par_cases(&check, util::budget(args, 60_000, 1_000_000, 40), args.threads, |_, rng| {
        let (bytes, label) = gen_hostile(rng);
        let rig = *rng.pick(&RIGS);
        let sched = if rng.bool() { pipe::Sched::random(rng) } else { pipe::Sched::smooth() };
        hostile(&check, rig, &bytes, sched, label);
        check.count(&format!("hostile_class_{label}"), 1);
        check.case(Sig::new().str(label).u64(rig as u64).bytes(&bytes).0, true);
        if label == "mutated-conversation" && check.want_sample() {
            check.sample(json!({"kind": "hostile", "rig": format!("{rig:?}"), "class": label, "input": util::short_hex(&bytes)}));
        }
    });
    // oversize prefix with the connection held open: must be rejected without a third byte
    for rig in RIGS {
        for (b0, b1) in [(0x80u8, 0x80u8), (0xff, 0xff), (0x80, 0xff), (0xff, 0x80), (0x81, 0x81)] {
            for after_header in [false, true] {
                if !after_header && rig != Rig::Listener {
                    // the dialer reads only after having written; same path as after_header
                }
                let mut input = if after_header { msref::enc_header() } else { vec![] };
                input.extend([b0, b1]);
                let lp: Vec<String> = L_PROTOS.iter().map(|s| s.to_string()).collect();
                let w = json!({"rig": format!("{rig:?}"), "input": vmon::hex(&input), "held_open": true});
                let r = match rig {
                    Rig::Listener => catch(|| run_listener(&lp, &input, pipe::Sched::smooth(), true)),
                    Rig::DialerV1 | Rig::DialerV1Two => catch(|| run_dialer(&["/".to_string()], &input, pipe::Sched::smooth(), DialMode::V1, true)),
                    Rig::LazyComplete => catch(|| run_dialer(&["/".to_string()], &input, pipe::Sched::smooth(), DialMode::LazyComplete, true)),
                    Rig::LazyRead => catch(|| run_dialer(&["/".to_string()], &input, pipe::Sched::smooth(), DialMode::LazyRead, true)),
                };
                check.cases(1);
                check.count("oversize_prefix_probes_held_open", 1);
                match r {
                    Err(p) => check.violation(format!("panic@{}", p.site()), format!("panic on oversize prefix: {}", p.msg), w),
                    Ok((Real::Budget, _)) => check.inconclusive("poll budget (oversize)"),
                    Ok((Real::Stalled, _)) => check.violation("oversize-frame-not-rejected-at-prefix", "two continuation bytes consumed, future waits for more instead of failing".to_string(), w),
                    Ok((Real::Ok(n), _)) => check.violation("oversize-frame-accepted", format!("Ok({n})"), w),
                    Ok(_) => {}
                }
            }
        }
    }
    // D (minimal cases first so that the stored witness is the smallest one)
    for op in [3u8, 0, 1, 2] {
        let mut v = msref::enc_header();
        v.extend(msref::enc_na());
        lazy_followup_case(&check, &mut Rng::new(op as u64), v, "header+na", Some(vec![op]));
    }
    vmon::par_cases(&check, util::budget(args, 4_000, 100_000, 6), args.threads, |i, rng| {
        let (input, label) = match i % 4 {
            0 => {
                let mut v = msref::enc_header();
                v.extend(msref::enc_na());
                (v, "header+na")
            }
            1 => (vec![], "eof"),
            _ => gen_hostile(rng),
        };
        lazy_followup_case(&check, rng, input, label, None);
    });
    // C
    let mut c_cases = vec![];
    for n in [0usize, 1, 999, 1000, 1001, 1002, 2000, 5000, 5460] {
        for rig in [Rig::Listener, Rig::DialerV1, Rig::LazyComplete] {
            for bad in [false, true] {
                c_cases.push((n, rig, bad));
            }
        }
    }
    if tiny {
        c_cases.retain(|c| c.0 == 1001 || c.0 == 1000);
    }
    vmon::par_cases(&check, c_cases.len() as u64, args.threads, |i, _| {
        let (n, rig, bad) = c_cases[i as usize];
        too_many_case(&check, n, rig, bad);
    });
    check.note("exhaustive", json!({"byte_strings": if thorough { "all of length 1-3 after a header (3: listener all, V1 dialer every fourth), all of length 1-2 bare" } else { "all of length 1-2 bare and after a header; 3-byte sampled" }, "overall": false}));
    check.finish()
}
