//! Helpers shared by the vc-wire checks (harness side only; nothing here re-implements code under test).
use std::{
    io,
    pin::Pin,
    task::{Context, Poll},
};

use futures::{
    Stream,
    io::{AsyncRead, AsyncWrite},
};
use vmon::{Args, exec::flag_waker};

/// `--budget tiny` (used for Miri runs): a handful of cases so that an interpreter finishes in minutes.
pub fn tiny(args: &Args) -> bool {
    args.extra.get("budget").map(|s| s == "tiny").unwrap_or(false)
}

/// budget picker: quick / thorough / tiny
pub fn budget(args: &Args, quick: u64, thorough: u64, tiny_n: u64) -> u64 {
    if tiny(args) { tiny_n } else { args.tier.pick(quick, thorough) }
}

/// An `AsyncRead` that hands out `data` cut at the given absolute offsets (one `poll_read` never
/// crosses a cut), optionally returning a self-waking `Pending` before every chunk, and at the end
/// either reports EOF or stays `Pending` *without* waking (= "no more bytes have arrived yet").
pub struct ChunkReader {
    pub data: Vec<u8>,
    pub pos: usize,
    /// ascending absolute offsets at which a read must stop
    pub cuts: Vec<usize>,
    pub pend_between: bool,
    pended: bool,
    pub eof_at_end: bool,
    pub reads: u64,
}

impl ChunkReader {
    pub fn new(data: Vec<u8>, mut cuts: Vec<usize>, pend_between: bool, eof_at_end: bool) -> Self {
        cuts.sort_unstable();
        cuts.dedup();
        ChunkReader { data, pos: 0, cuts, pend_between, pended: false, eof_at_end, reads: 0 }
    }
    pub fn consumed(&self) -> usize {
        self.pos
    }
}

impl AsyncRead for ChunkReader {
    fn poll_read(mut self: Pin<&mut Self>, cx: &mut Context<'_>, out: &mut [u8]) -> Poll<io::Result<usize>> {
        let this = &mut *self;
        if out.is_empty() {
            return Poll::Ready(Ok(0));
        }
        if this.pos >= this.data.len() {
            return if this.eof_at_end { Poll::Ready(Ok(0)) } else { Poll::Pending };
        }
        if this.pend_between && !this.pended {
            this.pended = true;
            cx.waker().wake_by_ref();
            return Poll::Pending;
        }
        this.pended = false;
        let next_cut = this.cuts.iter().copied().find(|c| *c > this.pos).unwrap_or(this.data.len()).min(this.data.len());
        let n = (next_cut - this.pos).min(out.len());
        out[..n].copy_from_slice(&this.data[this.pos..this.pos + n]);
        this.pos += n;
        this.reads += 1;
        Poll::Ready(Ok(n))
    }
}

/// Write half that swallows everything (for read-only rigs that need `AsyncRead + AsyncWrite`).
impl AsyncWrite for ChunkReader {
    fn poll_write(self: Pin<&mut Self>, _: &mut Context<'_>, b: &[u8]) -> Poll<io::Result<usize>> {
        Poll::Ready(Ok(b.len()))
    }
    fn poll_flush(self: Pin<&mut Self>, _: &mut Context<'_>) -> Poll<io::Result<()>> {
        Poll::Ready(Ok(()))
    }
    fn poll_close(self: Pin<&mut Self>, _: &mut Context<'_>) -> Poll<io::Result<()>> {
        Poll::Ready(Ok(()))
    }
}

#[derive(Debug, Clone, Copy, PartialEq, Eq)]
pub enum DrainEnd {
    /// stream returned `None`
    Eof,
    /// stream returned `Pending` without having woken its waker (waiting for external input)
    Stalled,
    /// poll budget exhausted (only self-waking Pendings) — treated as inconclusive by callers
    Budget,
    /// stopped after the first `Err` item
    Error,
}

/// Poll a stream, collecting items until it ends, errs (first Err is kept as last item), or stalls.
pub fn drain_stream<S, T, E>(s: &mut S, max_polls: usize) -> (Vec<Result<T, E>>, DrainEnd)
where
    S: Stream<Item = Result<T, E>> + Unpin,
{
    let (flag, w) = flag_waker();
    let mut cx = Context::from_waker(&w);
    let mut out = vec![];
    for _ in 0..max_polls {
        flag.take();
        match Pin::new(&mut *s).poll_next(&mut cx) {
            Poll::Ready(None) => return (out, DrainEnd::Eof),
            Poll::Ready(Some(Ok(v))) => out.push(Ok(v)),
            Poll::Ready(Some(Err(e))) => {
                out.push(Err(e));
                return (out, DrainEnd::Error);
            }
            Poll::Pending => {
                if !flag.is_set() {
                    return (out, DrainEnd::Stalled);
                }
            }
        }
    }
    (out, DrainEnd::Budget)
}

/// `k` distinct cut points in 1..len (ascending), PRNG
pub fn random_cuts(rng: &mut vmon::Rng, len: usize, k: usize) -> Vec<usize> {
    let mut v = vec![];
    if len < 2 {
        return v;
    }
    for _ in 0..k {
        v.push(1 + rng.usize(len - 1));
    }
    v.sort_unstable();
    v.dedup();
    v
}

pub fn short_hex(b: &[u8]) -> String {
    if b.len() <= 48 { vmon::hex(b) } else { format!("{}..(+{} bytes)", vmon::hex(&b[..48]), b.len() - 48) }
}

/// PRNG bytes of PRNG length in lo..=hi
pub fn rbytes(rng: &mut vmon::Rng, lo: usize, hi: usize) -> Vec<u8> {
    let n = lo + rng.usize(hi - lo + 1);
    rng.bytes(n)
}

pub enum Step<T> {
    Done(T),
    /// Pending and not woken: waits for something external
    Stalled,
    /// poll budget used up by self-waking Pendings
    Budget,
}

/// Poll `f` until ready, stalled, or `max_polls` polls were spent.
pub fn drive<F: std::future::Future + Unpin>(f: &mut F, max_polls: usize) -> Step<F::Output> {
    let (flag, w) = flag_waker();
    let mut cx = Context::from_waker(&w);
    for _ in 0..max_polls {
        flag.take();
        if let Poll::Ready(v) = Pin::new(&mut *f).poll(&mut cx) {
            return Step::Done(v);
        }
        if !flag.is_set() {
            return Step::Stalled;
        }
    }
    Step::Budget
}

/// Drive two futures that talk to each other until both are done or neither can move.
/// `progress()` must change whenever bytes moved between them.
pub fn drive_pair<A, B>(a: &mut A, b: &mut B, ra: &mut Option<A::Output>, rb: &mut Option<B::Output>, progress: impl Fn() -> u64, rounds: usize)
where
    A: std::future::Future + Unpin,
    B: std::future::Future + Unpin,
{
    let mut last = u64::MAX;
    for _ in 0..rounds {
        let mut all_stalled = true;
        if ra.is_none() {
            match drive(a, 4096) {
                Step::Done(v) => {
                    *ra = Some(v);
                    all_stalled = false;
                }
                Step::Budget => all_stalled = false,
                Step::Stalled => {}
            }
        }
        if rb.is_none() {
            match drive(b, 4096) {
                Step::Done(v) => {
                    *rb = Some(v);
                    all_stalled = false;
                }
                Step::Budget => all_stalled = false,
                Step::Stalled => {}
            }
        }
        if ra.is_some() && rb.is_some() {
            return;
        }
        let p = progress();
        if all_stalled && p == last {
            return;
        }
        last = p;
    }
}

/// stderr logger for debugging sessions (`VC_DEBUG=1`); never enabled in normal runs
pub struct StderrLog;
impl log::Log for StderrLog {
    fn enabled(&self, _: &log::Metadata) -> bool {
        true
    }
    fn log(&self, r: &log::Record) {
        eprintln!("[{}] {}", r.target(), r.args());
    }
    fn flush(&self) {}
}
pub fn debug_logging() {
    if std::env::var("VC_DEBUG").is_ok() {
        static L: StderrLog = StderrLog;
        let _ = log::set_logger(&L);
        log::set_max_level(log::LevelFilter::Trace);
    }
}
