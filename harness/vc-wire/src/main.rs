mod c14;
mod c15;
mod c24;
mod c25;
mod c26;
mod c57;
mod msref;
mod util;

fn main() {
    vmon::run_main(&[("C14", c14::run), ("C15", c15::run), ("C24", c24::run), ("C25", c25::run), ("C26", c26::run), ("C57", c57::run)]);
}
