mod c57;
mod util;

fn main() {
    vmon::run_main(&[("C57", c57::run)]);
}
