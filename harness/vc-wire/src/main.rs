mod c15;
mod c57;
mod msref;
mod util;

fn main() {
    vmon::run_main(&[("C15", c15::run), ("C57", c57::run)]);
}
