//! C34 — every `Config` returned by `ConfigBuilder::build` satisfies the documented inequalities;
//! consequently a behaviour built from an accepted config never panics in heartbeat.
//!
//! Builder half. Cases are *builder call sequences* (`Op` lists) applied to `ConfigBuilder::default()`:
//!  (A) bounded-exhaustive: all (mesh_n, mesh_n_low, mesh_n_high, mesh_outbound_min) in 0..=8 ^4,
//!      set (i) through the default setters, (ii) through the per-topic setters only, (iii) through
//!      the per-topic setters plus a per-topic max-transmit-size entry;
//!  (B) all (history_length, history_gossip) in 0..=8 ^2, and default x per-topic transmit sizes
//!      around 100;
//!  (C) PRNG sequences mixing all setters over two topics incl. a `ConfigBuilder::from(config)` round trip.
//! Oracle (from the statement, read through the public getters of the returned `Config`):
//!   build()==Ok  =>  out <= low <= n <= high and 2*out <= n for the default set and for every topic
//!   the sequence touched; history_gossip <= history_length; max_transmit_size >= 100 (default and
//!   every topic). Rejections are never judged (the statement is an implication).
//!
//! Heartbeat half. For accepted configs a real `gossipsub::Behaviour` is built and driven through its
//! public `NetworkBehaviour` methods: 0..=12 synthetic peers (inbound/outbound,
//! `handle_established_*_connection` + `ConnectionEstablished` + `HandlerEvent::PeerKind` +
//! `HandlerEvent::Message` decoded by the real codec from hand-encoded SUBSCRIBE/GRAFT frames),
//! local subscribe/publish, then `verif_heartbeat()` x3 with peers joining/leaving in between, under
//! overflow-checks + debug-assertions. Oracle: no panic inside the heartbeat call (signature
//! `heartbeat-panic@site` when the accepted config violates the inequalities, i.e. the builder let it
//! through, `heartbeat-panic-with-valid-config@site` when it satisfies them). A panic in any
//! other call is counted (`panics_outside_heartbeat`) but not judged: the statement speaks of the
//! heartbeat only.
use std::collections::BTreeSet;

use libp2p_core::{ConnectedPoint, Endpoint, Multiaddr, transport::PortUse};
use libp2p_gossipsub::{
    self as gs, Config, ConfigBuilder, IdentTopic, MessageAuthenticity, TopicHash, ValidationMode,
    verif::{HandlerEvent, PeerKind, clock},
};
use libp2p_identity::{Keypair, PeerId};
use libp2p_swarm::{
    ConnectionId, NetworkBehaviour,
    behaviour::{ConnectionClosed, ConnectionEstablished, FromSwarm},
};
use vmon::{Args, Check, Rng, Sig, catch, json};

use crate::util::{WireControl, WireRpc, handler_event_for};

const TOPICS: [&str; 2] = ["t1", "t2"];

#[derive(Clone, Debug, PartialEq, Eq)]
pub enum Op {
    MeshN(usize),
    MeshLow(usize),
    MeshHigh(usize),
    MeshOut(usize),
    TMeshN(usize, usize),
    TMeshLow(usize, usize),
    TMeshHigh(usize, usize),
    TMeshOut(usize, usize),
    HistLen(usize),
    HistGossip(usize),
    MaxTx(usize),
    TMaxTx(usize, usize),
    /// build; if Ok continue from `ConfigBuilder::from(config)`
    RoundTrip,
}

impl Op {
    fn name(&self) -> String {
        match self {
            Op::MeshN(v) => format!("mesh_n({v})"),
            Op::MeshLow(v) => format!("mesh_n_low({v})"),
            Op::MeshHigh(v) => format!("mesh_n_high({v})"),
            Op::MeshOut(v) => format!("mesh_outbound_min({v})"),
            Op::TMeshN(t, v) => format!("mesh_n_for_topic({v},{})", TOPICS[*t]),
            Op::TMeshLow(t, v) => format!("mesh_n_low_for_topic({v},{})", TOPICS[*t]),
            Op::TMeshHigh(t, v) => format!("mesh_n_high_for_topic({v},{})", TOPICS[*t]),
            Op::TMeshOut(t, v) => format!("mesh_outbound_min_for_topic({v},{})", TOPICS[*t]),
            Op::HistLen(v) => format!("history_length({v})"),
            Op::HistGossip(v) => format!("history_gossip({v})"),
            Op::MaxTx(v) => format!("max_transmit_size({v})"),
            Op::TMaxTx(t, v) => format!("max_transmit_size_for_topic({v},{})", TOPICS[*t]),
            Op::RoundTrip => "build+from".into(),
        }
    }
}

fn th(i: usize) -> TopicHash {
    IdentTopic::new(TOPICS[i]).hash()
}

fn apply(ops: &[Op]) -> Result<Config, String> {
    let mut b = ConfigBuilder::default();
    for op in ops {
        match op {
            Op::MeshN(v) => {
                b.mesh_n(*v);
            }
            Op::MeshLow(v) => {
                b.mesh_n_low(*v);
            }
            Op::MeshHigh(v) => {
                b.mesh_n_high(*v);
            }
            Op::MeshOut(v) => {
                b.mesh_outbound_min(*v);
            }
            Op::TMeshN(t, v) => {
                b.mesh_n_for_topic(*v, th(*t));
            }
            Op::TMeshLow(t, v) => {
                b.mesh_n_low_for_topic(*v, th(*t));
            }
            Op::TMeshHigh(t, v) => {
                b.mesh_n_high_for_topic(*v, th(*t));
            }
            Op::TMeshOut(t, v) => {
                b.mesh_outbound_min_for_topic(*v, th(*t));
            }
            Op::HistLen(v) => {
                b.history_length(*v);
            }
            Op::HistGossip(v) => {
                b.history_gossip(*v);
            }
            Op::MaxTx(v) => {
                b.max_transmit_size(*v);
            }
            Op::TMaxTx(t, v) => {
                b.max_transmit_size_for_topic(*v, th(*t));
            }
            Op::RoundTrip => match b.build() {
                Ok(c) => b = ConfigBuilder::from(c),
                Err(e) => return Err(format!("{e:?}")),
            },
        }
    }
    b.build().map_err(|e| format!("{e:?}"))
}

fn mesh_ok(out: usize, low: usize, n: usize, high: usize) -> bool {
    out <= low && low <= n && n <= high && 2 * out <= n
}

fn touched_topics(ops: &[Op]) -> BTreeSet<usize> {
    ops.iter()
        .filter_map(|o| match o {
            Op::TMeshN(t, _) | Op::TMeshLow(t, _) | Op::TMeshHigh(t, _) | Op::TMeshOut(t, _) | Op::TMaxTx(t, _) => Some(*t),
            _ => None,
        })
        .collect()
}

/// the statement's inequalities, read through the public getters; returns violated classes
fn judge(cfg: &Config, ops: &[Op]) -> Vec<(&'static str, String)> {
    let mut bad = vec![];
    let (o, l, n, h) = (cfg.mesh_outbound_min(), cfg.mesh_n_low(), cfg.mesh_n(), cfg.mesh_n_high());
    if !mesh_ok(o, l, n, h) {
        bad.push(("build-ok-invalid-default-mesh", format!("default mesh set out={o} low={l} n={n} high={h}")));
    }
    for t in touched_topics(ops) {
        let t_h = th(t);
        let (o, l, n, h) = (
            cfg.mesh_outbound_min_for_topic(&t_h),
            cfg.mesh_n_low_for_topic(&t_h),
            cfg.mesh_n_for_topic(&t_h),
            cfg.mesh_n_high_for_topic(&t_h),
        );
        if !mesh_ok(o, l, n, h) {
            bad.push(("build-ok-invalid-topic-mesh", format!("topic {} mesh set out={o} low={l} n={n} high={h}", TOPICS[t])));
        }
        // only topics with an explicit size entry (others fall back to the default, judged below)
        let explicit = ops.iter().any(|o| matches!(o, Op::TMaxTx(tt, _) if *tt == t));
        let tx = cfg.max_transmit_size_for_topic(&t_h);
        if explicit && tx < 100 {
            bad.push(("build-ok-small-topic-transmit-size", format!("topic {} max_transmit_size {tx}", TOPICS[t])));
        }
    }
    if cfg.history_gossip() > cfg.history_length() {
        bad.push(("build-ok-history-gossip-gt-length", format!("history_gossip {} > history_length {}", cfg.history_gossip(), cfg.history_length())));
    }
    if cfg.max_transmit_size() < 100 {
        bad.push(("build-ok-small-default-transmit-size", format!("default max_transmit_size {}", cfg.max_transmit_size())));
    }
    bad
}

fn ops_json(ops: &[Op]) -> vmon::Value {
    json!(ops.iter().map(|o| o.name()).collect::<Vec<_>>())
}
fn ops_sig(ops: &[Op]) -> u64 {
    let mut s = Sig::new();
    for o in ops {
        s.push_str(&o.name());
    }
    s.0
}

/// evaluate one builder sequence; returns the accepted config
fn builder_case(check: &Check, ops: &[Op]) -> Option<Config> {
    let r = match catch(|| apply(ops)) {
        Err(p) => {
            check.violation(format!("builder-panic@{}", p.site()), p.msg.clone(), json!({"ops": ops_json(ops)}));
            check.case(ops_sig(ops), false);
            return None;
        }
        Ok(r) => r,
    };
    match r {
        Err(e) => {
            check.count("build_rejected", 1);
            check.count(&format!("rejected::{e}"), 1);
            check.case(ops_sig(ops), false);
            None
        }
        Ok(cfg) => {
            check.count("build_accepted", 1);
            for (sig, why) in judge(&cfg, ops) {
                check.count(&format!("violations::{sig}"), 1);
                check.violation(sig, format!("build() returned Ok but {why}"), json!({"ops": ops_json(ops)}));
            }
            check.case(ops_sig(ops), true);
            Some(cfg)
        }
    }
}

fn gen_ops(rng: &mut Rng) -> Vec<Op> {
    let n = 1 + rng.usize(8);
    let sizes = [0usize, 1, 10, 99, 100, 101, 1000, 65536];
    (0..n)
        .map(|_| {
            let v = rng.usize(9);
            let t = rng.usize(2);
            match rng.usize(13) {
                0 => Op::MeshN(v),
                1 => Op::MeshLow(v),
                2 => Op::MeshHigh(v),
                3 => Op::MeshOut(v),
                4 => Op::TMeshN(t, v),
                5 => Op::TMeshLow(t, v),
                6 => Op::TMeshHigh(t, v),
                7 => Op::TMeshOut(t, v),
                8 => Op::HistLen(v),
                9 => Op::HistGossip(v),
                10 => Op::MaxTx(*rng.pick(&sizes)),
                11 => Op::TMaxTx(t, *rng.pick(&sizes)),
                _ => Op::RoundTrip,
            }
        })
        .collect()
}

// -------------------------------------------------------------------------------------------------
// heartbeat half
// -------------------------------------------------------------------------------------------------

struct Rig {
    b: gs::Behaviour,
    peers: Vec<(PeerId, ConnectionId, ConnectedPoint)>,
    next_conn: usize,
}

impl Rig {
    fn add_peer(&mut self, rng: &mut Rng, topics: &[&str], graft: bool, log: &mut Vec<String>) {
        let peer = PeerId::random();
        let conn = ConnectionId::new_unchecked(self.next_conn);
        self.next_conn += 1;
        let addr: Multiaddr = format!("/ip4/10.0.{}.{}/tcp/4001", self.next_conn / 250, self.next_conn % 250).parse().unwrap();
        let outbound = rng.bool();
        let endpoint = if outbound {
            let _ = self.b.handle_established_outbound_connection(conn, peer, &addr, Endpoint::Dialer, PortUse::Reuse);
            ConnectedPoint::Dialer { address: addr, role_override: Endpoint::Dialer, port_use: PortUse::Reuse }
        } else {
            let _ = self.b.handle_established_inbound_connection(conn, peer, &Multiaddr::empty(), &addr);
            ConnectedPoint::Listener { local_addr: Multiaddr::empty(), send_back_addr: addr }
        };
        self.b.on_swarm_event(FromSwarm::ConnectionEstablished(ConnectionEstablished {
            peer_id: peer,
            connection_id: conn,
            endpoint: &endpoint,
            failed_addresses: &[],
            other_established: 0,
        }));
        let kind = *rng.pick(&[PeerKind::Gossipsubv1_1, PeerKind::Gossipsubv1_1, PeerKind::Gossipsubv1_2, PeerKind::Gossipsub, PeerKind::Floodsub]);
        self.b.on_connection_handler_event(peer, conn, HandlerEvent::PeerKind(kind));
        let mut rpc = WireRpc::default();
        for t in topics {
            rpc.subs.push((true, t.to_string()));
        }
        if graft {
            let c = WireControl { graft: topics.iter().map(|t| t.to_string()).collect(), ..Default::default() };
            rpc.control = Some(c.encode());
        }
        if let Some(ev) = handler_event_for(&rpc, ValidationMode::Strict) {
            self.b.on_connection_handler_event(peer, conn, ev);
        }
        log.push(format!("add_peer({},{:?},topics={:?},graft={graft})", if outbound { "out" } else { "in" }, kind, topics));
        self.peers.push((peer, conn, endpoint));
    }
    fn drop_peer(&mut self, rng: &mut Rng, log: &mut Vec<String>) {
        if self.peers.is_empty() {
            return;
        }
        let (peer, conn, endpoint) = self.peers.swap_remove(rng.usize(self.peers.len()));
        self.b.on_swarm_event(FromSwarm::ConnectionClosed(ConnectionClosed {
            peer_id: peer,
            connection_id: conn,
            endpoint: &endpoint,
            cause: None,
            remaining_established: 0,
        }));
        log.push("drop_peer".into());
    }
}

fn pick_topics<'a>(rng: &mut Rng, all: &[&'a str]) -> Vec<&'a str> {
    let v: Vec<&str> = all.iter().copied().filter(|_| rng.chance(3, 4)).collect();
    if v.is_empty() { vec![all[0]] } else { v }
}

/// drive one behaviour; returns (heartbeats survived, Some(panic) if a heartbeat panicked)
fn heartbeat_case(check: &Check, cfg: Config, ops: &[Op], rng: &mut Rng) {
    let all_topics = ["t0", TOPICS[0], TOPICS[1], "fan"];
    let mut log: Vec<String> = vec![];
    let key = Keypair::generate_ed25519();
    let cfg_copy = cfg.clone();
    let built = catch(|| gs::Behaviour::new(MessageAuthenticity::Signed(key), cfg));
    let b: gs::Behaviour = match built {
        Ok(Ok(b)) => b,
        Ok(Err(e)) => {
            check.inconclusive(format!("Behaviour::new refused accepted config: {e}"));
            return;
        }
        Err(p) => {
            check.count("panics_outside_heartbeat", 1);
            check.note("last_panic_outside_heartbeat", json!({"at": p.site(), "msg": p.msg, "ops": ops_json(ops)}));
            return;
        }
    };
    let mut rig = Rig { b, peers: vec![], next_conn: 1 };
    clock::reset();
    let mut heartbeats = 0u32;
    let mut max_mesh = 0usize;
    // setup + 3 heartbeats; only the heartbeat call itself is judged
    let npeers = *rng.pick(&[0usize, 1, 2, 3, 4, 5, 6, 8, 10, 12]);
    let subscribe_first = rng.bool();
    let outcome = catch(|| {
        let sub = |rig: &mut Rig, log: &mut Vec<String>| {
            for t in &all_topics[..3] {
                let _ = rig.b.subscribe(&IdentTopic::new(*t));
                log.push(format!("subscribe({t})"));
            }
        };
        if subscribe_first {
            sub(&mut rig, &mut log);
        }
        for _ in 0..npeers {
            let ts = pick_topics(rng, &all_topics);
            let graft = subscribe_first && rng.chance(2, 3);
            rig.add_peer(rng, &ts, graft, &mut log);
        }
        if !subscribe_first {
            sub(&mut rig, &mut log);
        }
        for round in 0..3 {
            // publish: mesh topic (fills mcache => emit_gossip) and unsubscribed topic (fanout)
            if rng.chance(2, 3) {
                let _ = rig.b.publish(IdentTopic::new(*rng.pick(&all_topics[..3])), vec![round as u8; 8]);
                log.push("publish(mesh-topic)".into());
            }
            if rng.chance(1, 2) {
                let _ = rig.b.publish(IdentTopic::new("fan"), vec![0xfa, round as u8]);
                log.push("publish(fan)".into());
            }
            log.push("heartbeat".into());
            if let Err(p) = catch(|| rig.b.verif_heartbeat()) {
                return Some(p);
            }
            heartbeats += 1;
            for t in &all_topics[..3] {
                max_mesh = max_mesh.max(rig.b.mesh_peers(&IdentTopic::new(*t).hash()).count());
            }
            match rng.usize(4) {
                0 => rig.drop_peer(rng, &mut log),
                1 => {
                    let ts = pick_topics(rng, &all_topics);
                    let graft = rng.bool();
                    rig.add_peer(rng, &ts, graft, &mut log)
                }
                2 => {
                    let _ = rig.b.unsubscribe(&IdentTopic::new(*rng.pick(&all_topics[..3])));
                    log.push("unsubscribe".into());
                }
                _ => {}
            }
            clock::advance(std::time::Duration::from_millis(*rng.pick(&[0u64, 500, 1000, 61_000])));
        }
        None
    });
    clock::reset();
    let mut s = Sig::new().u64(ops_sig(ops));
    for l in &log {
        s.push_str(l);
    }
    match outcome {
        Ok(None) => {
            check.count("heartbeats_survived", heartbeats as u64);
            check.count(&format!("peers::{npeers}"), 1);
            check.distinct("mesh_sizes_seen", max_mesh as u64);
            check.case(s.0, heartbeats == 3);
            if npeers >= 4 && check.want_sample() {
                check.sample(json!({"half": "heartbeat", "ops": ops_json(ops), "driver": log, "max_mesh": max_mesh}));
            }
        }
        Ok(Some(p)) if p.in_repo() => {
            check.count("heartbeat_panics", 1);
            // a panic with a config that satisfies every inequality of the statement is a defect of
            // the heartbeat itself; one with an accepted-but-violating config is the consequence of
            // the builder accepting it: keep the two apart
            let valid = judge(&cfg_copy, ops).is_empty();
            check.violation(
                {
                    // line numbers shift with unrelated edits: key the signature on file + panic message
                    let site = p.site();
                    let file = site.rsplit_once(':').map(|(f, _)| f.to_string()).unwrap_or(site);
                    let msg: String = p.msg.chars().take(48).collect();
                    format!("{}@{}:{}", if valid { "heartbeat-panic-with-valid-config" } else { "heartbeat-panic" }, file, msg)
                },
                format!("heartbeat panicked with an accepted config ({}): {}", if valid { "satisfying the inequalities" } else { "violating the inequalities" }, p.msg),
                json!({"ops": ops_json(ops), "driver": log}),
            );
            check.case(s.0, true);
        }
        Ok(Some(p)) => check.inconclusive(format!("panic outside /repo during heartbeat: {} at {}", p.msg, p.location)),
        Err(p) => {
            // panic in a setup call, not in heartbeat: not judged by this statement
            check.count("panics_outside_heartbeat", 1);
            check.note("last_panic_outside_heartbeat", json!({"at": p.site(), "msg": p.msg, "ops": ops_json(ops), "driver": log}));
            check.case(s.0, false);
        }
    }
}

pub fn run(args: &Args) -> i32 {
    let check = Check::new(
        args,
        "exploration",
        "builder half: a case is a ConfigBuilder call sequence (exhaustive 9^4 mesh values x {default, per-topic, per-topic+size entry}; \
         all history pairs; transmit sizes around 100; PRNG mixed sequences); non-trivial = build() returned Ok; distinct by call sequence. \
         heartbeat half: accepted config x synthetic peer set x driver script; non-trivial = all 3 heartbeats ran (or one panicked); distinct by (sequence, driver log)",
    );
    // accepted configs; kept apart by whether they satisfy the statement's inequalities, so that the
    // heartbeat half always spends most of its budget on configs that *should* be safe
    let mut accepted: Vec<(Vec<Op>, Config)> = vec![];
    // (A)
    for n in 0..=8usize {
        for l in 0..=8usize {
            for h in 0..=8usize {
                for o in 0..=8usize {
                    let variants: [Vec<Op>; 3] = [
                        vec![Op::MeshN(n), Op::MeshLow(l), Op::MeshHigh(h), Op::MeshOut(o)],
                        vec![Op::TMeshN(0, n), Op::TMeshLow(0, l), Op::TMeshHigh(0, h), Op::TMeshOut(0, o)],
                        vec![Op::TMaxTx(0, 65536), Op::TMeshN(0, n), Op::TMeshLow(0, l), Op::TMeshHigh(0, h), Op::TMeshOut(0, o)],
                    ];
                    for ops in variants {
                        if let Some(cfg) = builder_case(&check, &ops) {
                            accepted.push((ops, cfg));
                        }
                    }
                }
            }
        }
    }
    // (B)
    for len in 0..=8usize {
        for g in 0..=8usize {
            let ops = vec![Op::HistLen(len), Op::HistGossip(g)];
            if let Some(cfg) = builder_case(&check, &ops) {
                accepted.push((ops, cfg));
            }
        }
    }
    let sizes = [0usize, 1, 10, 99, 100, 101, 1000, 65536];
    for d in sizes {
        builder_case(&check, &[Op::MaxTx(d)]);
        for t in sizes {
            builder_case(&check, &[Op::MaxTx(d), Op::TMaxTx(1, t)]);
            builder_case(&check, &[Op::TMaxTx(1, t), Op::MaxTx(d)]);
        }
    }
    // (C)
    let nseq = args.tier.pick(20_000u64, 4_000_000);
    let acc_c = std::sync::Mutex::new(vec![]);
    let keep_one_in = args.tier.pick(8u64, 64);
    vmon::par_cases(&check, nseq, args.threads, |_, rng| {
        let ops = gen_ops(rng);
        if let Some(cfg) = builder_case(&check, &ops) {
            if rng.chance(1, keep_one_in) {
                acc_c.lock().unwrap().push((ops.clone(), cfg));
            }
            if check.want_sample() && ops.len() >= 4 {
                check.sample(json!({"half": "builder", "ops": ops_json(&ops), "build": "Ok"}));
            }
        }
    });
    accepted.extend(acc_c.into_inner().unwrap());
    check.note("accepted_pool", json!(accepted.len()));
    check.note("exhaustive", json!(false));
    check.note("exhaustive_detail", json!({"mesh_params_0_8_pow4_x3": true, "history_pairs_0_8": true, "prng_sequences": false, "heartbeat_half": false}));

    // heartbeat half: PRNG sample of the accepted pool
    let nhb = args.tier.pick(6_000u64, 1_500_000);
    if accepted.is_empty() {
        check.inconclusive("no accepted config to drive heartbeats with");
    } else {
        let (good, bad): (Vec<_>, Vec<_>) = accepted.iter().partition(|(ops, cfg)| judge(cfg, ops).is_empty());
        check.note("accepted_pool_satisfying_inequalities", json!(good.len()));
        check.note("accepted_pool_violating_inequalities", json!(bad.len()));
        vmon::par_cases(&check, nhb, args.threads, |_, rng| {
            let pool = if bad.is_empty() || (!good.is_empty() && rng.chance(3, 4)) { &good } else { &bad };
            let (ops, cfg) = pool[rng.usize(pool.len())];
            heartbeat_case(&check, cfg.clone(), ops, rng);
            check.count("heartbeat_cases", 1);
        });
    }
    check.finish()
}
