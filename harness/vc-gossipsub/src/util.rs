//! Helpers shared by the gossipsub checks: hand-written wire encodings (via `vmon::pb`, independent
//! of the prost types of the crate under test) and small adapters around the verif facade.
#![allow(dead_code)]
use libp2p_gossipsub::{
    ValidationMode,
    verif::{CodecParams, ControlAction, HandlerEvent},
};
use vmon::pb::{self, Msg};

/// gossipsub `Message` as sent on the wire; every field optional so that removed / empty / odd
/// fields can be expressed. Field numbers from rpc.proto: from=1 data=2 seqno=3 topic=4
/// signature=5 key=6.
#[derive(Clone, Debug, PartialEq, Eq, Default)]
pub struct WireMsg {
    pub from: Option<Vec<u8>>,
    pub data: Option<Vec<u8>>,
    pub seqno: Option<Vec<u8>>,
    pub topic: Option<String>,
    pub signature: Option<Vec<u8>>,
    pub key: Option<Vec<u8>>,
}

impl WireMsg {
    pub fn encode(&self) -> Vec<u8> {
        let mut m = Msg::new();
        m = m.opt_bytes(1, self.from.as_deref());
        m = m.opt_bytes(2, self.data.as_deref());
        m = m.opt_bytes(3, self.seqno.as_deref());
        m = m.opt_bytes(4, self.topic.as_ref().map(|s| s.as_bytes()));
        m = m.opt_bytes(5, self.signature.as_deref());
        m = m.opt_bytes(6, self.key.as_deref());
        m.encode()
    }
    /// The bytes a publisher signs per the pubsub spec: prefix ‖ marshal(message without signature
    /// and key). `topic` is a required field and therefore always marshalled.
    pub fn signing_bytes(&self) -> Vec<u8> {
        let mut m = Msg::new();
        m = m.opt_bytes(1, self.from.as_deref());
        m = m.opt_bytes(2, self.data.as_deref());
        m = m.opt_bytes(3, self.seqno.as_deref());
        m = m.bytes(4, self.topic.clone().unwrap_or_default().as_bytes());
        let mut out = b"libp2p-pubsub:".to_vec();
        out.extend(m.encode());
        out
    }
    pub fn json(&self) -> vmon::Value {
        vmon::json!({
            "from": self.from.as_ref().map(|b| vmon::hex(b)),
            "data": self.data.as_ref().map(|b| vmon::hex(b)),
            "seqno": self.seqno.as_ref().map(|b| vmon::hex(b)),
            "topic": self.topic,
            "signature": self.signature.as_ref().map(|b| vmon::hex(b)),
            "key": self.key.as_ref().map(|b| vmon::hex(b)),
        })
    }
}

/// RPC { subscriptions = 1, publish = 2, control = 3 }
#[derive(Clone, Debug, Default)]
pub struct WireRpc {
    /// (subscribe, topic)
    pub subs: Vec<(bool, String)>,
    pub publish: Vec<Vec<u8>>,
    /// encoded ControlMessage, if any
    pub control: Option<Vec<u8>>,
}

impl WireRpc {
    pub fn encode(&self) -> Vec<u8> {
        let mut m = Msg::new();
        for (s, t) in &self.subs {
            m = m.msg(1, &Msg::new().varint(1, *s as u64).bytes(2, t.as_bytes()));
        }
        for p in &self.publish {
            m = m.bytes(2, p);
        }
        if let Some(c) = &self.control {
            m = m.bytes(3, c);
        }
        m.encode()
    }
    pub fn frame(&self) -> Vec<u8> {
        pb::frame(&self.encode())
    }
}

/// ControlMessage { ihave=1 {topic=1, ids=2*}, iwant=2 {ids=1*}, graft=3 {topic=1},
/// prune=4 {topic=1, backoff=3}, idontwant=5 {ids=1*} }
#[derive(Clone, Debug, Default)]
pub struct WireControl {
    pub ihave: Vec<(String, Vec<Vec<u8>>)>,
    pub iwant: Vec<Vec<Vec<u8>>>,
    pub graft: Vec<String>,
    pub prune: Vec<(String, Option<u64>)>,
    pub idontwant: Vec<Vec<Vec<u8>>>,
}
impl WireControl {
    pub fn encode(&self) -> Vec<u8> {
        let mut m = Msg::new();
        for (t, ids) in &self.ihave {
            let mut x = Msg::new().bytes(1, t.as_bytes());
            for id in ids {
                x = x.bytes(2, id);
            }
            m = m.msg(1, &x);
        }
        for ids in &self.iwant {
            let mut x = Msg::new();
            for id in ids {
                x = x.bytes(1, id);
            }
            m = m.msg(2, &x);
        }
        for t in &self.graft {
            m = m.msg(3, &Msg::new().bytes(1, t.as_bytes()));
        }
        for (t, b) in &self.prune {
            let mut x = Msg::new().bytes(1, t.as_bytes());
            if let Some(b) = b {
                x = x.varint(3, *b);
            }
            m = m.msg(4, &x);
        }
        for ids in &self.idontwant {
            let mut x = Msg::new();
            for id in ids {
                x = x.bytes(1, id);
            }
            m = m.msg(5, &x);
        }
        m.encode()
    }
    pub fn count(&self) -> usize {
        self.ihave.len() + self.iwant.len() + self.graft.len() + self.prune.len() + self.idontwant.len()
    }
}

pub fn params(max: usize, mode: ValidationMode) -> CodecParams {
    CodecParams {
        max_transmit_size: max,
        validation_mode: mode,
        max_transmit_sizes: Default::default(),
        max_publish_messages: 5000,
        max_control_message_size: 16384,
    }
}

pub fn mode_name(m: &ValidationMode) -> &'static str {
    match m {
        ValidationMode::Strict => "strict",
        ValidationMode::Permissive => "permissive",
        ValidationMode::Anonymous => "anonymous",
        ValidationMode::None => "none",
    }
}

/// (ihave, iwant, graft, prune, idontwant, extensions-some) counts of a decoded control list
pub fn control_counts(c: &[ControlAction]) -> [usize; 6] {
    let mut n = [0usize; 6];
    for a in c {
        match a {
            ControlAction::IHave(_) => n[0] += 1,
            ControlAction::IWant(_) => n[1] += 1,
            ControlAction::Graft(_) => n[2] += 1,
            ControlAction::Prune(_) => n[3] += 1,
            ControlAction::IDontWant(_) => n[4] += 1,
            ControlAction::Extensions(e) => {
                if e.is_some() {
                    n[5] += 1
                }
            }
        }
    }
    n
}

/// Decode one framed RPC with generous limits and return the resulting handler event (used to
/// inject subscriptions / control into a behaviour through its public trait method).
pub fn handler_event_for(rpc: &WireRpc, mode: ValidationMode) -> Option<HandlerEvent> {
    let p = params(1 << 20, mode);
    let mut d = libp2p_gossipsub::verif::decode_rpcs(&p, &[rpc.frame()]);
    if d.error.is_some() || d.events.len() != 1 {
        return None;
    }
    d.events.pop()
}

/// panic location for signatures: repo-relative for /repo files, `<crate-version>/src/..` for
/// registry dependencies (the registry directory name is machine specific)
pub fn short_site(p: &vmon::PanicInfo) -> String {
    if p.in_repo() {
        return p.site();
    }
    match p.location.find("/registry/src/") {
        Some(i) => {
            let rest = &p.location[i + "/registry/src/".len()..];
            rest.split_once('/').map(|(_, r)| r.to_string()).unwrap_or_else(|| rest.to_string())
        }
        None => p.location.clone(),
    }
}
