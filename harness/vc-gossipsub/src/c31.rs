//! C31 — RPC size limits are applied per frame, however the byte stream is chunked.
//!
//! Observed at: the real `GossipsubCodec` inside `FramedRead` (hook `verif::decode_rpcs`) reading a
//! byte stream that the harness cuts into chunks (each chunk = one `poll_read`).
//!
//! Inputs: streams of 1..=4 (thorough 6) hand-encoded RPC frames (publish entries carrying unique
//! tags, subscriptions, IHAVE/IWANT/GRAFT/PRUNE/IDONTWANT) whose protobuf length L is steered to
//! max-2..=max+2 or far below, with publish counts at/around `max_publish_messages` and control
//! bytes at/around `max_control_message_size`; max_transmit_size in {100..5000}.
//! Chunkings: every 2-split of every 2-frame stream (exhaustive), plus one-chunk, frame-aligned,
//! byte-by-byte, and PRNG cut sets.
//!
//! Oracle (reference walk over the frames written from the statement):
//!   within(i) := L_i <= max_transmit_size && #publish_i <= max_publish && ctrl_i <= max_control
//!   (ctrl_i = bytes of the RPC's `subscriptions` and `control` fields incl. their tag/length, the
//!   largest reasonable reading, so that "within" is never over-claimed);
//!   every frame before the first non-within frame must be yielded, in order, with the publish tags
//!   / subscription count / control counts that were sent; if that first non-within frame has
//!   L > max it must not be yielded and the stream must end in an error. Frames that only exceed
//!   the publish/control limits, and everything after the first non-within frame, are not judged
//!   (the statement demands rejection only for L > max_transmit_size).
//!
//! Signatures. A within-limits frame that is not yielded is classified with a *model of the
//! suspected defect* (DESIGN §7: limit compared with the whole read buffer): the harness replays
//! the chunking and computes how many bytes were buffered from the start of that frame at each
//! decode attempt. `rpc-within-max-rejected:frame-plus-prefix-exceeds-max` (L <= max < L+prefix),
//! `rpc-within-max-rejected:buffered-bytes-exceed-max` (following frames coalesced into the buffer)
//! or `rpc-within-limits-rejected:unexplained` (anything else, i.e. a different defect).
use libp2p_gossipsub::{
    ValidationMode,
    verif::{CodecParams, HandlerEvent, decode_rpcs},
};
use vmon::{Args, Check, Rng, Sig, catch, json, pb};

use crate::util::{WireControl, WireMsg, WireRpc, control_counts};

#[derive(Clone, Debug)]
struct Frame {
    body: Vec<u8>,
    tags: Vec<Vec<u8>>,
    subs: usize,
    /// ihave, iwant, graft, prune, idontwant
    ctrl_counts: [usize; 5],
    ctrl_bytes: usize,
}

impl Frame {
    fn len(&self) -> usize {
        self.body.len()
    }
    fn prefix(&self) -> usize {
        pb::uvarint(self.body.len() as u64).len()
    }
    fn wire(&self) -> Vec<u8> {
        pb::frame(&self.body)
    }
}

/// bytes of top-level fields 1 (subscriptions) and 3 (control) including key and length
fn ctrl_bytes_of(rpc: &WireRpc) -> usize {
    let mut n = 0;
    for (s, t) in &rpc.subs {
        let inner = pb::Msg::new().varint(1, *s as u64).bytes(2, t.as_bytes()).encode();
        n += 1 + pb::uvarint(inner.len() as u64).len() + inner.len();
    }
    if let Some(c) = &rpc.control {
        n += 1 + pb::uvarint(c.len() as u64).len() + c.len();
    }
    n
}

fn mk_frame(rpc: &WireRpc, tags: Vec<Vec<u8>>, ctrl: &WireControl) -> Frame {
    Frame {
        body: rpc.encode(),
        tags,
        subs: rpc.subs.len(),
        ctrl_counts: [ctrl.ihave.len(), ctrl.iwant.len(), ctrl.graft.len(), ctrl.prune.len(), ctrl.idontwant.len()],
        ctrl_bytes: ctrl_bytes_of(rpc),
    }
}

/// Build an RPC with `npub` tagged publish entries (+ optional subs/control) whose encoding is
/// exactly `target` bytes if reachable (padding the last publish entry / a subscription topic),
/// otherwise the closest reachable size below.
fn build_frame(rng: &mut Rng, id: u32, target: usize, npub: usize, nsubs: usize, ctrl: &WireControl) -> Frame {
    let mut best: Option<Frame> = None;
    let topic = "t";
    for extra in 0..4usize {
        // binary-free linear search on the pad: sizes are small (<= ~6 KiB)
        let mut lo = 0usize;
        let mut hi = target + 8;
        while lo <= hi {
            let pad = (lo + hi) / 2;
            let mut rpc = WireRpc::default();
            for s in 0..nsubs {
                rpc.subs.push((s % 2 == 0, format!("s{s}")));
            }
            let mut tags = vec![];
            for k in 0..npub {
                let mut data = format!("#{id}.{k}#").into_bytes();
                if k + 1 == npub {
                    data.extend(std::iter::repeat_n(b'.', pad));
                }
                let t = if k + 1 == npub { format!("{topic}{}", "x".repeat(extra)) } else { topic.to_string() };
                tags.push(data.clone());
                rpc.publish.push(WireMsg { data: Some(data), topic: Some(t), ..Default::default() }.encode());
            }
            if npub == 0 {
                // pad through a subscription topic instead
                rpc.subs.push((true, format!("p{}{}", "x".repeat(extra), "y".repeat(pad))));
            }
            if ctrl.count() > 0 {
                rpc.control = Some(ctrl.encode());
            }
            let f = mk_frame(&rpc, tags, ctrl);
            let mut f = f;
            f.subs = rpc.subs.len();
            let l = f.len();
            if l == target {
                return f;
            }
            if l < target {
                if best.as_ref().is_none_or(|b| b.len() < l) {
                    best = Some(f);
                }
                lo = pad + 1;
            } else {
                if pad == 0 {
                    break;
                }
                hi = pad - 1;
            }
        }
    }
    let _ = rng;
    best.unwrap_or_else(|| mk_frame(&WireRpc::default(), vec![], &WireControl::default()))
}

fn gen_control(rng: &mut Rng, budget: usize) -> WireControl {
    let mut c = WireControl::default();
    let n = rng.usize(4);
    for i in 0..n {
        match rng.usize(5) {
            0 => c.ihave.push((format!("t{i}"), (0..rng.usize(3)).map(|j| vec![i as u8, j as u8]).collect())),
            1 => c.iwant.push((0..1 + rng.usize(3)).map(|j| vec![0xaa, j as u8]).collect()),
            2 => c.graft.push(format!("t{i}")),
            3 => c.prune.push((format!("t{i}"), if rng.bool() { Some(rng.range(0, 120)) } else { None })),
            _ => c.idontwant.push((0..1 + rng.usize(2)).map(|j| vec![0xdd, j as u8]).collect()),
        }
    }
    if c.encode().len() + 4 > budget {
        return WireControl::default();
    }
    c
}

#[derive(Clone, Debug)]
struct Limits {
    max: usize,
    max_publish: usize,
    max_control: usize,
}

fn within(l: &Limits, f: &Frame) -> bool {
    f.len() <= l.max && f.tags.len() <= l.max_publish && f.ctrl_bytes <= l.max_control
}

/// read ends (absolute stream offsets) produced by the chunk list, as `FramedRead` sees them
/// (a chunk larger than its 8 KiB scratch buffer arrives in several reads)
fn read_ends(chunks: &[Vec<u8>]) -> Vec<usize> {
    let mut ends = vec![];
    let mut off = 0;
    for c in chunks {
        let mut rest = c.len();
        while rest > 0 {
            let n = rest.min(8192);
            off += n;
            rest -= n;
            ends.push(off);
        }
    }
    ends
}

/// Model of the suspected defect only (used to *name* a violation, never to decide one): max bytes
/// buffered from the start of frame `i` at any decode attempt while frame `i` is at the buffer head.
fn max_buffered_at_head(frames: &[Frame], chunks: &[Vec<u8>], i: usize) -> usize {
    let mut start = vec![0usize];
    for f in frames {
        start.push(start.last().unwrap() + f.prefix() + f.len());
    }
    let s = start[i];
    let e = start[i + 1];
    let ends = read_ends(chunks);
    // the read during which the previous frame completed (or the first read)
    let prev_done = if i == 0 { 0 } else { *ends.iter().find(|r| **r >= s).unwrap_or(&s) };
    let mut max = 0;
    for r in ends {
        if r < prev_done.max(s + 1) {
            continue;
        }
        max = max.max(r - s);
        if r >= e {
            break;
        }
    }
    max
}

struct Verdict {
    sig: String,
    what: String,
}

fn judge(l: &Limits, frames: &[Frame], chunks: &[Vec<u8>], events: &[HandlerEvent], error: &Option<String>) -> (Vec<Verdict>, usize) {
    let mut bad = vec![];
    let first_out = frames.iter().position(|f| !within(l, f)).unwrap_or(frames.len());
    // content of yielded events against frames, in order, for the judged prefix
    for (i, f) in frames.iter().enumerate().take(first_out) {
        match events.get(i) {
            Some(HandlerEvent::Message { rpc, invalid_messages }) => {
                let got: Vec<Vec<u8>> = rpc.messages.iter().map(|m| m.data.clone()).collect();
                let cc = control_counts(&rpc.control_msgs);
                if got != f.tags || !invalid_messages.is_empty() || rpc.subscriptions.len() != f.subs || cc[..5] != f.ctrl_counts {
                    bad.push(Verdict {
                        sig: "rpc-content-mismatch".into(),
                        what: format!("frame {i}: yielded {} publish / {} subs / control {:?}, sent {} / {} / {:?}", got.len(), rpc.subscriptions.len(), &cc[..5], f.tags.len(), f.subs, f.ctrl_counts),
                    });
                }
            }
            Some(_) => bad.push(Verdict { sig: "rpc-content-mismatch".into(), what: format!("frame {i}: yielded a non-message event") }),
            None => {
                let buffered = max_buffered_at_head(frames, chunks, i);
                let sig = if f.len() + f.prefix() > l.max {
                    "rpc-within-max-rejected:frame-plus-prefix-exceeds-max"
                } else if buffered > l.max {
                    "rpc-within-max-rejected:buffered-bytes-exceed-max"
                } else {
                    "rpc-within-limits-rejected:unexplained"
                };
                bad.push(Verdict {
                    sig: sig.into(),
                    what: format!(
                        "frame {i} (L={} <= max={}, publish {} <= {}, control bytes {} <= {}) was not yielded; {} events, error {:?}; up to {buffered} bytes were buffered behind its start",
                        f.len(), l.max, f.tags.len(), l.max_publish, f.ctrl_bytes, l.max_control, events.len(), error
                    ),
                });
                break;
            }
        }
    }
    if first_out < frames.len() && frames[first_out].len() > l.max && bad.is_empty() {
        if events.len() > first_out {
            bad.push(Verdict { sig: "oversize-rpc-accepted".into(), what: format!("frame {first_out} has L={} > max={} but was yielded", frames[first_out].len(), l.max) });
        } else if error.is_none() {
            bad.push(Verdict { sig: "oversize-rpc-no-error".into(), what: format!("frame {first_out} has L={} > max={}; stream ended without error", frames[first_out].len(), l.max) });
        }
    }
    (bad, first_out)
}

fn cut(stream: &[u8], cuts: &[usize]) -> Vec<Vec<u8>> {
    let mut out = vec![];
    let mut prev = 0;
    for c in cuts {
        if *c > prev && *c < stream.len() {
            out.push(stream[prev..*c].to_vec());
            prev = *c;
        }
    }
    out.push(stream[prev..].to_vec());
    out
}

fn gen_limits(rng: &mut Rng) -> Limits {
    Limits {
        max: *rng.pick(&[100usize, 127, 128, 129, 200, 300, 1000, 5000]),
        max_publish: *rng.pick(&[1usize, 2, 3, 10, 5000]),
        max_control: *rng.pick(&[40usize, 100, 16384, 16384]),
    }
}

fn gen_frame(rng: &mut Rng, l: &Limits, id: u32, may_exceed: bool) -> Frame {
    // size class
    let target = match rng.usize(10) {
        0..=3 => l.max - rng.usize(3),                               // max-2..=max
        4 if may_exceed => l.max + 1 + rng.usize(2),                 // max+1, max+2
        5 => l.max / 2 + rng.usize(5),                               // half
        6 => l.max - l.max.min(3 + rng.usize(8)),                    // a few bytes of room
        _ => 8 + rng.usize((l.max / 3).max(9) - 8),                  // small
    };
    // publish count around the limit
    let npub = match rng.usize(6) {
        0 if l.max_publish <= 10 => l.max_publish,
        1 if l.max_publish <= 10 && may_exceed => l.max_publish + 1,
        2 => 0,
        _ => 1 + rng.usize(l.max_publish.min(3)),
    };
    let npub = npub.min(target / 12);
    let nsubs = if rng.chance(1, 3) { 1 + rng.usize(2) } else { 0 };
    let ctrl = if rng.chance(1, 2) { gen_control(rng, l.max_control.min(target / 2)) } else { WireControl::default() };
    build_frame(rng, id, target, npub, nsubs, &ctrl)
}

fn run_stream(check: &Check, l: &Limits, frames: &[Frame], chunks: &[Vec<u8>], family: &str) {
    let p = CodecParams {
        max_transmit_size: l.max,
        validation_mode: ValidationMode::None,
        max_transmit_sizes: Default::default(),
        max_publish_messages: l.max_publish,
        max_control_message_size: l.max_control,
    };
    let witness = || {
        json!({
            "max_transmit_size": l.max, "max_publish_messages": l.max_publish, "max_control_message_size": l.max_control,
            "frames_hex": frames.iter().map(|f| vmon::hex(&f.wire())).collect::<Vec<_>>(),
            "frame_lens": frames.iter().map(|f| f.len()).collect::<Vec<_>>(),
            "chunk_lens": chunks.iter().map(|c| c.len()).collect::<Vec<_>>(),
            "family": family,
        })
    };
    let mut s = Sig::new().u64(l.max as u64).u64(l.max_publish as u64).u64(l.max_control as u64);
    for f in frames {
        s.push_u64(f.len() as u64);
        s.push_u64(f.tags.len() as u64);
        s.push_u64(f.ctrl_bytes as u64);
    }
    for c in chunks {
        s.push_u64(c.len() as u64);
    }
    match catch(|| decode_rpcs(&p, chunks)) {
        Err(pn) => {
            check.violation(format!("panic@{}", crate::util::short_site(&pn)), pn.msg.clone(), witness());
            check.case(s.0, true);
        }
        Ok(d) => {
            let (bad, first_out) = judge(l, frames, chunks, &d.events, &d.error);
            for v in &bad {
                check.count(&format!("violations::{}", v.sig), 1);
                check.violation(v.sig.clone(), v.what.clone(), witness());
            }
            let near = frames.iter().any(|f| f.len().abs_diff(l.max) <= 2);
            check.case(s.0, frames.len() >= 2 || near);
            check.count(&format!("chunking::{family}"), 1);
            check.count("frames_sent", frames.len() as u64);
            check.count("frames_yielded", d.events.len() as u64);
            check.count("frames_judged_must_accept", first_out as u64);
            if d.error.is_some() {
                check.count("streams_ending_in_error", 1);
            }
            for f in frames {
                let dlt = f.len() as i64 - l.max as i64;
                if (-2..=2).contains(&dlt) {
                    check.count(&format!("len_minus_max::{dlt:+}"), 1);
                }
                if f.tags.len() == l.max_publish {
                    check.count("frames_at_publish_limit", 1);
                }
                if f.ctrl_bytes > 0 && l.max_control - f.ctrl_bytes.min(l.max_control) <= 4 {
                    check.count("frames_near_control_limit", 1);
                }
            }
            if check.want_sample() && frames.len() >= 2 && chunks.len() >= 2 && bad.is_empty() {
                check.sample(json!({"limits": {"max": l.max, "publish": l.max_publish, "control": l.max_control},
                    "frame_lens": frames.iter().map(|f| f.len()).collect::<Vec<_>>(), "chunk_lens": chunks.iter().map(|c| c.len()).collect::<Vec<_>>(),
                    "family": family, "yielded": d.events.len(), "error": d.error}));
            }
        }
    }
}

/// frame whose control bytes sit exactly at / just below the control limit
fn control_limit_frame(rng: &mut Rng, l: &Limits, id: u32) -> Option<Frame> {
    if l.max_control > l.max.saturating_sub(4) {
        return None;
    }
    // one IHAVE whose topic is padded until subscriptions+control bytes == max_control - d
    let d = rng.usize(2);
    for pad in 0..l.max_control {
        let ctrl = WireControl { ihave: vec![("i".repeat(pad + 1), vec![vec![id as u8]])], ..Default::default() };
        let rpc = WireRpc { control: Some(ctrl.encode()), ..Default::default() };
        let cb = ctrl_bytes_of(&rpc);
        if cb == l.max_control - d {
            return Some(mk_frame(&rpc, vec![], &ctrl));
        }
        if cb > l.max_control {
            break;
        }
    }
    None
}

pub fn run(args: &Args) -> i32 {
    let check = Check::new(
        args,
        "exploration",
        "a case = (limits, stream of hand-encoded RPC frames with lengths steered around max_transmit_size / publish count / control bytes, one chunking of the byte stream); \
         non-trivial = stream with >= 2 frames or a frame within 2 bytes of max_transmit_size; distinct by (limits, frame lengths/counts, chunk lengths)",
    );
    let ncases = args.tier.pick(1_500u64, 200_000);
    let max_frames = args.tier.pick(4usize, 6);
    vmon::par_cases(&check, ncases, args.threads, |i, rng| {
        let l = gen_limits(rng);
        if i % 3 == 0 {
            // exhaustive 2-splits of a 2-frame stream (small max only, to bound the work)
            let l = Limits { max: *rng.pick(&[100usize, 127, 128, 129, 200, 300]), ..l };
            let mut frames = vec![gen_frame(rng, &l, 0, false)];
            if let (true, Some(f)) = (rng.chance(1, 4), control_limit_frame(rng, &l, 1)) {
                frames.push(f);
            } else {
                frames.push(gen_frame(rng, &l, 1, true));
            }
            let stream: Vec<u8> = frames.iter().flat_map(|f| f.wire()).collect();
            for at in 0..=stream.len() {
                let chunks = cut(&stream, &[at]);
                run_stream(&check, &l, &frames, &chunks, "exhaustive-2-split");
            }
            check.count("streams_with_all_2_splits", 1);
            return;
        }
        let k = 1 + rng.usize(max_frames);
        let mut frames = vec![];
        for j in 0..k {
            let last = j + 1 == k;
            if rng.chance(1, 10) {
                if let Some(f) = control_limit_frame(rng, &l, j as u32) {
                    frames.push(f);
                    continue;
                }
            }
            frames.push(gen_frame(rng, &l, j as u32, last));
        }
        let stream: Vec<u8> = frames.iter().flat_map(|f| f.wire()).collect();
        // chunking families
        run_stream(&check, &l, &frames, &[stream.clone()], "one-chunk");
        let aligned: Vec<Vec<u8>> = frames.iter().map(|f| f.wire()).collect();
        run_stream(&check, &l, &frames, &aligned, "frame-aligned");
        if stream.len() <= 700 {
            let bytes: Vec<Vec<u8>> = stream.iter().map(|b| vec![*b]).collect();
            run_stream(&check, &l, &frames, &bytes, "byte-by-byte");
        }
        for _ in 0..4 {
            let ncuts = 1 + rng.usize(6);
            let mut cuts: Vec<usize> = (0..ncuts).map(|_| rng.usize(stream.len() + 1)).collect();
            cuts.sort();
            run_stream(&check, &l, &frames, &cut(&stream, &cuts), "prng-cuts");
        }
        // prefix split: cut inside the length prefix of the 2nd frame and right after it
        if frames.len() >= 2 {
            let s1 = frames[0].prefix() + frames[0].len();
            run_stream(&check, &l, &frames, &cut(&stream, &[s1, s1 + 1]), "cut-at-frame-boundary");
        }
    });
    check.note("exhaustive", json!(false));
    check.note("exhaustive_detail", json!({"two_splits_of_two_frame_streams": true, "general_chunkings": false}));
    check.finish()
}
