//! C30 — messages surfaced as valid satisfy the validation mode; any mutation of a signed message's
//! fields is invalid in Strict mode.
//!
//! Observed at: the real `GossipsubCodec` inside `FramedRead` (hook `verif::decode_rpcs`), one RPC
//! with one publish entry per evaluation, under each of Strict / Permissive / Anonymous / None.
//!
//! Inputs: messages are built and signed *in the harness* (mini protobuf encoder, signing bytes =
//! "libp2p-pubsub:" ‖ marshal(from,data,seqno,topic) as the pubsub spec says) for all four key types
//! (ed25519 and secp256k1: key inlined in the peer id; ecdsa and rsa: `key` field required), with
//! data absent / empty / non-empty, seqno lengths 0 and 8, inlined keys with and without a
//! redundant correct `key` field. Every base message is then mutated field by field: from (flip,
//! remove, empty, truncated, other peer, other peer + re-signed with the own key), data (flip, append, remove/empty), seqno (flip, remove,
//! lengths 0/7/9, other), topic (change, empty, append), signature (flip at sampled positions,
//! remove, empty, truncated, other message's, other key's), key (flip, remove, garbage, other
//! peer's key). Unsigned shapes (anonymous, author-only, seqno-only, signature-only) are sent too.
//!
//! Oracle (independent re-verification; `libp2p_identity` is used only as the signature primitive):
//!  * Strict: Valid => source present and equal to `from`, and some key K (decoded `key` field or
//!    key inlined in `from`) has peer_id(K)==from and verifies the signature over exactly the
//!    from/data/seqno/topic that were surfaced; a *mutated* signed message must not be Valid.
//!  * Anonymous: Valid => the message carried no (non-empty) from / seqno / signature and the
//!    surfaced source / sequence_number / signature are None.
//!  * Permissive: Valid => signature present => authentic as above; seqno present => length 0 or 8;
//!    from present and non-empty => parses as a peer id.
//!  * None: nothing judged beyond "no panic".
//!  * every mode: surfaced data/topic equal what was sent; no panic.
//! Not judged: whether well-formed messages are accepted (the statement is about soundness; it is
//! the non-triviality rule instead), present-but-empty from/seqno/signature in Anonymous mode,
//! ECDSA (r, n-s) malleability (not generated), unknown protobuf fields, `key` bytes that differ from
//! the original but decode to the same public key (lenient DER; counted as `equivalent-key-encoding`).
use std::sync::OnceLock;

use libp2p_gossipsub::{
    RawMessage, ValidationError, ValidationMode,
    verif::{HandlerEvent, decode_rpcs},
};
use libp2p_identity::{Keypair, PeerId, PublicKey};
use vmon::{Args, Check, Rng, Sig, catch, json};

use crate::util::{WireMsg, WireRpc, mode_name, params};

const KEY_TYPES: [&str; 4] = ["ed25519", "secp256k1", "ecdsa", "rsa"];

struct Keys {
    /// [type][i]
    pool: Vec<Vec<Keypair>>,
}

fn keys(seed: u64) -> &'static Keys {
    static K: OnceLock<Keys> = OnceLock::new();
    K.get_or_init(|| {
        let mut rng = Rng::new(seed ^ 0xC30);
        let mut pool = vec![vec![], vec![], vec![], vec![]];
        for _ in 0..3 {
            pool[0].push(Keypair::ed25519_from_bytes(rng.bytes(32)).expect("ed25519 seed"));
            loop {
                if let Ok(sk) = libp2p_identity::secp256k1::SecretKey::try_from_bytes(rng.bytes(32)) {
                    pool[1].push(Keypair::from(libp2p_identity::secp256k1::Keypair::from(sk)));
                    break;
                }
            }
            loop {
                if let Ok(sk) = libp2p_identity::ecdsa::SecretKey::try_from_bytes(rng.bytes(32)) {
                    pool[2].push(Keypair::from(libp2p_identity::ecdsa::Keypair::from(sk)));
                    break;
                }
            }
        }
        let mut a = include_bytes!("/repo/identity/src/test/rsa-2048.pk8").to_vec();
        let mut b = include_bytes!("/repo/identity/src/test/rsa-3072.pk8").to_vec();
        pool[3].push(Keypair::rsa_from_pkcs8(&mut a).expect("rsa-2048 test key"));
        pool[3].push(Keypair::rsa_from_pkcs8(&mut b).expect("rsa-3072 test key"));
        Keys { pool }
    })
}

fn inlined(kt: usize) -> bool {
    kt < 2
}

#[derive(Clone, Copy, PartialEq, Eq, Debug)]
enum Kind {
    /// well-formed signed message (possibly with a redundant correct key field)
    SignedBase,
    /// field-level mutation of a signed base; (field, how)
    Mutation(&'static str, &'static str),
    /// message that never was signed (shape name)
    Unsigned(&'static str),
    /// `key` bytes changed but still decode to the same public key: sent and judged like a base
    /// message, not counted as a mutation
    EquivalentKeyEncoding,
}
impl Kind {
    fn name(&self) -> String {
        match self {
            Kind::SignedBase => "signed-base".into(),
            Kind::Mutation(f, h) => format!("mut-{f}-{h}"),
            Kind::Unsigned(s) => format!("unsigned-{s}"),
            Kind::EquivalentKeyEncoding => "equivalent-key-encoding".into(),
        }
    }
}

fn sign(kp: &Keypair, w: &mut WireMsg) {
    w.signature = Some(kp.sign(&w.signing_bytes()).expect("signing"));
}

fn flip(b: &[u8], at: usize, mask: u8) -> Vec<u8> {
    let mut v = b.to_vec();
    if !v.is_empty() {
        let i = at % v.len();
        v[i] ^= mask;
    }
    v
}

/// reference: is there a key K (from the key field or inlined in `from`) with peer_id(K)==from that
/// verifies `signature` over the signing bytes of exactly these from/data/seqno/topic
fn ref_authentic(w: &WireMsg) -> bool {
    let Some(from) = w.from.as_ref() else { return false };
    let Ok(source) = PeerId::from_bytes(from) else { return false };
    let Some(sig) = w.signature.as_ref() else { return false };
    let mut candidates: Vec<PublicKey> = vec![];
    if let Some(k) = w.key.as_ref() {
        if let Ok(pk) = PublicKey::try_decode_protobuf(k) {
            candidates.push(pk);
        }
    }
    // identity multihash: 0x00, len, protobuf key
    if from.len() > 2 && from[0] == 0x00 {
        if let Ok(pk) = PublicKey::try_decode_protobuf(&from[2..]) {
            candidates.push(pk);
        }
    }
    let bytes = w.signing_bytes();
    candidates.iter().any(|pk| pk.to_peer_id() == source && pk.verify(&bytes, sig))
}

enum Outcome {
    Valid(RawMessage),
    Invalid(RawMessage, ValidationError),
    Error(String),
    Dropped,
    Panic(vmon::PanicInfo),
}
impl Outcome {
    fn class(&self) -> String {
        match self {
            Outcome::Valid(_) => "valid".into(),
            Outcome::Invalid(_, e) => format!("invalid:{e:?}"),
            Outcome::Error(_) => "error".into(),
            Outcome::Dropped => "dropped".into(),
            Outcome::Panic(_) => "panic".into(),
        }
    }
}

fn decode_one(w: &WireMsg, mode: &ValidationMode) -> Outcome {
    let rpc = WireRpc { publish: vec![w.encode()], ..Default::default() };
    let p = params(1 << 20, mode.clone());
    match catch(|| decode_rpcs(&p, &[rpc.frame()])) {
        Err(pn) => Outcome::Panic(pn),
        Ok(mut d) => {
            if let Some(e) = d.error {
                return Outcome::Error(e);
            }
            match d.events.pop() {
                Some(HandlerEvent::Message { mut rpc, mut invalid_messages }) => {
                    if let Some(m) = rpc.messages.pop() {
                        Outcome::Valid(m)
                    } else if let Some((m, e)) = invalid_messages.pop() {
                        Outcome::Invalid(m, e)
                    } else {
                        Outcome::Dropped
                    }
                }
                _ => Outcome::Dropped,
            }
        }
    }
}

fn seqno_value(s: &Option<Vec<u8>>) -> Option<Option<u64>> {
    match s {
        None => Some(None),
        Some(b) if b.is_empty() => Some(None),
        Some(b) if b.len() == 8 => Some(Some(u64::from_be_bytes(b[..].try_into().unwrap()))),
        _ => None,
    }
}

/// judge one (message, mode, outcome); returns (signature, explanation) of violations
fn judge(kind: Kind, w: &WireMsg, mode: &ValidationMode, out: &Outcome) -> Vec<(String, String)> {
    let mut bad = vec![];
    let m = match out {
        Outcome::Panic(p) => {
            bad.push((format!("panic@{}", crate::util::short_site(p)), p.msg.clone()));
            return bad;
        }
        Outcome::Valid(m) => m,
        _ => return bad,
    };
    let mn = mode_name(mode);
    // every mode: surfaced payload is what was sent
    if m.data != w.data.clone().unwrap_or_default() || m.topic.as_str() != w.topic.clone().unwrap_or_default() {
        bad.push((format!("{mn}-valid-payload-differs"), "surfaced data/topic differ from the wire message".into()));
    }
    match mode {
        ValidationMode::Strict => {
            let from_ok = w.from.as_ref().and_then(|f| PeerId::from_bytes(f).ok());
            if m.source.is_none() || m.source != from_ok {
                bad.push(("strict-valid-without-source".into(), format!("surfaced source {:?}, wire from parses to {:?}", m.source, from_ok)));
            }
            if !ref_authentic(w) {
                bad.push(("strict-valid-not-authentic".into(), "no key of the source verifies the signature over from/data/seqno/topic".into()));
            }
            if m.signature != w.signature {
                bad.push(("strict-valid-signature-differs".into(), "surfaced signature is not the wire signature".into()));
            }
            match seqno_value(&w.seqno) {
                Some(v) if v == m.sequence_number => {}
                other => bad.push(("strict-valid-seqno-differs".into(), format!("wire seqno {:?} -> {:?}, surfaced {:?}", w.seqno, other, m.sequence_number))),
            }
            if let Kind::Mutation(field, _) = kind {
                bad.push((format!("strict-valid-after-{field}-mutation"), format!("{} of a signed message surfaced as valid in Strict mode", kind.name())));
            }
        }
        ValidationMode::Anonymous => {
            for (name, present, surfaced) in [
                ("from", w.from.as_ref().is_some_and(|b| !b.is_empty()), m.source.is_some()),
                ("seqno", w.seqno.as_ref().is_some_and(|b| !b.is_empty()), m.sequence_number.is_some()),
                ("signature", w.signature.as_ref().is_some_and(|b| !b.is_empty()), m.signature.is_some()),
            ] {
                if present || surfaced {
                    bad.push((format!("anonymous-valid-with-{name}"), format!("valid in Anonymous mode although {name} present on wire={present} surfaced={surfaced}")));
                }
            }
        }
        ValidationMode::Permissive => {
            if w.signature.is_some() && !ref_authentic(w) {
                bad.push(("permissive-valid-bad-signature".into(), "signature present but not authentic".into()));
            }
            if let Some(s) = &w.seqno {
                if !(s.is_empty() || s.len() == 8) {
                    bad.push(("permissive-valid-bad-seqno".into(), format!("seqno of length {} surfaced as valid", s.len())));
                }
            }
            if let Some(f) = &w.from {
                if !f.is_empty() && PeerId::from_bytes(f).is_err() {
                    bad.push(("permissive-valid-bad-source".into(), "from does not parse as a peer id".into()));
                }
            }
        }
        ValidationMode::None => {}
    }
    bad
}

fn gen_base(rng: &mut Rng, kt: usize, ks: &Keys) -> (WireMsg, &'static str, usize) {
    let ki = rng.usize(ks.pool[kt].len());
    let kp = &ks.pool[kt][ki];
    let data = match rng.usize(5) {
        0 => None,
        1 => Some(vec![]),
        _ => {
            let n = 1 + rng.usize(48);
            Some(rng.bytes(n))
        }
    };
    let seqno = if rng.chance(1, 8) { Some(vec![]) } else { Some(rng.bytes(8)) };
    let topic = ["t", "topic-a", "", "a/b/c", "τόπος"][rng.usize(5)].to_string();
    let pk = kp.public();
    let (key, shape) = if inlined(kt) {
        if rng.chance(1, 3) { (Some(pk.encode_protobuf()), "inlined+key") } else { (None, "inlined") }
    } else {
        (Some(pk.encode_protobuf()), "keyfield")
    };
    let mut w = WireMsg { from: Some(pk.to_peer_id().to_bytes()), data, seqno, topic: Some(topic), signature: None, key };
    sign(kp, &mut w);
    (w, shape, ki)
}

fn mutations(rng: &mut Rng, base: &WireMsg, kt: usize, ki: usize, ks: &Keys) -> Vec<(Kind, WireMsg)> {
    let mut out: Vec<(Kind, WireMsg)> = vec![];
    let base_key = base.key.as_ref().map(|k| PublicKey::try_decode_protobuf(k).ok());
    let mut push = |f: &'static str, h: &'static str, w: WireMsg| {
        if &w == base {
            return;
        }
        if f == "key" {
            // a different byte string that decodes to the *same* public key (non-canonical DER /
            // protobuf) is another encoding of the same field value, not a mutation of it
            let k = w.key.as_ref().map(|k| PublicKey::try_decode_protobuf(k).ok());
            if matches!((&k, &base_key), (Some(Some(a)), Some(Some(b))) if a == b) {
                out.push((Kind::EquivalentKeyEncoding, w));
                return;
            }
        }
        out.push((Kind::Mutation(f, h), w))
    };
    let other_kp = {
        // a different key (other type or other index)
        let okt = (kt + 1 + rng.usize(3)) % 4;
        let same_type_other = &ks.pool[kt][(ki + 1) % ks.pool[kt].len()];
        if rng.bool() { same_type_other } else { &ks.pool[okt][rng.usize(ks.pool[okt].len())] }
    };
    let from = base.from.clone().unwrap();
    // from
    let at = rng.usize(from.len());
    let mask = 1u8 << rng.usize(8);
    push("from", "flip", WireMsg { from: Some(flip(&from, at, mask)), ..base.clone() });
    push("from", "remove", WireMsg { from: None, ..base.clone() });
    push("from", "empty", WireMsg { from: Some(vec![]), ..base.clone() });
    push("from", "truncate", WireMsg { from: Some(from[..from.len() - 1].to_vec()), ..base.clone() });
    push("from", "other-peer", WireMsg { from: Some(other_kp.public().to_peer_id().to_bytes()), ..base.clone() });
    {
        // impersonation: claim another peer as source, keep the own key field, sign again with the
        // own key (what the "key must match the source" rule exists for)
        let victim = ks.pool[kt][(ki + 1) % ks.pool[kt].len()].public().to_peer_id().to_bytes();
        let mut o = WireMsg { from: Some(victim), key: Some(ks.pool[kt][ki].public().encode_protobuf()), ..base.clone() };
        sign(&ks.pool[kt][ki], &mut o);
        push("from", "impersonate-resigned", o);
    }
    // data
    match &base.data {
        Some(d) if !d.is_empty() => {
            let at = rng.usize(d.len());
            push("data", "flip", WireMsg { data: Some(flip(d, at, 1 << rng.usize(8))), ..base.clone() });
            push("data", "truncate", WireMsg { data: Some(d[..d.len() - 1].to_vec()), ..base.clone() });
            push("data", "remove", WireMsg { data: None, ..base.clone() });
        }
        Some(_) => push("data", "remove", WireMsg { data: None, ..base.clone() }),
        None => push("data", "add-empty", WireMsg { data: Some(vec![]), ..base.clone() }),
    }
    let mut d2 = base.data.clone().unwrap_or_default();
    d2.push(rng.next_u32() as u8);
    push("data", "append", WireMsg { data: Some(d2), ..base.clone() });
    // seqno
    let s = base.seqno.clone().unwrap_or_default();
    if !s.is_empty() {
        push("seqno", "flip", WireMsg { seqno: Some(flip(&s, rng.usize(8), 1 << rng.usize(8))), ..base.clone() });
        push("seqno", "len7", WireMsg { seqno: Some(s[..7].to_vec()), ..base.clone() });
        push("seqno", "len0", WireMsg { seqno: Some(vec![]), ..base.clone() });
    } else {
        push("seqno", "len8", WireMsg { seqno: Some(rng.bytes(8)), ..base.clone() });
        push("seqno", "len7", WireMsg { seqno: Some(rng.bytes(7)), ..base.clone() });
    }
    let mut s9 = s.clone();
    s9.resize(9, 0);
    push("seqno", "len9", WireMsg { seqno: Some(s9), ..base.clone() });
    push("seqno", "remove", WireMsg { seqno: None, ..base.clone() });
    // topic
    let t = base.topic.clone().unwrap();
    push("topic", "append", WireMsg { topic: Some(format!("{t}x")), ..base.clone() });
    push("topic", "replace", WireMsg { topic: Some("other-topic".into()), ..base.clone() });
    if !t.is_empty() {
        push("topic", "empty", WireMsg { topic: Some(String::new()), ..base.clone() });
        push("topic", "remove", WireMsg { topic: None, ..base.clone() });
    }
    // signature
    let sig = base.signature.clone().unwrap();
    for _ in 0..3 {
        let at = rng.usize(sig.len());
        push("signature", "flip", WireMsg { signature: Some(flip(&sig, at, 1 << rng.usize(8))), ..base.clone() });
    }
    push("signature", "flip-first", WireMsg { signature: Some(flip(&sig, 0, 0x01)), ..base.clone() });
    push("signature", "flip-last", WireMsg { signature: Some(flip(&sig, sig.len() - 1, 0x80)), ..base.clone() });
    push("signature", "remove", WireMsg { signature: None, ..base.clone() });
    push("signature", "empty", WireMsg { signature: Some(vec![]), ..base.clone() });
    push("signature", "truncate", WireMsg { signature: Some(sig[..sig.len() - 1].to_vec()), ..base.clone() });
    {
        // signature of another message by the same key
        let mut o = WireMsg { data: Some(b"another message".to_vec()), ..base.clone() };
        sign(&ks.pool[kt][ki], &mut o);
        push("signature", "of-other-message", WireMsg { signature: o.signature, ..base.clone() });
        // signature over this message by another key
        let mut o = base.clone();
        sign(other_kp, &mut o);
        push("signature", "by-other-key", WireMsg { signature: o.signature, ..base.clone() });
    }
    // key
    match &base.key {
        Some(k) => {
            let at = rng.usize(k.len());
            push("key", "flip", WireMsg { key: Some(flip(k, at, 1 << rng.usize(8))), ..base.clone() });
            push("key", "truncate", WireMsg { key: Some(k[..k.len() - 1].to_vec()), ..base.clone() });
            if !inlined(kt) {
                // for inlined key types removing the redundant key yields the other well-formed shape
                push("key", "remove", WireMsg { key: None, ..base.clone() });
            }
        }
        None => {}
    }
    let glen = 1 + rng.usize(40);
    push("key", "garbage", WireMsg { key: Some(rng.bytes(glen)), ..base.clone() });
    push("key", "empty", WireMsg { key: Some(vec![]), ..base.clone() });
    push("key", "other-peer", WireMsg { key: Some(other_kp.public().encode_protobuf()), ..base.clone() });
    out
}

fn unsigned_shapes(rng: &mut Rng, ks: &Keys) -> Vec<(Kind, WireMsg)> {
    let kt = rng.usize(4);
    let pid = ks.pool[kt][0].public().to_peer_id().to_bytes();
    let n = rng.usize(32);
    let data = Some(rng.bytes(n));
    let topic = Some("t".to_string());
    vec![
        (Kind::Unsigned("anonymous"), WireMsg { data: data.clone(), topic: topic.clone(), ..Default::default() }),
        (Kind::Unsigned("anonymous-nodata"), WireMsg { topic: topic.clone(), ..Default::default() }),
        (Kind::Unsigned("author"), WireMsg { from: Some(pid.clone()), seqno: Some(rng.bytes(8)), data: data.clone(), topic: topic.clone(), ..Default::default() }),
        (Kind::Unsigned("author-bad-peer"), WireMsg { from: Some(rng.bytes(20)), seqno: Some(rng.bytes(8)), data: data.clone(), topic: topic.clone(), ..Default::default() }),
        (Kind::Unsigned("from-only"), WireMsg { from: Some(pid.clone()), data: data.clone(), topic: topic.clone(), ..Default::default() }),
        (Kind::Unsigned("seqno-only"), WireMsg { seqno: Some(rng.bytes(8)), data: data.clone(), topic: topic.clone(), ..Default::default() }),
        (Kind::Unsigned("seqno7-only"), WireMsg { seqno: Some(rng.bytes(7)), data: data.clone(), topic: topic.clone(), ..Default::default() }),
        (Kind::Unsigned("seqno9-author"), WireMsg { from: Some(pid.clone()), seqno: Some(rng.bytes(9)), data: data.clone(), topic: topic.clone(), ..Default::default() }),
        (Kind::Unsigned("signature-only"), WireMsg { signature: Some(rng.bytes(64)), data: data.clone(), topic: topic.clone(), ..Default::default() }),
        (Kind::Unsigned("random-signature"), WireMsg { from: Some(pid.clone()), seqno: Some(rng.bytes(8)), signature: Some(rng.bytes(64)), data: data.clone(), topic: topic.clone(), ..Default::default() }),
        (Kind::Unsigned("empty-fields"), WireMsg { from: Some(vec![]), seqno: Some(vec![]), signature: Some(vec![]), data, topic, ..Default::default() }),
    ]
}

const MODES: [ValidationMode; 4] = [ValidationMode::Strict, ValidationMode::Permissive, ValidationMode::Anonymous, ValidationMode::None];

pub fn run(args: &Args) -> i32 {
    let check = Check::new(
        args,
        "exploration",
        "an evaluation = one wire message (signed base / field mutation of it / unsigned shape) decoded by the real codec under one validation mode; \
         non-trivial = mutation or base whose base message was accepted in Strict mode (so the mutation had something to break), or an unsigned shape accepted by some mode; \
         distinct by (key type, key shape, message kind, mode, outcome class)",
    );
    let ks = keys(args.seed);
    let nbases = args.tier.pick(1_600u64, 40_000);
    vmon::par_cases(&check, nbases, args.threads, |i, rng| {
        let kt = (i % 4) as usize;
        let (base, shape, ki) = gen_base(rng, kt, ks);
        let mut msgs = vec![(Kind::SignedBase, base.clone())];
        msgs.extend(mutations(rng, &base, kt, ki, ks));
        if i % 4 == 0 {
            msgs.extend(unsigned_shapes(rng, ks));
        }
        // is the base accepted in Strict? (non-triviality of its mutations; not a verdict)
        let base_ok = matches!(decode_one(&base, &ValidationMode::Strict), Outcome::Valid(_));
        if !base_ok {
            check.count("signed_base_not_accepted_in_strict", 1);
        }
        for (kind, w) in &msgs {
            for mode in &MODES {
                let out = decode_one(w, mode);
                let class = out.class();
                let sig = Sig::new().str(KEY_TYPES[kt]).str(shape).str(&kind.name()).str(mode_name(mode)).str(&class).0;
                let nontrivial = match kind {
                    Kind::Unsigned(_) => matches!(out, Outcome::Valid(_)) || matches!(out, Outcome::Invalid(..)),
                    _ => base_ok,
                };
                check.case(sig, nontrivial);
                if matches!(kind, Kind::EquivalentKeyEncoding) && matches!(mode, ValidationMode::Strict) {
                    check.count("equivalent_key_encodings_sent", 1);
                }
                check.count(&format!("outcome::{}::{}", mode_name(mode), class.split(':').next().unwrap()), 1);
                if let Kind::Mutation(f, _) = kind {
                    if matches!(mode, ValidationMode::Strict) {
                        check.count(&format!("strict_mutations::{f}"), 1);
                    }
                }
                for (vsig, why) in judge(*kind, w, mode, &out) {
                    check.violation(
                        vsig,
                        format!("{why} [key type {}, {}, {}, mode {}]", KEY_TYPES[kt], shape, kind.name(), mode_name(mode)),
                        json!({"key_type": KEY_TYPES[kt], "shape": shape, "kind": kind.name(), "mode": mode_name(mode), "outcome": class,
                               "message": w.json(), "base": base.json()}),
                    );
                }
                if check.want_sample() && matches!(kind, Kind::Mutation(..)) && i > 3 {
                    check.sample(json!({"key_type": KEY_TYPES[kt], "shape": shape, "kind": kind.name(), "mode": mode_name(mode), "outcome": class, "message": w.json()}));
                }
            }
        }
        check.count(&format!("bases::{}::{}", KEY_TYPES[kt], shape), 1);
    });
    check.note("exhaustive", json!(false));
    check.note("key_types", json!(KEY_TYPES));
    check.finish()
}
