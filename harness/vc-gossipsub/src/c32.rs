//! C32 — a backoff is never shortened, and is eventually forgotten after expiry + slack.
//!
//! Real code: `BackoffStorage` through the forwarding facade `verif::Backoffs`; time through the
//! crate's clock shim, frozen for the calling thread so that it moves only by `clock::advance`.
//! `is_backoff_with_slack` is what the heartbeat/join use to refuse grafting a peer and
//! `get_backoff_time` is what `handle_graft` compares with `now` to penalise a GRAFT.
//!
//! Histories: update_backoff(topic, peer, d) with d in {0, 1ns, interval/2, interval, prune_backoff,
//! prune_backoff+1ns, 2x, 3x prune_backoff, PRNG} / heartbeat / advance(dt) over 2 topics x 3 peers,
//! heartbeat_interval in {100ms, 700ms, 1s}, prune_backoff between 1 and 6 intervals (also
//! non-multiples), backoff_slack 0..=3. After *every* op all six (topic, peer) pairs are queried.
//!
//! Oracle (reference ledger written from the statement): expiry(pair) = max over updates of
//! (time of update + d). While now < expiry: `is_backoff_with_slack` must be true and
//! `get_backoff_time` must be Some(t) with t >= expiry. A pair never updated (or already observed
//! forgotten at/after its expiry and not updated since) must not be reported backed off. Bounded
//! "eventually": once now > expiry + slack*interval, after W further heartbeats (W = wheel length
//! ceil(prune_backoff/interval)+slack+1, plus one of margin) the pair must be forgotten.
//! Not judged: the state between expiry and the forgetting bound, now == expiry exactly, agreement
//! between the two getters, updates whose expiry is not representable (never generated).
use std::time::Duration;

use libp2p_gossipsub::{
    IdentTopic, TopicHash,
    verif::{Backoffs, Instant, clock},
};
use libp2p_identity::PeerId;
use vmon::{Args, Check, Rng, Sig, catch, json};

#[derive(Clone, Debug)]
enum Op {
    Update(usize, usize, Duration),
    Heartbeat,
    Advance(Duration),
}

#[derive(Clone, Debug)]
struct Params {
    interval: Duration,
    prune_backoff: Duration,
    slack: u32,
}

fn gen_case(rng: &mut Rng) -> (Params, Vec<Op>) {
    let interval = *rng.pick(&[Duration::from_millis(100), Duration::from_millis(700), Duration::from_secs(1)]);
    let prune_backoff = match rng.usize(4) {
        0 => interval * (1 + rng.usize(6) as u32),
        1 => interval * (1 + rng.usize(5) as u32) + interval / 2,
        2 => interval * (1 + rng.usize(5) as u32) + Duration::from_nanos(1),
        _ => interval * (2 + rng.usize(4) as u32) - Duration::from_nanos(1),
    };
    let slack = rng.usize(4) as u32;
    let p = Params { interval, prune_backoff, slack };
    let ns = Duration::from_nanos(1);
    let n = 30 + rng.usize(70);
    let ops = (0..n)
        .map(|_| match rng.weighted(&[5, 6, 5]) {
            0 => {
                let d = match rng.usize(10) {
                    0 => Duration::ZERO,
                    1 => ns,
                    2 => interval / 2,
                    3 => interval,
                    4 => prune_backoff,
                    5 => prune_backoff + ns,
                    6 => prune_backoff * 2,
                    7 => prune_backoff * 3,
                    _ => Duration::from_nanos(rng.range(0, (prune_backoff * 3).as_nanos() as u64)),
                };
                Op::Update(rng.usize(2), rng.usize(3), d)
            }
            1 => Op::Heartbeat,
            _ => Op::Advance(match rng.usize(8) {
                0 => Duration::ZERO,
                1 => ns,
                2 => interval / 2,
                3 | 4 => interval,
                5 => interval * 2,
                6 => prune_backoff,
                _ => Duration::from_nanos(rng.range(0, (prune_backoff * 2).as_nanos() as u64)),
            }),
        })
        .collect();
    (p, ops)
}

#[derive(Clone, Copy, Debug)]
struct Entry {
    expiry: Duration,
    /// heartbeats performed while now > expiry + slack*interval
    hb_after: u32,
}

struct Stats {
    queries_backed_off: u64,
    forgotten: u64,
    updates_longer: u64,
    updates_shorter: u64,
    max_hb_to_forget: u32,
}

fn op_str(o: &Op) -> String {
    match o {
        Op::Update(t, p, d) => format!("update(t{t},p{p},{d:?})"),
        Op::Heartbeat => "heartbeat".into(),
        Op::Advance(d) => format!("advance({d:?})"),
    }
}

fn run_history(p: &Params, ops: &[Op], peers: &[PeerId; 3]) -> (Vec<(String, String, usize)>, Stats) {
    clock::reset();
    clock::freeze();
    let base = Instant::now();
    let topics: [TopicHash; 2] = [IdentTopic::new("ta").hash(), IdentTopic::new("tb").hash()];
    let mut b = Backoffs::new(p.prune_backoff, p.interval, p.slack);
    let wheel = (p.prune_backoff.as_nanos().div_ceil(p.interval.as_nanos())) as u32 + p.slack + 1;
    let bound = wheel + 1;
    let slack_d = p.interval * p.slack;
    let mut ledger: [[Option<Entry>; 3]; 2] = [[None; 3]; 2];
    let mut now = Duration::ZERO;
    let mut bad: Vec<(String, String, usize)> = vec![];
    let mut st = Stats { queries_backed_off: 0, forgotten: 0, updates_longer: 0, updates_shorter: 0, max_hb_to_forget: 0 };
    for (step, op) in ops.iter().enumerate() {
        match op {
            Op::Advance(d) => {
                clock::advance(*d);
                now += *d;
            }
            Op::Heartbeat => {
                b.heartbeat();
                for row in ledger.iter_mut() {
                    for e in row.iter_mut().flatten() {
                        if now > e.expiry + slack_d {
                            e.hb_after += 1;
                        }
                    }
                }
            }
            Op::Update(t, pi, d) => {
                b.update_backoff(&topics[*t], &peers[*pi], *d);
                let new = now + *d;
                match ledger[*t][*pi].as_mut() {
                    Some(e) => {
                        if new > e.expiry {
                            e.expiry = new;
                            st.updates_longer += 1;
                        } else {
                            st.updates_shorter += 1;
                        }
                        e.hb_after = 0;
                    }
                    None => ledger[*t][*pi] = Some(Entry { expiry: new, hb_after: 0 }),
                }
            }
        }
        // observe every pair after every op
        for t in 0..2 {
            for pi in 0..3 {
                let is = b.is_backoff_with_slack(&topics[t], &peers[pi]);
                let time = b.get_backoff_time(&topics[t], &peers[pi]).map(|i| i.saturating_duration_since(base));
                match ledger[t][pi] {
                    None => {
                        if is || time.is_some() {
                            bad.push(("backoff-phantom".into(), format!("(t{t},p{pi}) reported backed off (is={is}, time={time:?}) without a live backoff in the ledger at {now:?}"), step));
                        }
                    }
                    Some(e) if now < e.expiry => {
                        st.queries_backed_off += 1;
                        if !is {
                            bad.push(("backoff-lost-before-expiry:is_backoff_with_slack".into(), format!("(t{t},p{pi}) not backed off at {now:?}, ledger expiry {:?}", e.expiry), step));
                        }
                        match time {
                            None => bad.push(("backoff-lost-before-expiry:get_backoff_time".into(), format!("(t{t},p{pi}) get_backoff_time None at {now:?}, ledger expiry {:?}", e.expiry), step)),
                            Some(x) if x < e.expiry => bad.push(("backoff-shortened".into(), format!("(t{t},p{pi}) get_backoff_time {x:?} < ledger expiry {:?} at {now:?}", e.expiry), step)),
                            _ => {}
                        }
                        if !is || time.is_none_or(|x| x < e.expiry) {
                            // follow the implementation to avoid cascades
                            ledger[t][pi] = if is { Some(Entry { expiry: time.unwrap_or(now), hb_after: 0 }) } else { None };
                        }
                    }
                    Some(e) => {
                        if !is && time.is_none() {
                            st.forgotten += 1;
                            st.max_hb_to_forget = st.max_hb_to_forget.max(e.hb_after);
                            ledger[t][pi] = None;
                        } else if e.hb_after >= bound {
                            bad.push((
                                "backoff-not-forgotten".into(),
                                format!("(t{t},p{pi}) still backed off (is={is}, time={time:?}) at {now:?}: expiry {:?} + slack {:?} passed and {} heartbeats since (wheel {wheel})", e.expiry, slack_d, e.hb_after),
                                step,
                            ));
                            // reported once; start counting again instead of cascading
                            ledger[t][pi] = Some(Entry { expiry: e.expiry, hb_after: 0 });
                        }
                    }
                }
            }
        }
    }
    clock::reset();
    (bad, st)
}

pub fn run(args: &Args) -> i32 {
    let check = Check::new(
        args,
        "exploration",
        "a case = (heartbeat_interval, prune_backoff, slack) + PRNG history of update_backoff/heartbeat/advance on a frozen virtual clock, all pairs queried after every op; \
         non-trivial = history with at least one update that extends and one that would shorten an existing backoff, and at least one backoff observed forgotten; distinct by parameters + op history",
    );
    let n = args.tier.pick(5_000u64, 5_000_000);
    let peers = [PeerId::random(), PeerId::random(), PeerId::random()];
    vmon::par_cases(&check, n, args.threads, |i, rng| {
        let (p, ops) = gen_case(rng);
        let mut sg = Sig::new().u64(p.interval.as_nanos() as u64).u64(p.prune_backoff.as_nanos() as u64).u64(p.slack as u64);
        let opsj: Vec<String> = ops.iter().map(op_str).collect();
        for o in &opsj {
            sg.push_str(o);
        }
        let pj = json!({"heartbeat_interval_ns": p.interval.as_nanos() as u64, "prune_backoff_ns": p.prune_backoff.as_nanos() as u64, "backoff_slack": p.slack});
        match catch(|| run_history(&p, &ops, &peers)) {
            Err(pn) => {
                clock::reset();
                check.violation(format!("panic@{}", pn.site()), pn.msg.clone(), json!({"params": pj, "ops": opsj}));
                check.case(sg.0, true);
            }
            Ok((bad, st)) => {
                for (sig, why, step) in bad {
                    check.count(&format!("violations::{sig}"), 1);
                    check.violation(sig, why, json!({"params": pj, "ops": &opsj[..=step], "failing_step": step}));
                }
                check.count("ops", ops.len() as u64);
                check.count("pair_queries_while_backed_off", st.queries_backed_off);
                check.count("backoffs_observed_forgotten", st.forgotten);
                check.count("updates_extending", st.updates_longer);
                check.count("updates_not_extending", st.updates_shorter);
                check.distinct("heartbeats_needed_to_forget", st.max_hb_to_forget as u64);
                check.distinct("params_seen", Sig::new().u64(p.interval.as_nanos() as u64).u64(p.prune_backoff.as_nanos() as u64).u64(p.slack as u64).0);
                check.case(sg.0, st.updates_longer > 0 && st.updates_shorter > 0 && st.forgotten > 0);
                if check.want_sample() && st.forgotten > 1 && st.updates_shorter > 1 && i > 8 {
                    check.sample(json!({"params": pj, "ops": opsj}));
                }
            }
        }
    });
    check.note("exhaustive", json!(false));
    check.note("clock", json!("virtual (crate clock shim frozen per thread; time moves only by advance)"));
    check.finish()
}
