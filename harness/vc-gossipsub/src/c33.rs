//! C33 — DuplicateCache and MessageCache keep exactly their documented windows.
//!
//! Real code: `DuplicateCache<MessageId>` and `MessageCache` through the forwarding facades
//! `verif::{DupCache, MCache}`; time through the crate's clock shim, *frozen* for the calling thread
//! (`verif::clock::freeze`) so that time moves only by `clock::advance` and boundaries are exact.
//!
//! DuplicateCache histories: insert(k) / contains(k) / advance(dt) over 4 ids, ttl in {1ms..60s},
//! dt in {0, ttl/3, ttl/2, ttl-1ns, ttl, ttl+1ns, 2ttl}. Reference: id -> start of its current life
//! (first insertion, or first insertion after the previous life ended). While now < start+ttl the id
//! must be reported seen (`insert` false, `contains` true) and re-insertion must not move `start`;
//! once now > start+ttl it must be reported not seen (`insert` true, starting a new life;
//! `contains` false). now == start+ttl is not judged. A stale `contains` is reported under its own
//! signature `dupcache-seen-after-ttl:contains-before-next-insert` when no `insert` call has
//! happened since the expiry (the implementation purges only inside `insert`), and under
//! `dupcache-seen-after-ttl:contains` otherwise.
//!
//! MessageCache histories: put / validate / remove / shift / get_gossip_message_ids /
//! get_with_iwant_counts / observe_duplicate over 6 ids, 2 topics, 3 peers, history_length 0..=6,
//! history_gossip 0..=history_length. Reference windowed model: a message put after S shifts is in
//! slot (now_shifts - S); present for IWANT iff validated and slot < history_length; offered for
//! gossip iff validated and slot < history_gossip and topic matches; IWANT count per (message,
//! peer) = number of successful requests in the message's current life. Equality is demanded for
//! ids without aliasing; for an id that was `remove`d and `put` again while its old history entry
//! is still in the window (the implementation keeps that entry and drops the new message when it
//! falls out) only the upper bounds ("only validated", "only within the window") are judged.
//! Not judged: `put`'s return value, what `validate`/`remove` return, order of gossip ids.
use std::time::Duration;

use libp2p_gossipsub::{
    IdentTopic, MessageId, RawMessage, TopicHash,
    verif::{DupCache, MCache, clock},
};
use libp2p_identity::PeerId;
use vmon::{Args, Check, Rng, Sig, catch, json};

// -------------------------------------------------------------------------------------------------
// DuplicateCache
// -------------------------------------------------------------------------------------------------

#[derive(Clone, Debug)]
enum DOp {
    Insert(usize),
    Contains(usize),
    Advance(Duration),
}

fn dup_history(rng: &mut Rng, ttl: Duration, n: usize) -> Vec<DOp> {
    let ns = Duration::from_nanos(1);
    let steps = [Duration::ZERO, ttl / 3, ttl / 2, ttl - ns, ttl, ttl + ns, ttl * 2, ttl / 7];
    (0..n)
        .map(|_| match rng.weighted(&[4, 4, 3]) {
            0 => DOp::Insert(rng.usize(4)),
            1 => DOp::Contains(rng.usize(4)),
            _ => DOp::Advance(*rng.pick(&steps)),
        })
        .collect()
}

/// returns (violations, ops executed, insert_new, insert_dup, contains_true, expiries)
fn run_dup(ttl: Duration, ops: &[DOp]) -> (Vec<(String, String, usize)>, [u64; 4]) {
    clock::reset();
    clock::freeze();
    let mut cache = DupCache::new(ttl);
    let ids: Vec<MessageId> = (0..4u8).map(|i| MessageId::new(&[b'd', i])).collect();
    let mut start: [Option<Duration>; 4] = [None; 4];
    let mut now = Duration::ZERO;
    let mut last_insert_call: Option<Duration> = None;
    let mut bad = vec![];
    let mut stats = [0u64; 4];
    for (step, op) in ops.iter().enumerate() {
        match op {
            DOp::Advance(d) => {
                clock::advance(*d);
                now += *d;
            }
            DOp::Insert(k) => {
                let fresh = cache.insert(ids[*k].clone());
                last_insert_call = Some(now);
                match start[*k] {
                    Some(t0) if now < t0 + ttl => {
                        stats[1] += 1;
                        if fresh {
                            bad.push(("dupcache-not-seen-within-ttl:insert".to_string(), format!("insert(id{k}) returned true {:?} after its first insertion, ttl {:?}", now - t0, ttl), step));
                            start[*k] = Some(now);
                        }
                    }
                    Some(t0) if now > t0 + ttl => {
                        stats[3] += 1;
                        if fresh {
                            start[*k] = Some(now);
                        } else {
                            bad.push(("dupcache-seen-after-ttl:insert".to_string(), format!("insert(id{k}) returned false {:?} after the first insertion of this life, ttl {:?} (refreshed by re-insertion?)", now - t0, ttl), step));
                        }
                    }
                    Some(_) => {
                        // exactly at the boundary: not judged, follow the implementation
                        if fresh {
                            start[*k] = Some(now);
                        }
                    }
                    None => {
                        stats[0] += 1;
                        if !fresh {
                            bad.push(("dupcache-unknown-id-seen:insert".to_string(), format!("first insert(id{k}) returned false"), step));
                        }
                        start[*k] = Some(now);
                    }
                }
            }
            DOp::Contains(k) => {
                let seen = cache.contains(&ids[*k]);
                match start[*k] {
                    Some(t0) if now < t0 + ttl => {
                        stats[2] += 1;
                        if !seen {
                            bad.push(("dupcache-not-seen-within-ttl:contains".to_string(), format!("contains(id{k}) false {:?} after first insertion, ttl {:?}", now - t0, ttl), step));
                        }
                    }
                    Some(t0) if now > t0 + ttl => {
                        if seen {
                            let purged_since = last_insert_call.is_some_and(|t| t > t0 + ttl);
                            let sig = if purged_since { "dupcache-seen-after-ttl:contains" } else { "dupcache-seen-after-ttl:contains-before-next-insert" };
                            bad.push((sig.to_string(), format!("contains(id{k}) true {:?} after first insertion, ttl {:?}", now - t0, ttl), step));
                        }
                    }
                    Some(_) => {}
                    None => {
                        if seen {
                            bad.push(("dupcache-unknown-id-seen:contains".to_string(), format!("contains(id{k}) true for an id never inserted"), step));
                        }
                    }
                }
            }
        }
    }
    clock::reset();
    (bad, stats)
}

// -------------------------------------------------------------------------------------------------
// MessageCache
// -------------------------------------------------------------------------------------------------

#[derive(Clone, Debug)]
enum MOp {
    Put(usize, bool),
    Validate(usize),
    Remove(usize),
    Shift,
    Gossip(usize),
    Iwant(usize, usize),
    ObserveDup(usize, usize),
}

const NIDS: usize = 6;

fn mc_history(rng: &mut Rng, n: usize) -> Vec<MOp> {
    (0..n)
        .map(|_| match rng.weighted(&[6, 4, 2, 4, 4, 6, 1]) {
            0 => MOp::Put(rng.usize(NIDS), rng.chance(1, 3)),
            1 => MOp::Validate(rng.usize(NIDS)),
            2 => MOp::Remove(rng.usize(NIDS)),
            3 => MOp::Shift,
            4 => MOp::Gossip(rng.usize(2)),
            5 => MOp::Iwant(rng.usize(NIDS), rng.usize(3)),
            _ => MOp::ObserveDup(rng.usize(NIDS), rng.usize(3)),
        })
        .collect()
}

#[derive(Clone, Debug)]
struct Life {
    put_shift: u64,
    validated: bool,
    iwant: [u32; 3],
    aliased: bool,
}

fn topic_of(id: usize) -> usize {
    id % 2
}

fn run_mc(history: usize, gossip: usize, ops: &[MOp], peers: &[PeerId; 3]) -> (Vec<(String, String, usize)>, [u64; 6]) {
    let topics: [TopicHash; 2] = [IdentTopic::new("ta").hash(), IdentTopic::new("tb").hash()];
    let ids: Vec<MessageId> = (0..NIDS as u8).map(|i| MessageId::new(&[b'm', i])).collect();
    let msg = |i: usize, validated: bool| RawMessage {
        source: None,
        data: vec![b'm', i as u8],
        sequence_number: Some(i as u64),
        topic: topics[topic_of(i)].clone(),
        signature: None,
        key: None,
        validated,
    };
    let mut mc = MCache::new(gossip, history);
    let mut lives: Vec<Option<Life>> = vec![None; NIDS];
    // shifts at which the implementation added a history entry for the id and that are still in the window
    let mut entries: Vec<Vec<u64>> = vec![vec![]; NIDS];
    let mut s: u64 = 0;
    let h = history as u64;
    let g = gossip as u64;
    let mut bad: Vec<(String, String, usize)> = vec![];
    // iwant_some, iwant_none, gossip_ids, expired, aliased_lives, removes
    let mut stats = [0u64; 6];
    for (step, op) in ops.iter().enumerate() {
        match op {
            MOp::Put(i, v) => {
                // `put`'s return value is not judged; it is used as an observation to keep track of
                // which history entries the implementation holds for this id (aliasing detection)
                let added = mc.put(&ids[*i], msg(*i, *v));
                if added && h > 0 {
                    let had_live_entry = !entries[*i].is_empty();
                    entries[*i].push(s);
                    match lives[*i].as_mut() {
                        None => {
                            if had_live_entry {
                                stats[4] += 1;
                            }
                            lives[*i] = Some(Life { put_shift: s, validated: *v, iwant: [0; 3], aliased: had_live_entry });
                        }
                        Some(l) => {
                            // the implementation no longer held the message (possible for aliased ids):
                            // continue with the new entry, upper bounds only
                            l.put_shift = s;
                            l.validated = *v;
                            l.iwant = [0; 3];
                            l.aliased = true;
                        }
                    }
                }
            }
            MOp::Validate(i) => {
                let _ = mc.validate(&ids[*i]);
                if let Some(l) = lives[*i].as_mut() {
                    l.validated = true;
                }
            }
            MOp::Remove(i) => {
                let _ = mc.remove(&ids[*i]);
                if lives[*i].take().is_some() {
                    stats[5] += 1;
                }
            }
            MOp::ObserveDup(i, p) => mc.observe_duplicate(&ids[*i], &peers[*p]),
            MOp::Shift => {
                mc.shift();
                s += 1;
                for i in 0..NIDS {
                    if lives[i].as_ref().is_some_and(|l| s - l.put_shift >= h) {
                        lives[i] = None;
                        stats[3] += 1;
                    }
                    entries[i].retain(|p| s - *p < h);
                }
            }
            MOp::Iwant(i, p) => {
                let got = mc.get_with_iwant_counts(&ids[*i], &peers[*p]);
                let life = lives[*i].clone();
                match (&got, &life) {
                    (Some(_), None) => bad.push(("mcache-iwant-outside-history".into(), format!("id{i} returned for IWANT but it is not within history_length={history} shifts (or was removed)"), step)),
                    (Some(_), Some(l)) if !l.validated => bad.push(("mcache-iwant-unvalidated".into(), format!("unvalidated id{i} returned for IWANT"), step)),
                    (Some((m, c)), Some(l)) => {
                        stats[0] += 1;
                        if m.data != vec![b'm', *i as u8] {
                            bad.push(("mcache-iwant-wrong-message".into(), format!("IWANT id{i} returned another message"), step));
                        }
                        let want = l.iwant[*p] + 1;
                        if !l.aliased && *c != want {
                            bad.push(("mcache-iwant-count".into(), format!("IWANT count for (id{i}, peer{p}) is {c}, reference {want}"), step));
                        }
                        lives[*i].as_mut().unwrap().iwant[*p] = if l.aliased { *c } else { want };
                    }
                    (None, Some(l)) if l.validated && !l.aliased => {
                        bad.push(("mcache-iwant-missing".into(), format!("validated id{i} put {} shifts ago (history_length={history}) not returned for IWANT", s - l.put_shift), step))
                    }
                    (None, _) => stats[1] += 1,
                }
            }
            MOp::Gossip(t) => {
                let got = mc.get_gossip_message_ids(&topics[*t]);
                stats[2] += got.len() as u64;
                let mut seen = [0u32; NIDS];
                for id in &got {
                    let Some(i) = ids.iter().position(|x| x == id) else {
                        bad.push(("mcache-gossip-unknown-id".into(), format!("gossip offered an id that was never put: {id:?}"), step));
                        continue;
                    };
                    seen[i] += 1;
                    match &lives[i] {
                        None => bad.push(("mcache-gossip-outside-window".into(), format!("id{i} offered for gossip but not in the cache window (history_length={history})"), step)),
                        Some(l) if !l.validated => bad.push(("mcache-gossip-unvalidated".into(), format!("unvalidated id{i} offered for gossip"), step)),
                        Some(l) if s - l.put_shift >= g => bad.push(("mcache-gossip-outside-window".into(), format!("id{i} put {} shifts ago offered for gossip, history_gossip={gossip}", s - l.put_shift), step)),
                        Some(_) if topic_of(i) != *t => bad.push(("mcache-gossip-wrong-topic".into(), format!("id{i} offered for the other topic"), step)),
                        Some(l) => {
                            if !l.aliased && seen[i] > 1 {
                                bad.push(("mcache-gossip-duplicate-id".into(), format!("id{i} offered {} times", seen[i]), step));
                            }
                        }
                    }
                }
                for i in 0..NIDS {
                    if let Some(l) = &lives[i] {
                        if !l.aliased && l.validated && topic_of(i) == *t && s - l.put_shift < g && seen[i] == 0 {
                            bad.push(("mcache-gossip-missing".into(), format!("validated id{i} put {} shifts ago not offered, history_gossip={gossip}", s - l.put_shift), step));
                        }
                    }
                }
            }
        }
    }
    (bad, stats)
}

fn dop_json(ops: &[DOp]) -> Vec<String> {
    ops.iter()
        .map(|o| match o {
            DOp::Insert(k) => format!("insert(id{k})"),
            DOp::Contains(k) => format!("contains(id{k})"),
            DOp::Advance(d) => format!("advance({d:?})"),
        })
        .collect()
}

pub fn run(args: &Args) -> i32 {
    let check = Check::new(
        args,
        "exploration",
        "a case = one PRNG op history against one cache instance (DuplicateCache: insert/contains/advance on a frozen virtual clock; \
         MessageCache: put/validate/remove/shift/gossip/iwant/observe_duplicate) replayed against a reference model; \
         non-trivial = history in which at least one entry expired (dup) / at least one message left the window by shift and one IWANT succeeded (mcache); distinct by op history + parameters",
    );
    let tiny = args.extra.get("budget").is_some_and(|b| b == "tiny");
    let n = if tiny { 24 } else { args.tier.pick(6_000u64, 6_000_000) };
    let peers = [PeerId::random(), PeerId::random(), PeerId::random()];
    vmon::par_cases(&check, n, args.threads, |i, rng| {
        if i % 2 == 0 {
            let ttl = *rng.pick(&[Duration::from_millis(1), Duration::from_millis(10), Duration::from_millis(100), Duration::from_secs(1), Duration::from_secs(60)]);
            let len = if tiny { 20 } else { 20 + rng.usize(60) };
            let ops = dup_history(rng, ttl, len);
            let mut sg = Sig::new().u64(ttl.as_nanos() as u64);
            for o in dop_json(&ops) {
                sg.push_str(&o);
            }
            match catch(|| run_dup(ttl, &ops)) {
                Err(p) => {
                    clock::reset();
                    check.violation(format!("panic@{}", p.site()), p.msg.clone(), json!({"cache": "dup", "ttl_ns": ttl.as_nanos() as u64, "ops": dop_json(&ops)}));
                    check.case(sg.0, true);
                }
                Ok((bad, st)) => {
                    for (sig, why, step) in bad {
                        check.count(&format!("violations::{sig}"), 1);
                        check.violation(sig, why, json!({"cache": "dup", "ttl_ns": ttl.as_nanos() as u64, "ops": dop_json(&ops[..=step]), "failing_step": step}));
                    }
                    check.count("dup_insert_new", st[0]);
                    check.count("dup_insert_within_ttl", st[1]);
                    check.count("dup_contains_within_ttl", st[2]);
                    check.count("dup_insert_after_expiry", st[3]);
                    check.count("dup_ops", ops.len() as u64);
                    check.case(sg.0, st[3] > 0);
                    if check.want_sample() && st[3] > 1 && i > 8 {
                        check.sample(json!({"cache": "dup", "ttl_ns": ttl.as_nanos() as u64, "ops": dop_json(&ops)}));
                    }
                }
            }
        } else {
            let history = rng.usize(7);
            let gossip = rng.usize(history + 1);
            let len = if tiny { 30 } else { 30 + rng.usize(90) };
            let ops = mc_history(rng, len);
            let mut sg = Sig::new().u64(history as u64).u64(gossip as u64);
            let opsj: Vec<String> = ops.iter().map(|o| format!("{o:?}")).collect();
            for o in &opsj {
                sg.push_str(o);
            }
            match catch(|| run_mc(history, gossip, &ops, &peers)) {
                Err(p) => {
                    check.violation(format!("panic@{}", p.site()), p.msg.clone(), json!({"cache": "mcache", "history_length": history, "history_gossip": gossip, "ops": opsj}));
                    check.case(sg.0, true);
                }
                Ok((bad, st)) => {
                    for (sig, why, step) in bad {
                        check.count(&format!("violations::{sig}"), 1);
                        check.violation(sig, why, json!({"cache": "mcache", "history_length": history, "history_gossip": gossip, "ops": &opsj[..=step], "failing_step": step}));
                    }
                    check.count("mc_iwant_returned", st[0]);
                    check.count("mc_iwant_none", st[1]);
                    check.count("mc_gossip_ids_offered", st[2]);
                    check.count("mc_left_window_by_shift", st[3]);
                    check.count("mc_aliased_lives", st[4]);
                    check.count("mc_removes", st[5]);
                    check.count("mc_ops", ops.len() as u64);
                    check.distinct("mc_params_seen", (history * 8 + gossip) as u64);
                    check.case(sg.0, st[3] > 0 && st[0] > 0);
                    if check.want_sample() && st[3] > 1 && st[0] > 2 && i > 8 {
                        check.sample(json!({"cache": "mcache", "history_length": history, "history_gossip": gossip, "ops": opsj}));
                    }
                }
            }
        }
    });
    check.note("exhaustive", json!(false));
    check.note("clock", json!("virtual (crate clock shim frozen per thread; time moves only by advance)"));
    check.finish()
}
