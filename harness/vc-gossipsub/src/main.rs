mod c34;
mod util;

fn main() {
    vmon::run_main(&[("C34", c34::run)]);
}
