fn main() {
    vmon::run_main(&[]);
}
