mod c30;
mod c31;
mod c32;
mod c33;
mod c34;
mod util;

fn main() {
    vmon::run_main(&[("C30", c30::run), ("C31", c31::run), ("C32", c32::run), ("C33", c33::run), ("C34", c34::run)]);
}
