//! C47 — relay resource limits hold.
//!
//! One real `relay::Behaviour` (node 0, wrapped in `vnet::Recorder`, status forced to `Enable`, rate
//! limiters removed, small `max_reservations(_per_peer)` / `max_circuits(_per_peer)`, hour-long
//! reservation and circuit durations so nothing expires inside a case) and 2-4 `Raw` peers with 1-4
//! connections each. The raw peers speak `/libp2p/circuit/relay/0.2.0/hop` by hand (`vmon::pb`): HOP
//! RESERVE on any of their connections (new reservations and renewals), HOP CONNECT to any peer (with or
//! without a reservation), and answer `/libp2p/circuit/relay/0.2.0/stop` CONNECT on the destination side
//! (OK / refusal / silence), so circuits really get established: a token written into the source end
//! must come out of the destination end. Requests are issued in PRNG batches of 1-4 *before* the net is
//! stepped, so admission decisions race; circuits and connections are closed again at random.
//!
//! Oracle, two independent views, both from the statement:
//!  * wire view, at every quiescent point: a reservation is held for (peer, connection) from the HOP
//!    STATUS OK answer until the harness starts closing that connection; a circuit exists from the STATUS
//!    OK answer to the source until the harness starts closing either end (so the oracle can only
//!    under-count). Then: reservations of one peer <= max_reservations_per_peer, all <= max_reservations,
//!    circuits involving one peer (as source or destination) <= max_circuits_per_peer, all <= max_circuits.
//!  * event view, after every relay `Event`: fold `CircuitReqAccepted` (+1) / `CircuitClosed` (-1) per
//!    (src, dst); same two circuit bounds.
//! Signatures: `reservations-per-peer-exceeded`, `reservations-total-exceeded`, `circuits-total-exceeded`,
//! `circuits-per-peer-exceeded/{as-source,as-destination,mixed}` (role of the over-committed peer in its
//! circuits at that moment).
//! Not judged: refusals (a renewal refused at the total cap, NO_RESERVATION, ...), reservation expiry
//! (`ReservationTimedOut` needs the real 1h timer), `ReservationClosed` events (emitted for every closed
//! connection, they carry no connection id; counted only), circuits from a peer to itself (not generated).
use std::{
    collections::{HashMap, HashSet},
    time::Duration,
};

use either::Either;
use libp2p_core::{Multiaddr, multiaddr::Protocol};
use libp2p_identity::PeerId;
use libp2p_relay as relay;
use libp2p_swarm::{ConnectionId, SwarmEvent, dial_opts::DialOpts};
use vmon::{Args, Check, Rng, Sig, json, pb::Msg};
use vnet::{Net, Raw, RawCtl, RawEvent, RawStream, Recorder};

type B = Either<Recorder<relay::Behaviour>, Raw>;
type Ev = Either<relay::Event, RawEvent>;
const HOP: &str = "/libp2p/circuit/relay/0.2.0/hop";
const STOP: &str = "/libp2p/circuit/relay/0.2.0/stop";
const OK: u64 = 100;
const RESOURCE_LIMIT_EXCEEDED: u64 = 201;

fn mem(n: u64) -> Multiaddr {
    Multiaddr::empty().with(Protocol::Memory(n))
}

#[derive(Clone, Copy, Debug)]
struct Limits {
    res: usize,
    res_peer: usize,
    circ: usize,
    circ_peer: usize,
}

#[derive(Clone, Copy, PartialEq, Eq, Debug)]
enum Kind {
    Reserve,
    Connect { dst: usize },
}

struct Pending {
    id: u64,
    kind: Kind,
    node: usize,
    conn: ConnectionId,
    tag: u64,
    stream: Option<RawStream>,
    written: bool,
    done: bool,
}

struct Circuit {
    id: u64,
    src: usize,
    src_conn: ConnectionId,
    dst: usize,
    hop: RawStream,
    stop: Option<RawStream>,
    alive: bool,
}

struct Rig {
    net: Net<B>,
    ctl: Vec<Option<RawCtl>>,
    relay: PeerId,
    limits: Limits,
    // oracle state (wire view)
    reservations: HashSet<(usize, ConnectionId)>,
    circuits: Vec<Circuit>,
    pending: Vec<Pending>,
    answered_stop: HashSet<(usize, usize)>,
    open_stops: Vec<(usize, RawStream, Vec<u8>)>,
    closing: HashSet<(usize, ConnectionId)>,
    // event view
    ev_circuits: HashMap<(PeerId, PeerId), i64>,
    ev_log: Vec<String>,
    history: Vec<String>,
    next_id: u64,
    stats: HashMap<&'static str, u64>,
    violations: Vec<(String, String)>,
}

fn judge_circuits(pairs: &[(PeerId, PeerId)], l: &Limits, view: &str, out: &mut Vec<(String, String)>) {
    if pairs.len() > l.circ {
        out.push(("circuits-total-exceeded".into(), format!("{view}: {} circuits, max_circuits={}", pairs.len(), l.circ)));
    }
    let mut peers: Vec<PeerId> = pairs.iter().flat_map(|(a, b)| [*a, *b]).collect();
    peers.sort();
    peers.dedup();
    for p in peers {
        let mine: Vec<&(PeerId, PeerId)> = pairs.iter().filter(|(a, b)| *a == p || *b == p).collect();
        if mine.len() > l.circ_peer {
            let as_src = mine.iter().filter(|(a, _)| *a == p).count();
            let role = if as_src == mine.len() {
                "as-source"
            } else if as_src == 0 {
                "as-destination"
            } else {
                "mixed"
            };
            out.push((
                format!("circuits-per-peer-exceeded/{role}"),
                format!("{view}: peer {p} is part of {} circuits ({as_src} as source), max_circuits_per_peer={}", mine.len(), l.circ_peer),
            ));
        }
    }
}

impl Rig {
    fn stat(&mut self, k: &'static str) {
        *self.stats.entry(k).or_insert(0) += 1;
    }

    fn step_net(&mut self) -> bool {
        let limits = self.limits;
        let ev_circuits = &mut self.ev_circuits;
        let ev_log = &mut self.ev_log;
        let violations = &mut self.violations;
        let stats = &mut self.stats;
        let mut sink = |_: &mut Net<B>, i: usize, ev: SwarmEvent<Ev>| {
            if i != 0 {
                return;
            }
            let SwarmEvent::Behaviour(Either::Left(e)) = ev else { return };
            #[allow(deprecated)]
            match e {
                relay::Event::ReservationReqAccepted { src_peer_id, renewed } => {
                    ev_log.push(format!("ReservationReqAccepted {{ {src_peer_id}, renewed: {renewed} }}"));
                    *stats.entry(if renewed { "ev_reservation_renewed" } else { "ev_reservation_accepted" }).or_insert(0) += 1;
                }
                relay::Event::ReservationReqDenied { src_peer_id, .. } => {
                    ev_log.push(format!("ReservationReqDenied {{ {src_peer_id} }}"));
                    *stats.entry("ev_reservation_denied").or_insert(0) += 1;
                }
                relay::Event::ReservationClosed { src_peer_id } => {
                    ev_log.push(format!("ReservationClosed {{ {src_peer_id} }}"));
                    *stats.entry("ev_reservation_closed").or_insert(0) += 1;
                }
                relay::Event::ReservationTimedOut { src_peer_id } => ev_log.push(format!("ReservationTimedOut {{ {src_peer_id} }}")),
                relay::Event::CircuitReqDenied { src_peer_id, dst_peer_id, .. } => {
                    ev_log.push(format!("CircuitReqDenied {{ {src_peer_id} -> {dst_peer_id} }}"));
                    *stats.entry("ev_circuit_denied").or_insert(0) += 1;
                }
                relay::Event::CircuitReqAccepted { src_peer_id, dst_peer_id } => {
                    ev_log.push(format!("CircuitReqAccepted {{ {src_peer_id} -> {dst_peer_id} }}"));
                    *stats.entry("ev_circuit_accepted").or_insert(0) += 1;
                    *ev_circuits.entry((src_peer_id, dst_peer_id)).or_insert(0) += 1;
                    let mut pairs = vec![];
                    for ((a, b), n) in ev_circuits.iter() {
                        for _ in 0..(*n).max(0) {
                            pairs.push((*a, *b));
                        }
                    }
                    pairs.sort();
                    judge_circuits(&pairs, &limits, "event fold (CircuitReqAccepted - CircuitClosed)", violations);
                }
                relay::Event::CircuitClosed { src_peer_id, dst_peer_id, .. } => {
                    ev_log.push(format!("CircuitClosed {{ {src_peer_id} -> {dst_peer_id} }}"));
                    *stats.entry("ev_circuit_closed").or_insert(0) += 1;
                    *ev_circuits.entry((src_peer_id, dst_peer_id)).or_insert(0) -= 1;
                }
                other => ev_log.push(format!("{other:?}").chars().take(60).collect()),
            }
        };
        self.net.run(3_000_000, &mut sink)
    }

    /// run to quiescence, service the protocol (write requests, answer STOP, read answers, pair tokens)
    /// until nothing moves any more. false = not quiescent (inconclusive).
    fn pump(&mut self, rng: &mut Rng) -> bool {
        for _ in 0..40 {
            if !self.step_net() {
                return false;
            }
            let mut progress = false;
            // connections that vanished without the harness closing them: forget what they carried
            for i in 1..self.ctl.len() {
                let live: HashSet<ConnectionId> = self.ctl[i].as_ref().unwrap().connections(&self.relay).into_iter().collect();
                self.reservations.retain(|(n, c)| *n != i || live.contains(c));
                for c in self.circuits.iter_mut().filter(|c| c.alive) {
                    if (c.src == i && !live.contains(&c.src_conn)) || (c.dst == i && c.stop.as_ref().map(|s| !live.contains(&s.conn)).unwrap_or(false)) {
                        c.alive = false;
                    }
                }
            }
            // 1. requests whose stream is open now
            for k in 0..self.pending.len() {
                if self.pending[k].done || self.pending[k].written {
                    continue;
                }
                let ctl = self.ctl[self.pending[k].node].as_ref().unwrap().clone();
                if let Some(s) = ctl.by_tag(self.pending[k].tag) {
                    let msg = match self.pending[k].kind {
                        Kind::Reserve => Msg::new().varint(1, 0),
                        Kind::Connect { dst } => Msg::new().varint(1, 1).msg(2, &Msg::new().bytes(1, self.net.peer(dst).to_bytes())),
                    };
                    s.write(vmon::pb::frame(&msg.encode()));
                    self.pending[k].stream = Some(s);
                    self.pending[k].written = true;
                    self.net.touch(self.pending[k].node);
                    progress = true;
                } else if ctl.with(|s| s.open_failed.iter().any(|(_, _, t, _)| *t == self.pending[k].tag)) {
                    self.pending[k].done = true;
                    self.stat("hop_open_failed");
                }
            }
            // 2. STOP requests at destinations
            for j in 1..self.ctl.len() {
                let ctl = self.ctl[j].as_ref().unwrap().clone();
                for s in ctl.find_all(&self.relay, STOP, true) {
                    if self.answered_stop.contains(&(j, s.id)) {
                        continue;
                    }
                    let frames = s.take_frames();
                    let Some(f) = frames.first() else { continue };
                    self.answered_stop.insert((j, s.id));
                    progress = true;
                    let src = Msg::decode(f).and_then(|m| m.all_msgs(2).first().and_then(|p| p.get_bytes(1).map(|b| b.to_vec()))).and_then(|b| PeerId::from_bytes(&b).ok());
                    match rng.weighted(&[85, 10, 5]) {
                        0 => {
                            s.write(vmon::pb::frame(&Msg::new().varint(1, 1).varint(4, OK).encode()));
                            self.history.push(format!("node {j}: STOP CONNECT from {:?} answered OK", src.map(|p| p.to_string())));
                            self.open_stops.push((j, s, vec![]));
                            self.stat("stop_ok");
                        }
                        1 => {
                            s.write(vmon::pb::frame(&Msg::new().varint(1, 1).varint(4, 202).encode()));
                            s.close();
                            self.history.push(format!("node {j}: STOP CONNECT refused (PERMISSION_DENIED)"));
                            self.stat("stop_refused");
                        }
                        _ => {
                            s.close();
                            self.history.push(format!("node {j}: STOP CONNECT closed without answer"));
                            self.stat("stop_closed");
                        }
                    }
                    self.net.touch(j);
                }
            }
            // 3. answers to HOP requests
            for k in 0..self.pending.len() {
                if self.pending[k].done || !self.pending[k].written {
                    continue;
                }
                let s = self.pending[k].stream.clone().unwrap();
                let frames = s.take_frames();
                let st = s.state();
                let Some(f) = frames.first() else {
                    if st.read_eof || st.read_err.is_some() {
                        self.pending[k].done = true;
                        progress = true;
                        let (id, kind) = (self.pending[k].id, self.pending[k].kind);
                        self.history.push(format!("  request #{id} {kind:?}: stream ended without an answer"));
                        self.stat("hop_no_answer");
                    }
                    continue;
                };
                self.pending[k].done = true;
                progress = true;
                let status = Msg::decode(f).and_then(|m| m.get_varint(5)).unwrap_or(0);
                let (id, node, conn, kind) = (self.pending[k].id, self.pending[k].node, self.pending[k].conn, self.pending[k].kind);
                self.history.push(format!("  request #{id} {kind:?} by node {node} on {conn:?}: status {status}"));
                if status == RESOURCE_LIMIT_EXCEEDED {
                    self.stat("hop_resource_limit_exceeded");
                }
                match kind {
                    Kind::Reserve if status == OK => {
                        if self.closing.contains(&(node, conn)) {
                            self.stat("reserve_ok_on_closing_connection");
                        } else if self.reservations.insert((node, conn)) {
                            self.stat("reservations_accepted");
                        } else {
                            self.stat("reservations_renewed");
                        }
                    }
                    Kind::Connect { dst } if status == OK => {
                        self.stat("circuits_established");
                        s.write(format!("<<c{id}>>").into_bytes());
                        self.net.touch(node);
                        let alive = !self.closing.contains(&(node, conn));
                        self.circuits.push(Circuit { id, src: node, src_conn: conn, dst, hop: s, stop: None, alive });
                    }
                    _ => self.stat("hop_denied"),
                }
            }
            // 4. tokens arriving at destinations pair the two ends of a circuit
            for (j, s, buf) in self.open_stops.iter_mut() {
                let more = s.take();
                if more.is_empty() {
                    continue;
                }
                buf.extend_from_slice(&more);
                let text = String::from_utf8_lossy(buf).to_string();
                for c in self.circuits.iter_mut().filter(|c| c.stop.is_none() && c.dst == *j) {
                    if text.contains(&format!("<<c{}>>", c.id)) {
                        c.stop = Some(s.clone());
                        *self.stats.entry("circuit_tokens_delivered").or_insert(0) += 1;
                        progress = true;
                    }
                }
            }
            if !progress {
                return true;
            }
        }
        self.step_net()
    }

    fn judge_wire(&mut self) {
        let l = self.limits;
        let mut per_peer: HashMap<usize, usize> = HashMap::new();
        for (n, _) in &self.reservations {
            *per_peer.entry(*n).or_insert(0) += 1;
        }
        if self.reservations.len() > l.res {
            self.violations.push(("reservations-total-exceeded".into(), format!("wire view: {} reservations held, max_reservations={}", self.reservations.len(), l.res)));
        }
        let mut over: Vec<(usize, usize)> = per_peer.into_iter().filter(|(_, c)| *c > l.res_peer).collect();
        over.sort();
        if let Some((n, c)) = over.first() {
            self.violations.push((
                "reservations-per-peer-exceeded".into(),
                format!("wire view: node {n} holds reservations on {c} connections, max_reservations_per_peer={}", l.res_peer),
            ));
        }
        let mut pairs: Vec<(PeerId, PeerId)> = self.circuits.iter().filter(|c| c.alive).map(|c| (self.net.peer(c.src), self.net.peer(c.dst))).collect();
        pairs.sort();
        let mut v = vec![];
        judge_circuits(&pairs, &l, "wire view (HOP STATUS OK, not yet closed by the harness)", &mut v);
        self.violations.extend(v);
    }
}

pub fn run(args: &Args) -> i32 {
    let check = Check::new(
        args,
        "exploration",
        "one real relay (max_reservations 1-6, per peer 1-3, max_circuits 1-8, per peer 1-3, no rate limiters) + 2-4 raw peers with 1-4 \
         connections each; 8-40 PRNG batches of 1-4 concurrent ops (HOP RESERVE / renew, HOP CONNECT to reserved and unreserved peers, \
         close circuit, close connection, new connection), destinations answer STOP with OK/refusal/silence; limits judged on the wire \
         view at every quiescent point and on the relay's event stream after every event; non-trivial = a reservation and a circuit \
         were established and some request was refused with RESOURCE_LIMIT_EXCEEDED; distinct by (limits, op sequence)",
    );
    let tiny = args.extra.get("budget").map(|s| s == "tiny").unwrap_or(false);
    let cases = if tiny { 3 } else { args.tier.pick(1_200u64, 60_000) };
    let only: Option<u64> = args.extra.get("case").and_then(|s| s.parse().ok());
    vmon::par_cases_timed(&check, cases, args.threads, args.tier.pick(35.0, 420.0), |case_idx, rng: &mut Rng| {
        if only.is_some() && only != Some(case_idx) {
            return;
        }
        let res_peer = rng.range(1, 3) as usize;
        let circ_peer = rng.range(1, 3) as usize;
        let limits = Limits { res: rng.range(1, 6) as usize, res_peer, circ: rng.range(1, 8) as usize, circ_peer };
        let n_raw = rng.range(2, 4) as usize;
        let chunking = rng.chance(1, 4);
        let mut net: Net<B> = Net::new(rng.next_u64(), chunking);
        let idle_cfg = |c: libp2p_swarm::Config| c.with_idle_connection_timeout(Duration::from_secs(3600));
        net.add_node(
            vnet::keypair(rng.next_u64()),
            |k, _| {
                let mut cfg = relay::Config::default();
                cfg.max_reservations = limits.res;
                cfg.max_reservations_per_peer = limits.res_peer;
                cfg.max_circuits = limits.circ;
                cfg.max_circuits_per_peer = limits.circ_peer;
                cfg.reservation_duration = Duration::from_secs(3600);
                cfg.max_circuit_duration = Duration::from_secs(3600);
                cfg.max_circuit_bytes = 1 << 30;
                cfg.reservation_rate_limiters = vec![];
                cfg.circuit_src_rate_limiters = vec![];
                let mut b = relay::Behaviour::new(k.public().to_peer_id(), cfg);
                b.set_status(Some(relay::Status::Enable));
                Either::Left(Recorder::new(b))
            },
            idle_cfg,
        );
        net.swarm(0).listen_on(mem(100)).unwrap();
        let mut ctl: Vec<Option<RawCtl>> = vec![None];
        for i in 1..=n_raw {
            let mut c = None;
            net.add_node(
                vnet::keypair(rng.next_u64()),
                |_, exec| {
                    let (r, rc) = Raw::new(vec![STOP.to_string()], exec);
                    c = Some(rc);
                    Either::Right(r)
                },
                idle_cfg,
            );
            net.swarm(i).listen_on(mem(100 + i as u64)).unwrap();
            ctl.push(c);
        }
        let relay_peer = net.peer(0);
        let mut rig = Rig {
            net,
            ctl,
            relay: relay_peer,
            limits,
            reservations: HashSet::new(),
            circuits: vec![],
            pending: vec![],
            answered_stop: HashSet::new(),
            open_stops: vec![],
            closing: HashSet::new(),
            ev_circuits: HashMap::new(),
            ev_log: vec![],
            history: vec![],
            next_id: 1,
            stats: HashMap::new(),
            violations: vec![],
        };
        for i in 1..=n_raw {
            for _ in 0..rng.range(1, 4) {
                let _ = rig.net.swarm(i).dial(DialOpts::unknown_peer_id().address(mem(100)).build());
                rig.net.touch(i);
            }
        }
        if !rig.pump(rng) {
            check.inconclusive("setup not quiescent");
            return;
        }
        let mut sig = Sig::new().u64(limits.res as u64).u64(limits.res_peer as u64).u64(limits.circ as u64).u64(limits.circ_peer as u64);
        let mut tag = 1u64;
        let mut reported: HashSet<String> = HashSet::new();
        let batches = rng.range(8, 40);
        'outer: for _ in 0..batches {
            let k = rng.range(1, 4);
            for _ in 0..k {
                let node = 1 + rng.usize(n_raw);
                let conns = rig.ctl[node].as_ref().unwrap().connections(&relay_peer);
                let conns: Vec<ConnectionId> = conns.into_iter().filter(|c| !rig.closing.contains(&(node, *c))).collect();
                let op = rng.weighted(&[32, 36, 10, 8, 14]);
                sig.push_u64(op as u64 + 10 * node as u64);
                match op {
                    0 | 1 if !conns.is_empty() => {
                        let conn = *rng.pick(&conns);
                        let kind = if op == 0 {
                            Kind::Reserve
                        } else {
                            // prefer destinations that hold a reservation
                            let reserved: Vec<usize> = (1..=n_raw).filter(|d| *d != node && rig.reservations.iter().any(|(n, _)| n == d)).collect();
                            let dst = if !reserved.is_empty() && rng.chance(5, 6) { *rng.pick(&reserved) } else { 1 + (node + rng.usize(n_raw - 1)) % n_raw };
                            if dst == node {
                                continue;
                            }
                            Kind::Connect { dst }
                        };
                        tag += 1;
                        let id = rig.next_id;
                        rig.next_id += 1;
                        rig.ctl[node].as_ref().unwrap().open(relay_peer, Some(conn), HOP, tag);
                        rig.net.touch(node);
                        rig.history.push(format!("#{id} node {node} on {conn:?}: {kind:?}"));
                        rig.pending.push(Pending { id, kind, node, conn, tag, stream: None, written: false, done: false });
                    }
                    2 => {
                        let alive: Vec<usize> = (0..rig.circuits.len()).filter(|i| rig.circuits[*i].alive).collect();
                        if !alive.is_empty() {
                            let c = &mut rig.circuits[*rng.pick(&alive)];
                            c.alive = false; // from now on the oracle no longer counts it
                            c.hop.close();
                            if let Some(s) = &c.stop {
                                s.close();
                            }
                            let (id, src, dst) = (c.id, c.src, c.dst);
                            rig.net.touch(src);
                            rig.net.touch(dst);
                            rig.history.push(format!("close circuit #{id} ({src} -> {dst})"));
                        }
                    }
                    3 if !conns.is_empty() => {
                        let conn = *rng.pick(&conns);
                        rig.closing.insert((node, conn));
                        rig.reservations.remove(&(node, conn));
                        for c in rig.circuits.iter_mut().filter(|c| c.alive) {
                            let dst_hit = c.dst == node && c.stop.as_ref().map(|s| s.conn == conn).unwrap_or(true);
                            if (c.src == node && c.src_conn == conn) || dst_hit {
                                c.alive = false;
                            }
                        }
                        rig.ctl[node].as_ref().unwrap().close_connection(relay_peer, Some(conn));
                        rig.net.touch(node);
                        rig.history.push(format!("node {node} closes {conn:?}"));
                    }
                    4 if conns.len() < 5 => {
                        let _ = rig.net.swarm(node).dial(DialOpts::unknown_peer_id().address(mem(100)).build());
                        rig.net.touch(node);
                        rig.history.push(format!("node {node} opens another connection"));
                    }
                    _ => {}
                }
            }
            if !rig.pump(rng) {
                check.inconclusive("net not quiescent after a batch");
                return;
            }
            rig.judge_wire();
            for (s, what) in std::mem::take(&mut rig.violations) {
                if reported.insert(s.clone()) {
                    check.violation(
                        s,
                        what,
                        json!({"case": case_idx, "limits": {"max_reservations": limits.res, "max_reservations_per_peer": limits.res_peer, "max_circuits": limits.circ, "max_circuits_per_peer": limits.circ_peer},
                               "history": rig.history, "relay_events": rig.ev_log}),
                    );
                }
                if reported.len() >= 4 {
                    break 'outer;
                }
            }
        }
        let g = |k: &str| rig.stats.get(k).copied().unwrap_or(0);
        let nontrivial = g("reservations_accepted") > 0 && g("circuits_established") > 0 && g("hop_resource_limit_exceeded") > 0;
        check.case(sig.0, nontrivial);
        check.distinct("distinct_interleavings", rig.net.trace.0);
        for (k, v) in &rig.stats {
            check.count(k, *v);
        }
        check.count("requests", rig.pending.len() as u64);
        if check.want_sample() && nontrivial && reported.is_empty() {
            check.sample(json!({"limits": format!("{limits:?}"), "history": rig.history.iter().take(30).collect::<Vec<_>>(), "relay_events": rig.ev_log.iter().take(20).collect::<Vec<_>>()}));
        }
    });
    check.note("exhaustive", json!(false));
    check.finish()
}
