mod c45;
mod c46;
mod c47;

fn main() {
    vmon::run_main(&[("C45", c45::run), ("C46", c46::run), ("C47", c47::run)]);
}
