mod c45;

fn main() {
    vmon::run_main(&[("C45", c45::run)]);
}
