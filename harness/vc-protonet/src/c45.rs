//! C45 — every request gets exactly one outcome.
//!
//! 2..3 real swarms running `request_response::Behaviour` with a scripted codec: every request carries a
//! unique sequence number and a *plan* byte that makes one of the four codec calls fail, hang or work on
//! either side; short `request_timeout`; PRNG interleaving of send_request (connected peers, peers that
//! must be dialed first, unreachable peers), send_response / dropping the channel (immediately or later),
//! connection closes, injected substream faults (an outbound substream that breaks with an I/O error while its
//! protocol is negotiated, connection surviving) and scheduler steps. At the end everything outstanding is answered or dropped and the
//! net settles (timer wake-ups included).
//!
//! Oracle over each node's behaviour event stream: every OutboundRequestId returned by send_request has
//! exactly one Response or OutboundFailure; every inbound Message::Request has exactly one ResponseSent or
//! InboundFailure; no request id gets two terminal events; request ids are unique per node.
use std::{
    collections::{BTreeMap, HashMap, HashSet},
    io,
    time::Duration,
};

use futures::{AsyncRead, AsyncReadExt, AsyncWrite, AsyncWriteExt};
use libp2p_core::{Multiaddr, multiaddr::Protocol};
use libp2p_request_response as rr;
use libp2p_swarm::{StreamProtocol, SwarmEvent, dial_opts::DialOpts};
use vmon::{Args, Check, Rng, Sig, json};
use vnet::Net;

#[derive(Clone, Debug, PartialEq, Eq)]
pub struct Payload {
    seq: u64,
    plan: u8,
}

#[derive(Clone, Default)]
pub struct Scripted;

const PLAN_OK: u8 = 0;
const WRITE_REQ_FAIL: u8 = 1;
const READ_REQ_FAIL: u8 = 2;
const READ_REQ_HANG: u8 = 3;
const WRITE_RESP_FAIL: u8 = 4;
const READ_RESP_FAIL: u8 = 5;
const READ_RESP_HANG: u8 = 6;
const WRITE_REQ_HANG: u8 = 7;
const WRITE_RESP_HANG: u8 = 8;
const PLANS: [&str; 9] = ["ok", "write_request fails", "read_request fails", "read_request hangs", "write_response fails", "read_response fails", "read_response hangs", "write_request hangs", "write_response hangs"];

async fn read_payload<T: AsyncRead + Unpin + Send>(io: &mut T) -> io::Result<Payload> {
    let mut b = [0u8; 9];
    io.read_exact(&mut b).await?;
    Ok(Payload { seq: u64::from_be_bytes(b[..8].try_into().unwrap()), plan: b[8] })
}
async fn write_payload<T: AsyncWrite + Unpin + Send>(io: &mut T, p: &Payload) -> io::Result<()> {
    let mut b = p.seq.to_be_bytes().to_vec();
    b.push(p.plan);
    io.write_all(&b).await?;
    io.close().await
}
fn fail() -> io::Error {
    io::Error::other("scripted codec failure")
}

impl rr::Codec for Scripted {
    type Protocol = StreamProtocol;
    type Request = Payload;
    type Response = Payload;

    async fn read_request<T: AsyncRead + Unpin + Send>(&mut self, _: &StreamProtocol, io: &mut T) -> io::Result<Payload> {
        let p = read_payload(io).await?;
        match p.plan {
            READ_REQ_FAIL => Err(fail()),
            READ_REQ_HANG => futures::future::pending().await,
            _ => Ok(p),
        }
    }
    async fn read_response<T: AsyncRead + Unpin + Send>(&mut self, _: &StreamProtocol, io: &mut T) -> io::Result<Payload> {
        let p = read_payload(io).await?;
        match p.plan {
            READ_RESP_FAIL => Err(fail()),
            READ_RESP_HANG => futures::future::pending().await,
            _ => Ok(p),
        }
    }
    async fn write_request<T: AsyncWrite + Unpin + Send>(&mut self, _: &StreamProtocol, io: &mut T, req: Payload) -> io::Result<()> {
        match req.plan {
            WRITE_REQ_FAIL => Err(fail()),
            WRITE_REQ_HANG => futures::future::pending().await,
            _ => write_payload(io, &req).await,
        }
    }
    async fn write_response<T: AsyncWrite + Unpin + Send>(&mut self, _: &StreamProtocol, io: &mut T, res: Payload) -> io::Result<()> {
        match res.plan {
            WRITE_RESP_FAIL => Err(fail()),
            WRITE_RESP_HANG => futures::future::pending().await,
            _ => write_payload(io, &res).await,
        }
    }
}

type B = rr::Behaviour<Scripted>;

fn mem(n: u64) -> Multiaddr {
    Multiaddr::empty().with(Protocol::Memory(n))
}

#[derive(Default)]
struct NodeLog {
    sent: Vec<(rr::OutboundRequestId, u64, u8)>,
    out_terminal: HashMap<rr::OutboundRequestId, Vec<String>>,
    inbound: Vec<rr::InboundRequestId>,
    in_terminal: HashMap<rr::InboundRequestId, Vec<String>>,
    held: Vec<(rr::InboundRequestId, Payload, rr::ResponseChannel<Payload>)>,
    events: Vec<String>,
}

pub fn run(args: &Args) -> i32 {
    let check = Check::new(
        args,
        "exploration",
        "PRNG histories over 2-3 real request-response swarms with a scripted codec (9 plans: each codec call failing or hanging on either \
         side), request_timeout 60 ms, requests to connected / to-be-dialed / unreachable peers, responses sent, delayed or dropped, connection \
         closes, injected I/O errors during outbound stream negotiation; non-trivial = history with >= 1 Response, >= 1 OutboundFailure and >= 1 InboundFailure or ResponseSent; distinct by op sequence",
    );
    let cases = args.tier.pick(400u64, 30_000);
    let only: Option<u64> = args.extra.get("case").and_then(|s| s.parse().ok());
    vmon::par_cases_timed(&check, cases, args.threads, args.tier.pick(40.0, 420.0), |case_idx, rng: &mut Rng| {
        if only.is_some() && only != Some(case_idx) {
            return;
        }
        let n = 2 + rng.usize(2);
        let hangs_allowed = rng.chance(1, 3);
        let timeout = if hangs_allowed { Duration::from_millis(60) } else { Duration::from_secs(5) };
        let chunking = rng.chance(1, 4);
        let mut net: Net<B> = Net::new(rng.next_u64(), chunking);
        for i in 0..n {
            net.add_node(
                vnet::keypair(rng.next_u64()),
                |_, _| rr::Behaviour::with_codec(Scripted, [(StreamProtocol::new("/vrr/1"), rr::ProtocolSupport::Full)], rr::Config::default().with_request_timeout(timeout)),
                |c| c.with_idle_connection_timeout(Duration::from_secs(3600)),
            );
            net.swarm(i).listen_on(mem(100 + i as u64)).unwrap();
        }
        let peers: Vec<_> = (0..n).map(|i| net.peer(i)).collect();
        let unreachable = vnet::keypair(rng.next_u64()).public().to_peer_id();
        // a peer id nobody has, known to every node under the address of its neighbour: the dial reaches a node that
        // authenticates as somebody else (WrongPeerId)
        let ghost = vnet::keypair(rng.next_u64()).public().to_peer_id();
        for i in 0..n {
            net.swarm(i).behaviour_mut().add_address(&ghost, mem(100 + ((i + 1) % n) as u64));
        }
        let mut logs: Vec<NodeLog> = (0..n).map(|_| NodeLog::default()).collect();
        macro_rules! sink {
            () => {
                &mut |_: &mut Net<B>, i: usize, ev: SwarmEvent<rr::Event<Payload, Payload>>| {
                    if let SwarmEvent::Behaviour(e) = ev {
                        let l = &mut logs[i];
                        match e {
                            rr::Event::Message { message: rr::Message::Request { request_id, request, channel }, .. } => {
                                l.events.push(format!("Request({request_id}, seq {})", request.seq));
                                l.inbound.push(request_id);
                                l.held.push((request_id, request, channel));
                            }
                            rr::Event::Message { message: rr::Message::Response { request_id, response }, .. } => {
                                l.events.push(format!("Response({request_id}, seq {})", response.seq));
                                l.out_terminal.entry(request_id).or_default().push("Response".into());
                            }
                            rr::Event::OutboundFailure { request_id, error, .. } => {
                                l.events.push(format!("OutboundFailure({request_id}, {error:?})"));
                                l.out_terminal.entry(request_id).or_default().push(format!("OutboundFailure::{}", format!("{error:?}").split('(').next().unwrap_or("")));
                            }
                            rr::Event::InboundFailure { request_id, error, .. } => {
                                l.events.push(format!("InboundFailure({request_id}, {error:?})"));
                                l.in_terminal.entry(request_id).or_default().push(format!("InboundFailure::{}", format!("{error:?}").split('(').next().unwrap_or("")));
                            }
                            rr::Event::ResponseSent { request_id, .. } => {
                                l.events.push(format!("ResponseSent({request_id})"));
                                l.in_terminal.entry(request_id).or_default().push("ResponseSent".into());
                            }
                        }
                    }
                }
            };
        }
        net.run(10_000, sink!());
        // some pairs connected up front, others only know the address
        for i in 0..n {
            for j in 0..n {
                if i != j {
                    if rng.chance(1, 2) {
                        let _ = net.swarm(i).dial(DialOpts::unknown_peer_id().address(mem(100 + j as u64)).build());
                        net.touch(i);
                    } else if rng.chance(4, 5) {
                        net.swarm(i).behaviour_mut().add_address(&peers[j], mem(100 + j as u64));
                    }
                }
            }
        }
        net.run(rng.range(0, 400), sink!());
        let mut seq = 0u64;
        let mut sig = Sig::new();
        let mut used_hang = false;
        for _ in 0..rng.range(6, 30) {
            let i = rng.usize(n);
            let op = rng.weighted(&[30, 25, 6, 4, 35, 6]);
            sig.push_u64(op as u64);
            match op {
                0 => {
                    seq += 1;
                    let plan = if hangs_allowed && rng.chance(1, 4) {
                        used_hang = true;
                        *rng.pick(&[READ_REQ_HANG, READ_RESP_HANG, WRITE_REQ_HANG, WRITE_RESP_HANG])
                    } else {
                        *rng.pick(&[PLAN_OK, PLAN_OK, PLAN_OK, WRITE_REQ_FAIL, READ_REQ_FAIL, WRITE_RESP_FAIL, READ_RESP_FAIL])
                    };
                    let target = if rng.chance(1, 8) {
                        unreachable
                    } else if rng.chance(1, 8) {
                        ghost
                    } else {
                        peers[(i + 1 + rng.usize(n - 1)) % n]
                    };
                    let id = net.swarm(i).behaviour_mut().send_request(&target, Payload { seq, plan });
                    net.touch(i);
                    logs[i].sent.push((id, seq, plan));
                    logs[i].events.push(format!("send_request -> {id} seq {seq} plan '{}'{}", PLANS[plan as usize], if target == unreachable { " (unreachable peer)" } else if target == ghost { " (peer id nobody has; its address leads to another node)" } else { "" }));
                    sig.push_u64(plan as u64);
                }
                1 => {
                    // answer one held inbound request
                    if !logs[i].held.is_empty() {
                        let k = rng.usize(logs[i].held.len());
                        let (id, req, ch) = logs[i].held.remove(k);
                        logs[i].events.push(format!("send_response({id})"));
                        let _ = net.swarm(i).behaviour_mut().send_response(ch, Payload { seq: req.seq, plan: req.plan });
                        net.touch(i);
                    }
                }
                2 => {
                    if !logs[i].held.is_empty() {
                        let k = rng.usize(logs[i].held.len());
                        let (id, _, ch) = logs[i].held.remove(k);
                        logs[i].events.push(format!("drop channel({id})"));
                        drop(ch);
                        net.touch(i);
                    }
                }
                3 => {
                    let j = (i + 1 + rng.usize(n - 1)) % n;
                    logs[i].events.push(format!("disconnect_peer_id(node {j})"));
                    let _ = net.swarm(i).disconnect_peer_id(peers[j]);
                    net.touch(i);
                }
                5 => {
                    // fault injection: the next 1-2 outbound substreams node i opens break with an I/O error on first
                    // use, i.e. while the protocol is being negotiated; the connection itself survives
                    let k = 1 + rng.usize(2) as u32;
                    logs[i].events.push(format!("[fault] next {k} outbound substream(s) of this node break during negotiation"));
                    net.board.fail_next_outbound_streams(i, k);
                }
                _ => {
                    net.run(rng.range(1, 120), sink!());
                }
            }
        }
        for i in 0..n {
            net.board.fail_next_outbound_streams(i, 0);
        }
        // wind down: answer or drop everything that is held (new requests may still arrive), then settle
        let idle = Duration::from_millis(if used_hang { 400 } else { 150 });
        let mut quiescent = false;
        for round in 0..8 {
            quiescent = if round == 0 { net.run(2_000_000, sink!()) } else { net.settle(2_000_000, idle, sink!()) };
            let mut any = round == 0;
            for i in 0..n {
                while let Some((id, req, ch)) = logs[i].held.pop() {
                    any = true;
                    if rng.bool() {
                        logs[i].events.push(format!("send_response({id}) [wind-down]"));
                        let _ = net.swarm(i).behaviour_mut().send_response(ch, Payload { seq: req.seq, plan: PLAN_OK });
                    } else {
                        logs[i].events.push(format!("drop channel({id}) [wind-down]"));
                        drop(ch);
                    }
                    net.touch(i);
                }
            }
            if !any && quiescent {
                break;
            }
        }
        if !quiescent {
            check.inconclusive("net did not settle");
            return;
        }
        let (mut responses, mut out_fail, mut in_term) = (0u64, 0u64, 0u64);
        for (i, l) in logs.iter().enumerate() {
            let wit = || json!({"case": case_idx, "node": i, "events": l.events});
            let mut seen_ids = HashSet::new();
            for (id, seq, plan) in &l.sent {
                if !seen_ids.insert(*id) {
                    check.violation("outbound-request-id-reused", format!("node {i}: send_request returned {id} twice"), wit());
                }
                match l.out_terminal.get(id).map(|v| v.len()).unwrap_or(0) {
                    1 => {
                        if l.out_terminal[id][0] == "Response" { responses += 1 } else { out_fail += 1 }
                    }
                    0 => check.violation(format!("outbound-request-no-outcome:{}", PLANS[*plan as usize].replace(' ', "-")), format!("node {i}: request {id} (seq {seq}, plan '{}') got neither Response nor OutboundFailure", PLANS[*plan as usize]), wit()),
                    k => check.violation("outbound-request-multiple-outcomes", format!("node {i}: request {id} got {k} outcomes: {:?}", l.out_terminal[id]), wit()),
                }
            }
            for id in l.out_terminal.keys() {
                if !l.sent.iter().any(|(s, ..)| s == id) {
                    check.violation("outcome-for-unknown-outbound-request", format!("node {i}: outcome for request id {id} that send_request never returned"), wit());
                }
            }
            let mut seen_in = HashSet::new();
            for id in &l.inbound {
                if !seen_in.insert(*id) {
                    check.violation("inbound-request-id-reused", format!("node {i}: inbound request id {id} delivered twice"), wit());
                }
                match l.in_terminal.get(id).map(|v| v.len()).unwrap_or(0) {
                    1 => in_term += 1,
                    0 => check.violation("inbound-request-no-outcome", format!("node {i}: inbound request {id} got neither ResponseSent nor InboundFailure"), wit()),
                    k => check.violation("inbound-request-multiple-outcomes", format!("node {i}: inbound request {id} got {k} outcomes: {:?}", l.in_terminal[id]), wit()),
                }
            }
            for (id, v) in &l.in_terminal {
                if v.len() > 1 {
                    check.violation("inbound-request-multiple-outcomes", format!("node {i}: inbound request {id} got outcomes {v:?}"), wit());
                }
            }
        }
        check.case(sig.0, responses > 0 && out_fail > 0 && in_term > 0);
        check.distinct("distinct_interleavings", net.trace.0);
        check.count("outbound_responses", responses);
        check.count("outbound_failures", out_fail);
        check.count("inbound_outcomes", in_term);
        check.count("histories_with_hanging_codec", used_hang as u64);
        check.count("substream_faults_injected", net.board.with(|b| b.stream_faults_injected));
        let mut kinds: BTreeMap<String, u64> = BTreeMap::new();
        for l in &logs {
            for v in l.out_terminal.values().chain(l.in_terminal.values()) {
                for k in v {
                    *kinds.entry(k.clone()).or_insert(0) += 1;
                }
            }
        }
        for (k, v) in kinds {
            check.count(&format!("outcome_{k}"), v);
        }
        if check.want_sample() && responses > 0 && out_fail > 1 {
            check.sample(json!({"node0_events": logs[0].events.iter().take(30).collect::<Vec<_>>()}));
        }
    });
    check.finish()
}
