//! C46 — identify only reports authenticated peer information.
//!
//! One real `identify::Behaviour` node (node 0) in a `vnet::Net`, 2-3 `Raw` peers that answer the node's
//! `/ipfs/id/1.0.0` requests and send `/ipfs/id/push/1.0.0` pushes with *hand-encoded* Identify protobufs
//! (`vmon::pb`; signed envelopes and peer records are built and signed here, not with libp2p-core's
//! envelope code): own / another peer's / a stranger's / missing / garbage public key; signed peer record
//! valid, signed by another key, valid-but-for-another-peer, payload or signature tampered, interop
//! domain, wrong payload type, garbage; listen addresses without `/p2p`, ending in the sender's own
//! `/p2p`, ending in a foreign `/p2p`, relayed through a foreign peer. Several connections per peer, node
//! dialing and being dialed, PRNG order of responses and pushes, PRNG scheduling of the whole net.
//!
//! Every message carries a unique agent version (`m<id>`) and every address a unique IPv4 host, so each
//! `identify::Event::Received` names the message that caused it and each reported address the field
//! (`listenAddrs` or the record) it was taken from. Oracle on `Event::Received { peer_id, info }`:
//!  * `info.public_key` derives `peer_id`, the message came from that peer, and the message's key was
//!    the sender's own (push: own or absent)          `reported-key-does-not-derive-peer-id`,
//!                                                     `reported-info-with-mismatched-key/{identify,push}`
//!  * an address that was only inside a signed record is reported only if that record was validly signed
//!    by the sender for itself                         `record-addresses-reported/<record class>`
//!  * `info.signed_peer_record` is one of the valid own records the sender sent
//!                                                     `signed-record-reported/<record class>`
//!  * no reported listen address ends in `/p2p/<other>` `reported-addr-ends-in-foreign-p2p`
//!  * every reported address was sent by that peer     `reported-unknown-address`
//! Not judged: foreign `/p2p` components that are not last (relay hops: `/p2p/<relay>/p2p-circuit`;
//! counted as `reported_addrs_with_foreign_p2p_inside`); whether a valid record is preferred over
//! `listenAddrs`; the interop-format record (validly signed by the same peer: using it or ignoring it are
//! both fine); protocols / observed address. The first identify request of a connection is triggered by a
//! zero-length real timer: the rig waits for it with `Net::settle` (watchdog => inconclusive).
use std::{
    collections::{HashMap, HashSet},
    time::Duration,
};

use either::Either;
use libp2p_core::{Multiaddr, multiaddr::Protocol};
use libp2p_identify as identify;
use libp2p_identity::{Keypair, PeerId};
use libp2p_swarm::{SwarmEvent, dial_opts::DialOpts};
use vmon::{Args, Check, Rng, Sig, json, pb::Msg};
use vnet::{Net, Raw, RawCtl, RawEvent, RawStream};

type B = Either<identify::Behaviour, Raw>;
type Ev = Either<identify::Event, RawEvent>;
const ID: &str = "/ipfs/id/1.0.0";
const PUSH: &str = "/ipfs/id/push/1.0.0";
const LEGACY_DOMAIN: &str = "libp2p-routing-state";
const LEGACY_PTYPE: &[u8] = b"/libp2p/routing-state-record";
const INTEROP_DOMAIN: &str = "libp2p-peer-record";
const INTEROP_PTYPE: &[u8] = &[0x03, 0x01];

fn mem(n: u64) -> Multiaddr {
    Multiaddr::empty().with(Protocol::Memory(n))
}

#[derive(Clone, Copy, Debug, PartialEq, Eq)]
enum KeyC {
    Own,
    OtherRaw,
    Stranger,
    Missing,
    Garbage,
}
#[derive(Clone, Copy, Debug, PartialEq, Eq)]
enum RecC {
    None,
    Valid,
    InteropValid,
    SignedByOther,
    OfOtherPeer,
    /// valid record of the peer whose key is put into the message (only meaningful with a foreign key)
    ValidForMessageKey,
    TamperedPayload,
    TamperedSignature,
    WrongPayloadType,
    Garbage,
}
impl RecC {
    fn name(self) -> &'static str {
        match self {
            RecC::None => "none",
            RecC::Valid => "valid",
            RecC::InteropValid => "interop-valid",
            RecC::SignedByOther => "signed-by-other-key",
            RecC::OfOtherPeer => "record-of-other-peer",
            RecC::ValidForMessageKey => "record-of-message-key-owner",
            RecC::TamperedPayload => "tampered-payload",
            RecC::TamperedSignature => "tampered-signature",
            RecC::WrongPayloadType => "wrong-payload-type",
            RecC::Garbage => "garbage",
        }
    }
    fn acceptable(self) -> bool {
        matches!(self, RecC::Valid | RecC::InteropValid)
    }
}
#[derive(Clone, Copy, Debug, PartialEq, Eq)]
enum Suffix {
    None,
    OwnP2p,
    ForeignP2p,
    ForeignRelay,
    ForeignRelayToOwn,
    /// the sender names itself as the relay hop and somebody else as the target: ends in a foreign /p2p
    OwnRelayToForeign,
}

#[derive(Clone, Debug)]
struct Sent {
    id: u64,
    sender: usize,
    push: bool,
    key: KeyC,
    rec: RecC,
    envelope: Option<Vec<u8>>,
    desc: String,
}

#[derive(Clone, Copy, Debug)]
struct Origin {
    msg: u64,
    from_record: bool,
}

/// uvarint(len) ++ bytes
fn lp(out: &mut Vec<u8>, b: &[u8]) {
    vmon::pb::put_uvarint(out, b.len() as u64);
    out.extend_from_slice(b);
}

/// hand-built signed envelope carrying a peer record
fn envelope(signer: &Keypair, record_peer: &PeerId, addrs: &[Multiaddr], domain: &str, ptype: &[u8], seq: u64) -> (Vec<u8>, Vec<u8>, Vec<u8>) {
    let mut rec = Msg::new().bytes(1, record_peer.to_bytes()).varint(2, seq);
    for a in addrs {
        rec = rec.msg(3, &Msg::new().bytes(1, a.to_vec()));
    }
    let payload = rec.encode();
    let mut signed = vec![];
    lp(&mut signed, domain.as_bytes());
    lp(&mut signed, ptype);
    lp(&mut signed, &payload);
    let sig = signer.sign(&signed).expect("ed25519 signs");
    (Msg::new().bytes(1, signer.public().encode_protobuf()).bytes(2, ptype).bytes(3, &payload).bytes(5, &sig).encode(), payload, sig)
}

struct Gen<'a> {
    keys: &'a [Keypair],
    stranger: &'a Keypair,
    origins: HashMap<[u8; 4], Origin>,
    next_msg: u64,
}

impl Gen<'_> {
    fn addr(&mut self, rng: &mut Rng, msg: u64, k: u8, from_record: bool, sender: usize, suffix_out: &mut Vec<Suffix>) -> Multiaddr {
        let ip = [10, (msg >> 8) as u8, msg as u8, k];
        self.origins.insert(ip, Origin { msg, from_record });
        let own = self.keys[sender].public().to_peer_id();
        let other = if rng.bool() { self.stranger.public().to_peer_id() } else { self.keys[(sender % (self.keys.len() - 1)) + 1].public().to_peer_id() };
        let other = if other == own { self.stranger.public().to_peer_id() } else { other };
        let mut a = Multiaddr::empty().with(Protocol::Ip4(ip.into())).with(Protocol::Tcp(4000 + k as u16));
        let s = match rng.weighted(&[40, 20, 25, 8, 7, 7]) {
            5 => {
                a.push(Protocol::P2p(own));
                a.push(Protocol::P2pCircuit);
                a.push(Protocol::P2p(other));
                Suffix::OwnRelayToForeign
            }
            0 => Suffix::None,
            1 => {
                a.push(Protocol::P2p(own));
                Suffix::OwnP2p
            }
            2 => {
                a.push(Protocol::P2p(other));
                Suffix::ForeignP2p
            }
            3 => {
                a.push(Protocol::P2p(other));
                a.push(Protocol::P2pCircuit);
                Suffix::ForeignRelay
            }
            _ => {
                a.push(Protocol::P2p(other));
                a.push(Protocol::P2pCircuit);
                a.push(Protocol::P2p(own));
                Suffix::ForeignRelayToOwn
            }
        };
        suffix_out.push(s);
        a
    }

    /// build one identify / push message of `sender`; returns (bytes, bookkeeping)
    fn message(&mut self, rng: &mut Rng, sender: usize, push: bool) -> (Vec<u8>, Sent) {
        let id = self.next_msg;
        self.next_msg += 1;
        let n = self.keys.len();
        let own = &self.keys[sender];
        let other_raw = &self.keys[1 + (sender % (n - 1))]; // another raw peer (keys[0] is the node)
        let other_raw = if other_raw.public() == own.public() { self.stranger } else { other_raw };
        let key = if push {
            *rng.pick(&[KeyC::Own, KeyC::Own, KeyC::Missing, KeyC::Missing, KeyC::OtherRaw, KeyC::Stranger, KeyC::Garbage])
        } else {
            *rng.pick(&[KeyC::Own, KeyC::Own, KeyC::Own, KeyC::Own, KeyC::OtherRaw, KeyC::Stranger, KeyC::Missing, KeyC::Garbage])
        };
        let msg_key: Option<&Keypair> = match key {
            KeyC::Own => Some(own),
            KeyC::OtherRaw => Some(other_raw),
            KeyC::Stranger => Some(self.stranger),
            _ => None,
        };
        let rec = *rng.pick(&[
            RecC::None,
            RecC::None,
            RecC::Valid,
            RecC::Valid,
            RecC::InteropValid,
            RecC::SignedByOther,
            RecC::OfOtherPeer,
            RecC::ValidForMessageKey,
            RecC::TamperedPayload,
            RecC::TamperedSignature,
            RecC::WrongPayloadType,
            RecC::Garbage,
        ]);
        let mut sfx = vec![];
        let nf = rng.range(0, 3) as u8;
        let field_addrs: Vec<Multiaddr> = (0..nf).map(|k| self.addr(rng, id, k, false, sender, &mut sfx)).collect();
        let nr = rng.range(1, 3) as u8;
        let rec_addrs: Vec<Multiaddr> = if rec == RecC::None || rec == RecC::Garbage { vec![] } else { (0..nr).map(|k| self.addr(rng, id, 100 + k, true, sender, &mut sfx)).collect() };
        let own_id = own.public().to_peer_id();
        let env: Option<Vec<u8>> = match rec {
            RecC::None => None,
            RecC::Valid => Some(envelope(own, &own_id, &rec_addrs, LEGACY_DOMAIN, LEGACY_PTYPE, id).0),
            RecC::InteropValid => Some(envelope(own, &own_id, &rec_addrs, INTEROP_DOMAIN, INTEROP_PTYPE, id).0),
            RecC::SignedByOther => Some(envelope(other_raw, &own_id, &rec_addrs, LEGACY_DOMAIN, LEGACY_PTYPE, id).0),
            RecC::OfOtherPeer => Some(envelope(other_raw, &other_raw.public().to_peer_id(), &rec_addrs, LEGACY_DOMAIN, LEGACY_PTYPE, id).0),
            RecC::ValidForMessageKey => {
                let k = msg_key.unwrap_or(self.stranger);
                Some(envelope(k, &k.public().to_peer_id(), &rec_addrs, LEGACY_DOMAIN, LEGACY_PTYPE, id).0)
            }
            RecC::TamperedPayload => {
                // sign a record, then swap in a payload with other addresses under the old signature
                let (_, _, sig) = envelope(own, &own_id, &[mem(1)], LEGACY_DOMAIN, LEGACY_PTYPE, id);
                let (_, payload, _) = envelope(own, &own_id, &rec_addrs, LEGACY_DOMAIN, LEGACY_PTYPE, id);
                Some(Msg::new().bytes(1, own.public().encode_protobuf()).bytes(2, LEGACY_PTYPE).bytes(3, &payload).bytes(5, &sig).encode())
            }
            RecC::TamperedSignature => {
                let (_, payload, mut sig) = envelope(own, &own_id, &rec_addrs, LEGACY_DOMAIN, LEGACY_PTYPE, id);
                let i = rng.usize(sig.len());
                sig[i] ^= 1 << rng.below(8);
                Some(Msg::new().bytes(1, own.public().encode_protobuf()).bytes(2, LEGACY_PTYPE).bytes(3, &payload).bytes(5, &sig).encode())
            }
            RecC::WrongPayloadType => Some(envelope(own, &own_id, &rec_addrs, LEGACY_DOMAIN, b"/libp2p/other-record", id).0),
            RecC::Garbage => {
                let n = rng.range(1, 60) as usize;
                Some(rng.bytes(n))
            }
        };
        // ValidForMessageKey with the sender's own key is simply a valid own record
        let rec = if rec == RecC::ValidForMessageKey && key == KeyC::Own { RecC::Valid } else { rec };
        let mut m = Msg::new();
        match key {
            KeyC::Missing => {}
            KeyC::Garbage => {
                let n = rng.range(1, 40) as usize;
                m = m.bytes(1, rng.bytes(n))
            }
            _ => m = m.bytes(1, msg_key.unwrap().public().encode_protobuf()),
        }
        for a in &field_addrs {
            m = m.bytes(2, a.to_vec());
        }
        m = m.bytes(3, "/vc/proto/1").bytes(4, mem(7).to_vec()).bytes(5, "vc/1").bytes(6, format!("m{id}"));
        if let Some(e) = &env {
            m = m.bytes(8, e);
        }
        let desc = format!(
            "m{id} {} from node {sender}: key={key:?} record={} listenAddrs={:?} recordAddrs={:?}",
            if push { "push" } else { "identify" },
            rec.name(),
            field_addrs.iter().map(|a| a.to_string()).collect::<Vec<_>>(),
            rec_addrs.iter().map(|a| a.to_string()).collect::<Vec<_>>()
        );
        (vmon::pb::frame(&m.encode()), Sent { id, sender, push, key, rec, envelope: env, desc })
    }
}

pub fn run(args: &Args) -> i32 {
    let check = Check::new(
        args,
        "exploration",
        "one real identify node + 2-3 raw peers (1-2 connections each, dialing or dialed), every identify request answered and 0-3 \
         pushes per connection with hand-encoded messages: key in {own, other peer, stranger, missing, garbage} x signed record in \
         {none, valid, interop, signed by other, of other peer, of message-key owner, tampered payload/signature, wrong type, garbage} x \
         listen addresses with no / own / foreign /p2p / relay suffix, PRNG order and scheduling; non-trivial = at least one Received \
         event and at least one hostile message; distinct by message-class sequence",
    );
    let tiny = args.extra.get("budget").map(|s| s == "tiny").unwrap_or(false);
    let cases = if tiny { 3 } else { args.tier.pick(1_500u64, 60_000) };
    let only: Option<u64> = args.extra.get("case").and_then(|s| s.parse().ok());
    vmon::par_cases_timed(&check, cases, args.threads, args.tier.pick(35.0, 420.0), |case_idx, rng: &mut Rng| {
        if only.is_some() && only != Some(case_idx) {
            return;
        }
        let n_raw = 2 + rng.usize(2);
        let chunking = rng.chance(1, 3);
        let mut net: Net<B> = Net::new(rng.next_u64(), chunking);
        let idle_cfg = |c: libp2p_swarm::Config| c.with_idle_connection_timeout(Duration::from_secs(3600));
        let cache = *rng.pick(&[0usize, 100]);
        net.add_node(
            vnet::keypair(rng.next_u64()),
            |k, _| Either::Left(identify::Behaviour::new(identify::Config::new("vc/1".into(), k.public()).with_interval(Duration::from_secs(3600)).with_cache_size(cache))),
            idle_cfg,
        );
        net.swarm(0).listen_on(mem(100)).unwrap();
        let mut ctls: Vec<Option<RawCtl>> = vec![None];
        for i in 1..=n_raw {
            let mut ctl = None;
            net.add_node(
                vnet::keypair(rng.next_u64()),
                |_, exec| {
                    let (r, c) = Raw::new(vec![ID.to_string(), PUSH.to_string()], exec);
                    ctl = Some(c);
                    Either::Right(r)
                },
                idle_cfg,
            );
            net.swarm(i).listen_on(mem(100 + i as u64)).unwrap();
            ctls.push(ctl);
        }
        let keys: Vec<Keypair> = net.nodes.iter().map(|n| n.key.clone()).collect();
        let stranger = vnet::keypair(rng.next_u64());
        let p0 = net.peer(0);
        let peer_of: HashMap<PeerId, usize> = (0..=n_raw).map(|i| (net.peer(i), i)).collect();
        let mut received: Vec<(PeerId, identify::Info)> = vec![];
        macro_rules! sink {
            () => {
                &mut |_: &mut Net<B>, i: usize, ev: SwarmEvent<Ev>| {
                    if let (0, SwarmEvent::Behaviour(Either::Left(identify::Event::Received { peer_id, info, .. }))) = (i, ev) {
                        received.push((peer_id, info));
                    }
                }
            };
        }
        let idle = Duration::from_millis(25);
        let mut generator = Gen { keys: &keys, stranger: &stranger, origins: HashMap::new(), next_msg: 1 };
        let mut sent: Vec<Sent> = vec![];
        let mut answered: HashSet<(usize, usize)> = HashSet::new(); // (raw node, stream id)
        let mut tag = 1u64;
        let mut sig = Sig::new();
        let mut history: Vec<String> = vec![];
        let rounds = rng.range(1, 3);
        for round in 0..rounds {
            // new connections
            for i in 1..=n_raw {
                let k = if round == 0 { rng.range(1, 2) } else { rng.range(0, 1) };
                for _ in 0..k {
                    if rng.chance(1, 4) {
                        let _ = net.swarm(0).dial(DialOpts::unknown_peer_id().address(mem(100 + i as u64)).build());
                        net.touch(0);
                        history.push(format!("node 0 dials node {i}"));
                    } else {
                        let _ = net.swarm(i).dial(DialOpts::unknown_peer_id().address(mem(100)).build());
                        net.touch(i);
                        history.push(format!("node {i} dials node 0"));
                    }
                }
            }
            if !net.settle(2_000_000, idle, sink!()) {
                check.inconclusive("net did not settle after dialing");
                return;
            }
            // pending work: identify requests to answer, pushes to send
            enum Op {
                Answer(usize, RawStream),
                Push(usize, libp2p_swarm::ConnectionId),
            }
            let mut ops: Vec<Op> = vec![];
            for i in 1..=n_raw {
                let ctl = ctls[i].as_ref().unwrap();
                for s in ctl.find_all(&p0, ID, true) {
                    if answered.insert((i, s.id)) {
                        ops.push(Op::Answer(i, s));
                    }
                }
                for c in ctl.connections(&p0) {
                    for _ in 0..rng.weighted(&[30, 40, 20, 10]) {
                        ops.push(Op::Push(i, c));
                    }
                }
            }
            rng.shuffle(&mut ops);
            for op in ops {
                match op {
                    Op::Answer(i, s) => {
                        let (bytes, m) = generator.message(rng, i, false);
                        sig.push_u64(1 + ((m.key as u64) << 8) + ((m.rec as u64) << 16));
                        history.push(m.desc.clone());
                        sent.push(m);
                        s.write(bytes);
                        s.close();
                    }
                    Op::Push(i, c) => {
                        let ctl = ctls[i].as_ref().unwrap();
                        tag += 1;
                        ctl.open(p0, Some(c), PUSH, tag);
                        net.touch(i);
                        if !net.run(2_000_000, sink!()) {
                            check.inconclusive("net not quiescent while opening a push stream");
                            return;
                        }
                        let Some(s) = ctl.by_tag(tag) else {
                            history.push(format!("node {i}: push stream could not be opened"));
                            continue;
                        };
                        let (bytes, m) = generator.message(rng, i, true);
                        sig.push_u64(2 + ((m.key as u64) << 8) + ((m.rec as u64) << 16));
                        history.push(m.desc.clone());
                        sent.push(m);
                        s.write(bytes);
                        s.close();
                    }
                }
                if rng.chance(2, 3) && !net.run(2_000_000, sink!()) {
                    check.inconclusive("net not quiescent after a message");
                    return;
                }
            }
            if !net.settle(2_000_000, idle, sink!()) {
                check.inconclusive("net did not settle after messages");
                return;
            }
        }
        // ---------------------------------------------------------------- judge
        let by_tag: HashMap<String, &Sent> = sent.iter().map(|m| (format!("m{}", m.id), m)).collect();
        let wit = |extra: String| json!({"case": case_idx, "history": history, "event": extra});
        let (mut with_record, mut rec_addrs_reported, mut foreign_inside) = (0u64, 0u64, 0u64);
        for (peer, info) in &received {
            let ev_desc = format!(
                "Received {{ peer: {peer}, agent: {}, key -> {}, listen_addrs: {:?}, signed_peer_record: {} }}",
                info.agent_version,
                info.public_key.to_peer_id(),
                info.listen_addrs.iter().map(|a| a.to_string()).collect::<Vec<_>>(),
                info.signed_peer_record.is_some()
            );
            if info.public_key.to_peer_id() != *peer {
                check.violation("reported-key-does-not-derive-peer-id", format!("Received for {peer} carries a key deriving {}", info.public_key.to_peer_id()), wit(ev_desc.clone()));
            }
            let Some(m) = by_tag.get(&info.agent_version) else {
                check.violation("reported-unknown-message", format!("Received with agent version {:?} that no raw peer sent", info.agent_version), wit(ev_desc.clone()));
                continue;
            };
            if peer_of.get(peer) != Some(&m.sender) {
                check.violation("reported-under-wrong-peer", format!("message m{} was sent by node {} but reported for {peer}", m.id, m.sender), wit(ev_desc.clone()));
            }
            let key_ok = m.key == KeyC::Own || (m.push && m.key == KeyC::Missing) || (m.push && m.key == KeyC::Garbage);
            if !key_ok {
                check.violation(
                    format!("reported-info-with-mismatched-key/{}", if m.push { "push" } else { "identify" }),
                    format!("message m{} carried key class {:?} and was reported", m.id, m.key),
                    wit(ev_desc.clone()),
                );
            }
            for a in &info.listen_addrs {
                let origin = match a.iter().next() {
                    Some(Protocol::Ip4(ip)) => generator.origins.get(&ip.octets()).copied(),
                    _ => None,
                };
                match origin {
                    None => check.violation("reported-unknown-address", format!("{a} was never sent"), wit(ev_desc.clone())),
                    Some(o) => {
                        let om = sent.iter().find(|x| x.id == o.msg).unwrap();
                        if om.sender != m.sender {
                            check.violation("reported-unknown-address", format!("{a} was sent by node {}, reported for node {}", om.sender, m.sender), wit(ev_desc.clone()));
                        }
                        if o.from_record {
                            rec_addrs_reported += 1;
                            if !om.rec.acceptable() {
                                check.violation(
                                    format!("record-addresses-reported/{}", om.rec.name()),
                                    format!("{a} only occurs inside the signed record of m{} (class {}), yet it is reported as a listen address", om.id, om.rec.name()),
                                    wit(ev_desc.clone()),
                                );
                            }
                        }
                    }
                }
                let comps: Vec<Protocol<'_>> = a.iter().collect();
                if let Some(Protocol::P2p(x)) = comps.last() {
                    if x != peer {
                        check.violation("reported-addr-ends-in-foreign-p2p", format!("{a} reported for {peer}"), wit(ev_desc.clone()));
                    }
                }
                if comps[..comps.len().saturating_sub(1)].iter().any(|c| matches!(c, Protocol::P2p(x) if x != peer)) {
                    foreign_inside += 1;
                }
            }
            if let Some(env) = &info.signed_peer_record {
                with_record += 1;
                let bytes = env.clone().into_protobuf_encoding();
                match sent.iter().find(|x| x.envelope.as_deref() == Some(&bytes[..])) {
                    Some(x) if x.rec.acceptable() && x.sender == m.sender => {}
                    Some(x) => check.violation(format!("signed-record-reported/{}", x.rec.name()), format!("the envelope of m{} (class {}, sender node {}) is reported as signed_peer_record", x.id, x.rec.name(), x.sender), wit(ev_desc.clone())),
                    None => check.violation("signed-record-reported/unknown", "reported signed_peer_record matches no envelope that was sent".to_string(), wit(ev_desc.clone())),
                }
            }
        }
        let hostile = sent.iter().filter(|m| !(m.key == KeyC::Own || (m.push && m.key == KeyC::Missing)) || !(m.rec == RecC::None || m.rec.acceptable())).count() as u64;
        check.case(sig.0, !received.is_empty() && hostile > 0);
        check.distinct("distinct_interleavings", net.trace.0);
        check.count("messages_sent", sent.len() as u64);
        check.count("messages_push", sent.iter().filter(|m| m.push).count() as u64);
        check.count("messages_hostile", hostile);
        check.count("events_received", received.len() as u64);
        check.count("events_with_signed_record", with_record);
        check.count("record_addresses_reported", rec_addrs_reported);
        check.count("reported_addrs_with_foreign_p2p_inside", foreign_inside);
        for m in &sent {
            check.count(&format!("sent_key_{:?}", m.key), 1);
            check.count(&format!("sent_record_{}", m.rec.name()), 1);
        }
        if check.want_sample() && received.len() > 2 && hostile > 2 {
            check.sample(json!({"history": history.iter().take(14).collect::<Vec<_>>(), "received_events": received.len()}));
        }
    });
    check.note("exhaustive", json!(false));
    check.finish()
}
