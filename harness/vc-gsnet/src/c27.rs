//! C27 — gossipsub delivers each published message once to every subscriber.
//!
//! 3..10 real gossipsub swarms (Strict signing, heartbeats only on demand through the verif hook) plus
//! 0..2 hand-speaking Raw taps that subscribe, graft and publish signed messages; PRNG connected
//! topologies (spanning tree + extra edges, degree <= 6 so that every link can be grafted); PRNG order of
//! publishes, heartbeats and scheduler steps.
//!
//! Setup is *verified*: after subscription and K heartbeats the union of the meshes must connect all real
//! nodes, otherwise the case is inconclusive (the statement presupposes a connected network).
//! Oracle: per (node, message) the count of `Event::Message` is <= 1 at all times and == 1 for every
//! real subscriber other than the publisher once the net is quiescent after the final heartbeats; the
//! publisher's application gets 0; a tap never receives a message whose source is the tap itself or that
//! the tap itself sent to that node.
use std::collections::{BTreeMap, BTreeSet, HashMap, HashSet};

use either::Either;
use libp2p_gossipsub as gs;
use libp2p_swarm::SwarmEvent;
use vmon::{Args, Check, Rng, Sig, json};
use vnet::Net;

use crate::{
    rig::{B, Ev, Rig, base_config},
    wire::{PubMsg, Rpc},
};

const TOPIC: &str = "t";

pub fn run(args: &Args) -> i32 {
    let check = Check::new(
        args,
        "exploration",
        "PRNG connected topologies of 3-10 real gossipsub swarms + 0-2 raw taps, PRNG publish/heartbeat/scheduler order; cases whose mesh does \
         not connect all real nodes after setup are inconclusive; non-trivial = case with >= 4 real nodes, >= 3 messages and a non-complete \
         topology (multi-hop forwarding); distinct by (topology, publish order, scheduler decision hash)",
    );
    let cases = args.tier.pick(250u64, 20_000);
    let only: Option<u64> = args.extra.get("case").and_then(|s| s.parse().ok());
    vmon::par_cases_timed(&check, cases, args.threads, args.tier.pick(40.0, 420.0), |case_idx, rng: &mut Rng| {
        if only.is_some() && only != Some(case_idx) {
            return;
        }
        let n = 3 + rng.usize(8);
        let taps = if rng.chance(1, 2) { rng.usize(3) } else { 0 };
        let chunking = rng.chance(1, 4);
        let mut rig: Rig = Rig::new(rng, chunking);
        // application-level validation (`validate_messages`): the harness plays the application and answers
        // Accept at PRNG-chosen later points, so that further copies can arrive while a message is still pending
        let any_validating = rng.chance(1, 2);
        let mut validating: Vec<bool> = (0..n).map(|_| any_validating && rng.chance(1, 2)).collect();
        let shared_tap_node = if taps == 2 && rng.chance(2, 3) { Some(rng.usize(n)) } else { None };
        if let Some(x) = shared_tap_node
            && rng.chance(3, 4)
        {
            validating[x] = true;
        }
        // message authenticity of the whole net: signed (Strict), or a random author per message (Permissive:
        // unsigned messages with source and sequence number; signed tap messages are still fine)
        let random_author = rng.chance(1, 4);
        for i in 0..n {
            let cfg = {
                let mut b = base_config();
                if random_author {
                    b.validation_mode(gs::ValidationMode::Permissive);
                }
                b.mesh_n(6).mesh_n_low(4).mesh_n_high(12).mesh_outbound_min(2).flood_publish(rng.bool());
                if validating[i] {
                    b.validate_messages();
                }
                b.build().expect("config")
            };
            rig.add_gs(rng.next_u64() ^ i as u64, |k| {
                let auth = if random_author { gs::MessageAuthenticity::RandomAuthor } else { gs::MessageAuthenticity::Signed(k.clone()) };
                gs::Behaviour::new_with_subscription_filter(auth, cfg, gs::AllowAllSubscriptionFilter {}).expect("behaviour")
            });
        }
        let mut tap_links: Vec<(usize, Vec<usize>)> = vec![];
        for _ in 0..taps {
            let t = rig.add_raw(rng.next_u64());
            let mut l = vec![shared_tap_node.unwrap_or_else(|| rng.usize(n))];
            if rng.bool() {
                let o = rng.usize(n);
                if !l.contains(&o) {
                    l.push(o);
                }
            }
            tap_links.push((t, l));
        }
        // topology among real nodes: random spanning tree + extra edges, degree <= 6
        let mut edges: BTreeSet<(usize, usize)> = BTreeSet::new();
        let mut deg = vec![0usize; n];
        for i in 1..n {
            let mut j = rng.usize(i);
            for _ in 0..8 {
                if deg[j] < 5 {
                    break;
                }
                j = rng.usize(i);
            }
            edges.insert((j, i));
            deg[i] += 1;
            deg[j] += 1;
        }
        for _ in 0..rng.usize(n) {
            let (a, b) = (rng.usize(n), rng.usize(n));
            if a != b && deg[a] < 5 && deg[b] < 5 && !edges.contains(&(a.min(b), a.max(b))) {
                edges.insert((a.min(b), a.max(b)));
                deg[a] += 1;
                deg[b] += 1;
            }
        }
        let complete = edges.len() == n * (n - 1) / 2;
        // received[node][data] = count
        let mut received: Vec<HashMap<Vec<u8>, u32>> = vec![HashMap::new(); n + taps];
        let mut dup: Vec<(usize, Vec<u8>)> = vec![];
        let mut pending_val: Vec<(usize, gs::MessageId, libp2p_identity::PeerId)> = vec![];
        let mut validations = 0u64;
        macro_rules! sink {
            () => {
                &mut |_: &mut Net<B>, i: usize, ev: SwarmEvent<Ev>| {
                    if let SwarmEvent::Behaviour(Either::Left(gs::Event::Message { message, message_id, propagation_source })) = ev {
                        if i < n && validating[i] {
                            pending_val.push((i, message_id, propagation_source));
                        }
                        let c = received[i].entry(message.data.clone()).or_insert(0);
                        *c += 1;
                        if *c > 1 {
                            dup.push((i, message.data));
                        }
                    }
                }
            };
        }
        // answer pending validations: all of them, or a PRNG subset in PRNG order
        macro_rules! release {
            ($all:expr) => {{
                let mut keep = vec![];
                let mut batch = std::mem::take(&mut pending_val);
                rng.shuffle(&mut batch);
                for (i, id, src) in batch {
                    if $all || rng.bool() {
                        rig.gs(i).report_message_validation_result(&id, &src, gs::MessageAcceptance::Accept);
                        rig.net.touch(i);
                        validations += 1;
                    } else {
                        keep.push((i, id, src));
                    }
                }
                pending_val = keep;
            }};
        }
        rig.run(50_000, sink!());
        for (a, b) in &edges {
            if rng.bool() { rig.connect(*a, *b) } else { rig.connect(*b, *a) }
            if rng.chance(1, 3) {
                rig.run(rng.range(0, 60), sink!());
            }
        }
        for (t, l) in &tap_links {
            for x in l {
                rig.connect(*t, *x);
            }
        }
        if !rig.run(400_000, sink!()) {
            check.inconclusive("setup not quiescent");
            return;
        }
        let topic = gs::IdentTopic::new(TOPIC);
        let mut order: Vec<usize> = (0..n).collect();
        rng.shuffle(&mut order);
        for i in order {
            rig.gs(i).subscribe(&topic).expect("subscribe");
            rig.net.touch(i);
            if rng.bool() {
                rig.run(rng.range(0, 80), sink!());
            }
        }
        for (t, l) in &tap_links {
            rig.raw_open_all(*t);
            rig.run(200_000, sink!());
            for x in l {
                let px = rig.peer(*x);
                rig.raw_send(*t, &px, &Rpc { subs: vec![(true, TOPIC.into())], ..Default::default() });
                rig.run(200_000, sink!());
                rig.raw_send(*t, &px, &Rpc { graft: vec![TOPIC.into()], ..Default::default() });
            }
        }
        rig.run(400_000, sink!());
        // a tap with two links may be an *explicit peer* of its second node: it then publishes only through its first
        // node, so the second one learns its messages from a third party and must still not send them to their source
        let mut explicit_taps: HashSet<usize> = HashSet::new();
        for (t, l) in &tap_links {
            if l.len() == 2 && rng.bool() {
                let pt = rig.peer(*t);
                rig.gs(l[1]).add_explicit_peer(&pt);
                rig.net.touch(l[1]);
                explicit_taps.insert(*t);
            }
        }
        rig.run(400_000, sink!());
        // K heartbeats to let every node fill its mesh
        for _ in 0..3 {
            let mut o: Vec<usize> = (0..n).collect();
            rng.shuffle(&mut o);
            for i in o {
                rig.heartbeat(i);
                rig.run(rng.range(0, 200), sink!());
            }
            rig.run(400_000, sink!());
        }
        // verify: union of meshes connects all real nodes
        let th = topic.hash();
        let peer_to_idx: HashMap<_, _> = (0..n + taps).map(|i| (rig.peer(i), i)).collect();
        let mut adj: Vec<BTreeSet<usize>> = vec![BTreeSet::new(); n];
        for i in 0..n {
            let ms: Vec<usize> = rig.gs(i).mesh_peers(&th).filter_map(|p| peer_to_idx.get(p).copied()).collect();
            for j in ms {
                if j < n {
                    adj[i].insert(j);
                    adj[j].insert(i);
                }
            }
        }
        let mut seen = HashSet::from([0usize]);
        let mut stack = vec![0usize];
        while let Some(x) = stack.pop() {
            for y in &adj[x] {
                if seen.insert(*y) {
                    stack.push(*y);
                }
            }
        }
        if seen.len() != n {
            check.inconclusive(format!("mesh does not connect all real nodes after setup ({} of {n})", seen.len()));
            return;
        }
        // redundant connections: some linked pairs get a second connection and then lose their first (oldest) one;
        // the pair stays connected throughout, so the statement's premise (connected network) still holds
        let mut replaced_edges: Vec<String> = vec![];
        if rng.chance(1, 3) {
            let es: Vec<(usize, usize)> = edges.iter().copied().collect();
            for (a, b) in es {
                if !rng.chance(1, 2) {
                    continue;
                }
                let (x, y) = if rng.bool() { (a, b) } else { (b, a) };
                rig.connect(x, y);
                if !rig.run(800_000, sink!()) {
                    check.inconclusive("second connection not quiescent");
                    return;
                }
                // close the oldest connection of the pair, seen from a PRNG side
                let (c, peer_other) = if rng.bool() { (x, rig.peer(y)) } else { (y, rig.peer(x)) };
                let mut live: Vec<libp2p_swarm::ConnectionId> = vec![];
                for e in rig.recorder(c).log.lock().unwrap().iter() {
                    match e {
                        vnet::BEv::ConnectionEstablished { conn, peer, .. } if *peer == peer_other => live.push(*conn),
                        vnet::BEv::ConnectionClosed { conn, peer, .. } if *peer == peer_other => live.retain(|l| l != conn),
                        _ => {}
                    }
                }
                if live.len() >= 2 {
                    rig.net.swarm(c).close_connection(live[0]);
                    rig.net.touch(c);
                    if !rig.run(800_000, sink!()) {
                        check.inconclusive("close not quiescent");
                        return;
                    }
                    replaced_edges.push(format!("{a}-{b}"));
                }
            }
        }
        // blacklisting: one node refuses everything from one of its mesh neighbours; only done when the mesh minus
        // that link still connects all real nodes, so every subscriber can still get every message another way
        let mut blacklisted: Option<(usize, usize)> = None;
        if rng.chance(1, 5) {
            let x = rng.usize(n);
            let ns: Vec<usize> = adj[x].iter().copied().collect();
            if ns.len() >= 2 {
                let y = ns[rng.usize(ns.len())];
                let mut seen2 = HashSet::from([0usize]);
                let mut stack2 = vec![0usize];
                while let Some(u) = stack2.pop() {
                    for v in &adj[u] {
                        if (u == x && *v == y) || (u == y && *v == x) {
                            continue;
                        }
                        if seen2.insert(*v) {
                            stack2.push(*v);
                        }
                    }
                }
                if seen2.len() == n {
                    let py = rig.peer(y);
                    rig.gs(x).blacklist_peer(&py);
                    blacklisted = Some((x, y));
                }
            }
        }
        // publish phase
        let m = rng.range(2, 8) as usize;
        let mut publisher: BTreeMap<Vec<u8>, usize> = BTreeMap::new();
        let mut tap_sent: HashMap<(usize, usize), HashSet<Vec<u8>>> = HashMap::new(); // (tap, node) -> data the tap sent to node
        let mut sig = Sig::new().u64(n as u64).u64(edges.len() as u64);
        let mut tap_bad: Vec<(String, String)> = vec![];
        for k in 0..m {
            let data = format!("m{k}").into_bytes();
            let use_tap = !tap_links.is_empty() && rng.chance(1, 3);
            if use_tap {
                let (t, l) = tap_links[rng.usize(tap_links.len())].clone();
                let x = if explicit_taps.contains(&t) { l[0] } else { l[rng.usize(l.len())] };
                let key = rig.net.nodes[t].key.clone();
                let msg = PubMsg::signed(&key, TOPIC, &data, 1000 + k as u64);
                let px = rig.peer(x);
                rig.raw_send(t, &px, &Rpc { publish: vec![msg], ..Default::default() });
                tap_sent.entry((t, x)).or_default().insert(data.clone());
                // a second tap linked to the same (validating) node sends its copy of the same message while the
                // first one is still waiting for validation: once both copies have arrived (quiescence, nothing is
                // answered meanwhile) the node has received the message from both taps and must send it to neither
                if let Some((t2, _)) = tap_links.iter().find(|(t2, l2)| *t2 != t && l2.contains(&x))
                    && validating[x]
                    && rng.chance(2, 3)
                {
                    let t2 = *t2;
                    let msg = PubMsg::signed(&key, TOPIC, &data, 1000 + k as u64);
                    rig.raw_send(t2, &px, &Rpc { publish: vec![msg], ..Default::default() });
                    if rig.run(800_000, sink!()) {
                        // copies that crossed before now are not judged
                        let _ = rig.raw_recv(t2, &px);
                        tap_sent.entry((t2, x)).or_default().insert(data.clone());
                        sig.push_u64(7777);
                        check.count("duplicates_during_validation", 1);
                    }
                }
                publisher.insert(data, t);
                sig.push_u64(100 + x as u64);
            } else {
                // a blacklisted peer's own messages are refused by the blacklisting node (and never pass through it): the
                // blacklisted node relays, it does not publish
                let mut p = rng.usize(n);
                if blacklisted.map(|(_, y)| y) == Some(p) {
                    p = (p + 1) % n;
                }
                match rig.gs(p).publish(topic.clone(), data.clone()) {
                    Ok(_) => {
                        publisher.insert(data, p);
                        sig.push_u64(p as u64);
                    }
                    Err(e) => {
                        check.inconclusive(format!("publish refused: {e:?}"));
                        return;
                    }
                }
                rig.net.touch(p);
            }
            match rng.usize(3) {
                0 => {}
                1 => {
                    rig.run(rng.range(1, 150), sink!());
                }
                _ => {
                    let h = rng.usize(n);
                    rig.heartbeat(h);
                    rig.run(rng.range(1, 150), sink!());
                }
            }
            if rng.chance(1, 3) {
                release!(false);
            }
        }
        // final: quiesce (answering every pending validation), heartbeats (gossip repair), quiesce
        let mut ok = rig.run(800_000, sink!());
        for round in 0..3 {
            if round > 0 {
                for i in 0..n {
                    rig.heartbeat(i);
                }
                ok &= rig.run(800_000, sink!());
            }
            for _ in 0..4 * n {
                if pending_val.is_empty() {
                    break;
                }
                release!(true);
                ok &= rig.run(800_000, sink!());
            }
        }
        if !pending_val.is_empty() {
            check.inconclusive("validations still pending at the end");
            return;
        }
        if !ok {
            check.inconclusive("not quiescent at the end");
            return;
        }
        // taps: what did they get back?
        for (t, l) in &tap_links {
            let me = rig.peer(*t);
            for x in l {
                let px = rig.peer(*x);
                for rpc in rig.raw_recv(*t, &px) {
                    for p in rpc.publish {
                        if p.source() == Some(me) {
                            tap_bad.push(("message-sent-back-to-its-source".into(), format!("node {x} sent message {:?} to tap {t}, which is its source", String::from_utf8_lossy(&p.data))));
                        } else if tap_sent.get(&(*t, *x)).map(|s| s.contains(&p.data)).unwrap_or(false) {
                            tap_bad.push(("message-sent-back-to-sender".into(), format!("node {x} sent message {:?} back to tap {t} which had sent it", String::from_utf8_lossy(&p.data))));
                        }
                    }
                }
            }
        }
        let wit = json!({"case": case_idx, "nodes": n, "taps": tap_links.iter().map(|(t, l)| format!("{t}->{l:?}")).collect::<Vec<_>>(), "validating": validating, "node_blacklists_neighbour": blacklisted.map(|(x, y)| format!("{x} blacklists {y}")), "random_author": random_author, "edges_whose_first_connection_was_replaced": replaced_edges, "edges": edges.iter().map(|(a, b)| format!("{a}-{b}")).collect::<Vec<_>>(),
            "publishers": publisher.iter().map(|(d, p)| format!("{}@{p}", String::from_utf8_lossy(d))).collect::<Vec<_>>(),
            "received": (0..n).map(|i| { let mut v: Vec<String> = received[i].iter().map(|(d, c)| format!("{}x{c}", String::from_utf8_lossy(d))).collect(); v.sort(); v }).collect::<Vec<_>>()});
        for (i, d) in &dup {
            check.violation("message-delivered-twice", format!("node {i} delivered {:?} to the application more than once", String::from_utf8_lossy(d)), wit.clone());
        }
        for (d, p) in &publisher {
            for i in 0..n {
                let c = received[i].get(d).copied().unwrap_or(0);
                if i == *p && c > 0 {
                    check.violation("message-delivered-to-publisher", format!("publisher {p} got its own message {:?} delivered", String::from_utf8_lossy(d)), wit.clone());
                }
                if i != *p && c == 0 {
                    check.violation("message-not-delivered", format!("node {i} never delivered {:?} (published by {p}) although the mesh connects all nodes", String::from_utf8_lossy(d)), wit.clone());
                }
            }
        }
        for (s, w) in tap_bad {
            check.violation(s, w, wit.clone());
        }
        check.case(sig.u64(rig.net.trace.0).0, n >= 4 && publisher.len() >= 3 && !complete);
        check.count("messages_published", publisher.len() as u64);
        check.count("application_deliveries", received.iter().map(|r| r.values().map(|c| *c as u64).sum::<u64>()).sum());
        check.count("cases_with_taps", (!tap_links.is_empty()) as u64);
        check.count("taps_that_are_explicit_peers_of_a_node", explicit_taps.len() as u64);
        check.count("cases_with_a_blacklisted_mesh_neighbour", blacklisted.is_some() as u64);
        check.count("cases_with_random_author", random_author as u64);
        check.count("edges_whose_first_connection_was_replaced", replaced_edges.len() as u64);
        check.count("cases_with_validating_nodes", validating.iter().any(|v| *v) as u64);
        check.count("application_validations_answered", validations);
        check.distinct("distinct_topologies", Sig::new().str(&format!("{edges:?}")).0);
        if check.want_sample() && n >= 5 && !complete {
            check.sample(wit);
        }
    });
    check.finish()
}
