mod c27;
mod c36;
mod meshrig;
mod rig;
mod wire;

fn main() {
    vmon::run_main(&[("C27", c27::run), ("C28", meshrig::run_c28), ("C29", meshrig::run_c29), ("C32", meshrig::run_c32), ("C35", meshrig::run_c35), ("C36", c36::run)]);
}
