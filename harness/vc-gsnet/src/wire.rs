//! Hand-written gossipsub wire format (from rpc.proto) on top of `vmon::pb` — for hostile /
//! observing Raw peers. Independent of the crate under test.
use libp2p_identity::{Keypair, PeerId};
use vmon::pb::{Msg, Val};

pub const MESHSUB_11: &str = "/meshsub/1.1.0";

#[derive(Clone, Debug, Default, PartialEq, Eq)]
pub struct PubMsg {
    pub from: Option<Vec<u8>>,
    pub data: Vec<u8>,
    pub seqno: Option<Vec<u8>>,
    pub topic: String,
    pub signature: Option<Vec<u8>>,
    pub key: Option<Vec<u8>>,
}

impl PubMsg {
    fn unsigned(&self) -> Msg {
        let mut m = Msg::new();
        if let Some(f) = &self.from {
            m = m.bytes(1, f);
        }
        m = m.bytes(2, &self.data);
        if let Some(s) = &self.seqno {
            m = m.bytes(3, s);
        }
        m.bytes(4, self.topic.as_bytes())
    }
    pub fn to_pb(&self) -> Msg {
        let mut m = self.unsigned();
        if let Some(s) = &self.signature {
            m = m.bytes(5, s);
        }
        if let Some(k) = &self.key {
            m = m.bytes(6, k);
        }
        m
    }
    /// a message signed the way the spec says (prefix ++ protobuf without signature/key)
    pub fn signed(key: &Keypair, topic: &str, data: &[u8], seqno: u64) -> PubMsg {
        let mut m = PubMsg { from: Some(key.public().to_peer_id().to_bytes()), data: data.to_vec(), seqno: Some(seqno.to_be_bytes().to_vec()), topic: topic.to_string(), signature: None, key: None };
        let mut bytes = b"libp2p-pubsub:".to_vec();
        bytes.extend(m.unsigned().encode());
        m.signature = Some(key.sign(&bytes).expect("sign"));
        m
    }
    pub fn from_pb(m: &Msg) -> PubMsg {
        PubMsg {
            from: m.get_bytes(1).map(|b| b.to_vec()),
            data: m.get_bytes(2).map(|b| b.to_vec()).unwrap_or_default(),
            seqno: m.get_bytes(3).map(|b| b.to_vec()),
            topic: m.get_bytes(4).map(|b| String::from_utf8_lossy(b).to_string()).unwrap_or_default(),
            signature: m.get_bytes(5).map(|b| b.to_vec()),
            key: m.get_bytes(6).map(|b| b.to_vec()),
        }
    }
    pub fn source(&self) -> Option<PeerId> {
        self.from.as_ref().and_then(|f| PeerId::from_bytes(f).ok())
    }
}

#[derive(Clone, Debug, Default, PartialEq, Eq)]
pub struct Rpc {
    /// (subscribe, topic)
    pub subs: Vec<(bool, String)>,
    pub publish: Vec<PubMsg>,
    pub graft: Vec<String>,
    /// (topic, backoff seconds, px peer ids)
    pub prune: Vec<(String, Option<u64>, Vec<Vec<u8>>)>,
    /// (topic, message ids)
    pub ihave: Vec<(String, Vec<Vec<u8>>)>,
    pub iwant: Vec<Vec<Vec<u8>>>,
    pub idontwant: Vec<Vec<Vec<u8>>>,
}

impl Rpc {
    pub fn encode(&self) -> Vec<u8> {
        let mut m = Msg::new();
        for (s, t) in &self.subs {
            m = m.msg(1, &Msg::new().varint(1, *s as u64).bytes(2, t.as_bytes()));
        }
        for p in &self.publish {
            m = m.msg(2, &p.to_pb());
        }
        let mut c = Msg::new();
        for (t, ids) in &self.ihave {
            let mut x = Msg::new().bytes(1, t.as_bytes());
            for i in ids {
                x = x.bytes(2, i);
            }
            c = c.msg(1, &x);
        }
        for ids in &self.iwant {
            let mut x = Msg::new();
            for i in ids {
                x = x.bytes(1, i);
            }
            c = c.msg(2, &x);
        }
        for t in &self.graft {
            c = c.msg(3, &Msg::new().bytes(1, t.as_bytes()));
        }
        for (t, b, px) in &self.prune {
            let mut x = Msg::new().bytes(1, t.as_bytes());
            for p in px {
                x = x.msg(2, &Msg::new().bytes(1, p));
            }
            if let Some(b) = b {
                x = x.varint(3, *b);
            }
            c = c.msg(4, &x);
        }
        for ids in &self.idontwant {
            let mut x = Msg::new();
            for i in ids {
                x = x.bytes(1, i);
            }
            c = c.msg(5, &x);
        }
        if !c.fields.is_empty() {
            m = m.msg(3, &c);
        }
        m.encode()
    }
    /// length-prefixed frame ready for the wire
    pub fn frame(&self) -> Vec<u8> {
        vmon::pb::frame(&self.encode())
    }
    pub fn decode(b: &[u8]) -> Option<Rpc> {
        let m = Msg::decode(b)?;
        let mut r = Rpc::default();
        for s in m.all_msgs(1) {
            r.subs.push((s.get_varint(1).unwrap_or(0) != 0, s.get_bytes(2).map(|b| String::from_utf8_lossy(b).to_string()).unwrap_or_default()));
        }
        for p in m.all_msgs(2) {
            r.publish.push(PubMsg::from_pb(&p));
        }
        for c in m.all_msgs(3) {
            for x in c.all_msgs(1) {
                r.ihave.push((x.get_bytes(1).map(|b| String::from_utf8_lossy(b).to_string()).unwrap_or_default(), x.all_bytes(2)));
            }
            for x in c.all_msgs(2) {
                r.iwant.push(x.all_bytes(1));
            }
            for x in c.all_msgs(3) {
                r.graft.push(x.get_bytes(1).map(|b| String::from_utf8_lossy(b).to_string()).unwrap_or_default());
            }
            for x in c.all_msgs(4) {
                let px = x.all_msgs(2).iter().filter_map(|p| p.get_bytes(1).map(|b| b.to_vec())).collect();
                let backoff = match x.get(3) {
                    Some(Val::Varint(v)) => Some(*v),
                    _ => None,
                };
                r.prune.push((x.get_bytes(1).map(|b| String::from_utf8_lossy(b).to_string()).unwrap_or_default(), backoff, px));
            }
            for x in c.all_msgs(5) {
                r.idontwant.push(x.all_bytes(1));
            }
        }
        Some(r)
    }
}
