//! C36 — subscription filters bound what peers can make us track.
//!
//! One real gossipsub node whose behaviour carries a whitelist / max-count / max-count(whitelist) / combined(whitelist, whitelist) / combined(max-count, whitelist) /
//! max-count(combined) filter,
//! 1..4 raw peers sending subscription RPCs by hand (1..12 entries over 8 topic names, duplicates,
//! subscribe+unsubscribe of the same topic in one request, non-whitelisted names). After each request
//! has been processed (net quiescent) the tracked topic set of the sender is read from `all_peers()`.
//!
//! Oracle: tracked ⊆ whitelist; |tracked| <= max_subscribed_topics; a request with more than
//! max_subscriptions_per_request entries leaves the tracked set unchanged; a request whose net effect
//! (dedup: contradictory entries for a topic cancel, whitelist applied) would exceed max_subscribed_topics
//! is rejected as a whole: the tracked set is unchanged. Only subscription RPCs are driven (GRAFT-induced
//! tracking is outside the statement's quantifier).
use std::collections::{BTreeSet, HashMap, HashSet};

use libp2p_gossipsub as gs;
use libp2p_swarm::SwarmEvent;
use vmon::{Args, Check, Rng, Sig, json};
use vnet::Net;

use crate::{
    rig::{B, Ev, Rig, base_config},
    wire::Rpc,
};

const NAMES: [&str; 8] = ["a", "b", "c", "d", "e", "f", "g", "h"];

#[derive(Clone, Debug)]
struct Spec {
    kind: &'static str,
    whitelist: Option<BTreeSet<String>>,
    max_topics: Option<usize>,
    max_per_request: Option<usize>,
}

fn drive<F: gs::TopicSubscriptionFilter + Send + 'static>(check: &Check, rng: &mut Rng, case_idx: u64, spec: Spec, filter: F) {
    let mut rig: Rig<F> = Rig::new(rng, false);
    let cfg = base_config().build().expect("config");
    let mut f = Some(filter);
    rig.add_gs(rng.next_u64(), |k| gs::Behaviour::new_with_subscription_filter(gs::MessageAuthenticity::Signed(k.clone()), cfg, f.take().unwrap()).expect("behaviour"));
    let n_peers = 1 + rng.usize(4);
    for _ in 0..n_peers {
        rig.add_raw(rng.next_u64());
    }
    let mut sink = |_: &mut Net<B<F>>, _: usize, _: SwarmEvent<Ev>| {};
    for i in 1..=n_peers {
        rig.connect(i, 0);
    }
    rig.run(400_000, &mut sink);
    for i in 1..=n_peers {
        rig.raw_open_all(i);
    }
    rig.run(400_000, &mut sink);
    let p0 = rig.peer(0);
    let tracked = |rig: &mut Rig<F>, i: usize| -> BTreeSet<String> {
        let pi = rig.peer(i);
        rig.gs(0).all_peers().find(|(p, _)| **p == pi).map(|(_, ts)| ts.iter().map(|t| t.as_str().to_string()).collect()).unwrap_or_default()
    };
    let mut sig = Sig::new().str(spec.kind);
    let (mut rejected_count, mut rejected_size, mut accepted) = (0u64, 0u64, 0u64);
    let mut history: Vec<String> = vec![];
    let reqs = rng.range(5, 25);
    for _ in 0..reqs {
        let i = 1 + rng.usize(n_peers);
        let before = tracked(&mut rig, i);
        let n = if rng.chance(1, 5) { rng.range(6, 12) } else { rng.range(1, 5) } as usize;
        let mut subs: Vec<(bool, String)> = (0..n).map(|_| (rng.chance(2, 3), NAMES[rng.usize(NAMES.len())].to_string())).collect();
        if rng.chance(1, 4) && !subs.is_empty() {
            // contradictory pair for one topic
            let t = subs[0].1.clone();
            subs.push((!subs[0].0, t));
        }
        for (s, t) in &subs {
            sig.push_str(t);
            sig.push_u64(*s as u64);
        }
        history.push(format!("p{i}: {}", subs.iter().map(|(s, t)| format!("{}{t}", if *s { "+" } else { "-" })).collect::<Vec<_>>().join(" ")));
        if !rig.raw_send(i, &p0, &Rpc { subs: subs.clone(), ..Default::default() }) {
            check.inconclusive("raw peer has no stream");
            return;
        }
        if !rig.run(400_000, &mut sink) {
            check.inconclusive("not quiescent");
            return;
        }
        let after = tracked(&mut rig, i);
        let wit = json!({"case": case_idx, "filter": format!("{spec:?}"), "history": history, "before": before, "after": after});
        if let Some(w) = &spec.whitelist
            && let Some(bad) = after.iter().find(|t| !w.contains(*t))
        {
            check.violation(format!("tracked-topic-not-allowed:{}", spec.kind), format!("peer p{i} is tracked for {bad}, which the filter does not allow"), wit.clone());
        }
        if let Some(m) = spec.max_topics
            && after.len() > m
        {
            check.violation(format!("tracked-topics-exceed-max:{}", spec.kind), format!("peer p{i} is tracked for {} topics, max_subscribed_topics = {m}", after.len()), wit.clone());
        }
        let too_many = spec.max_per_request.map(|m| subs.len() > m).unwrap_or(false);
        if too_many {
            rejected_count += 1;
            if after != before {
                check.violation(format!("oversized-request-changed-state:{}", spec.kind), format!("request with {} entries (max {}) changed the tracked set", subs.len(), spec.max_per_request.unwrap()), wit.clone());
            }
            continue;
        }
        // net effect by the documented dedup rule
        let mut net: HashMap<String, Option<bool>> = HashMap::new();
        for (s, t) in &subs {
            match net.get(t).copied() {
                None => {
                    net.insert(t.clone(), Some(*s));
                }
                Some(Some(prev)) if prev != *s => {
                    net.remove(t);
                }
                _ => {}
            }
        }
        let mut want = before.clone();
        for (t, a) in &net {
            if spec.whitelist.as_ref().map(|w| w.contains(t)).unwrap_or(true) {
                match a {
                    Some(true) => {
                        want.insert(t.clone());
                    }
                    Some(false) => {
                        want.remove(t);
                    }
                    None => {}
                }
            }
        }
        if spec.max_topics.map(|m| want.len() > m).unwrap_or(false) {
            rejected_size += 1;
            if after != before {
                check.violation(format!("overflowing-request-changed-state:{}", spec.kind), format!("request whose net effect would track {} topics (max {}) changed the tracked set", want.len(), spec.max_topics.unwrap()), wit.clone());
            }
        } else if after == want {
            accepted += 1;
        }
    }
    check.case(sig.0, rejected_count + rejected_size > 0 && accepted > 0);
    check.count("requests_rejected_for_entry_count", rejected_count);
    check.count("requests_rejected_for_topic_count", rejected_size);
    check.count("requests_applied_as_reference", accepted);
    if check.want_sample() && rejected_size > 0 {
        check.sample(json!({"filter": format!("{spec:?}"), "history": history.iter().take(12).collect::<Vec<_>>()}));
    }
}

pub fn run(args: &Args) -> i32 {
    let check = Check::new(
        args,
        "exploration",
        "PRNG sequences of hand-sent subscription RPCs against a real gossipsub node with a whitelist, max-count, max-count(whitelist), combined(whitelist,whitelist), combined(max-count,whitelist), combined(whitelist,max-count) or max-count(combined) filter \
         (limits 1..4 topics, 2..6 entries); tracked set read after every request; non-trivial = history with >= 1 rejected and >= 1 applied \
         request; distinct by (filter kind, request sequence)",
    );
    let cases = args.tier.pick(900u64, 60_000);
    vmon::par_cases_timed(&check, cases, args.threads, args.tier.pick(35.0, 400.0), |i, rng: &mut Rng| {
        let wl: BTreeSet<String> = NAMES.iter().filter(|_| rng.chance(1, 2)).map(|s| s.to_string()).collect();
        let wl_hashes: HashSet<gs::TopicHash> = wl.iter().map(|t| gs::IdentTopic::new(t.clone()).hash()).collect();
        let max_topics = 1 + rng.usize(4);
        let max_req = 2 + rng.usize(5);
        let wl2: BTreeSet<String> = NAMES.iter().filter(|_| rng.chance(2, 3)).map(|s| s.to_string()).collect();
        let wl2_hashes: HashSet<gs::TopicHash> = wl2.iter().map(|t| gs::IdentTopic::new(t.clone()).hash()).collect();
        let both: BTreeSet<String> = wl.intersection(&wl2).cloned().collect();
        match i % 7 {
            6 => drive(
                &check,
                rng,
                i,
                Spec { kind: "combined(whitelist,max-count)", whitelist: Some(wl), max_topics: Some(max_topics), max_per_request: Some(max_req) },
                gs::CombinedSubscriptionFilters {
                    filter1: gs::WhitelistSubscriptionFilter(wl_hashes),
                    filter2: gs::MaxCountSubscriptionFilter { filter: gs::AllowAllSubscriptionFilter {}, max_subscribed_topics: max_topics, max_subscriptions_per_request: max_req },
                },
            ),
            3 => drive(
                &check,
                rng,
                i,
                Spec { kind: "combined(whitelist,whitelist)", whitelist: Some(both), max_topics: None, max_per_request: None },
                gs::CombinedSubscriptionFilters { filter1: gs::WhitelistSubscriptionFilter(wl_hashes), filter2: gs::WhitelistSubscriptionFilter(wl2_hashes) },
            ),
            4 => drive(
                &check,
                rng,
                i,
                Spec { kind: "combined(max-count,whitelist)", whitelist: Some(wl), max_topics: Some(max_topics), max_per_request: Some(max_req) },
                gs::CombinedSubscriptionFilters {
                    filter1: gs::MaxCountSubscriptionFilter { filter: gs::AllowAllSubscriptionFilter {}, max_subscribed_topics: max_topics, max_subscriptions_per_request: max_req },
                    filter2: gs::WhitelistSubscriptionFilter(wl_hashes),
                },
            ),
            5 => drive(
                &check,
                rng,
                i,
                Spec { kind: "max-count(combined(whitelist,whitelist))", whitelist: Some(both), max_topics: Some(max_topics), max_per_request: Some(max_req) },
                gs::MaxCountSubscriptionFilter {
                    filter: gs::CombinedSubscriptionFilters { filter1: gs::WhitelistSubscriptionFilter(wl_hashes), filter2: gs::WhitelistSubscriptionFilter(wl2_hashes) },
                    max_subscribed_topics: max_topics,
                    max_subscriptions_per_request: max_req,
                },
            ),
            0 => drive(&check, rng, i, Spec { kind: "whitelist", whitelist: Some(wl), max_topics: None, max_per_request: None }, gs::WhitelistSubscriptionFilter(wl_hashes)),
            1 => drive(
                &check,
                rng,
                i,
                Spec { kind: "max-count", whitelist: None, max_topics: Some(max_topics), max_per_request: Some(max_req) },
                gs::MaxCountSubscriptionFilter { filter: gs::AllowAllSubscriptionFilter {}, max_subscribed_topics: max_topics, max_subscriptions_per_request: max_req },
            ),
            _ => drive(
                &check,
                rng,
                i,
                Spec { kind: "max-count-whitelist", whitelist: Some(wl), max_topics: Some(max_topics), max_per_request: Some(max_req) },
                gs::MaxCountSubscriptionFilter { filter: gs::WhitelistSubscriptionFilter(wl_hashes), max_subscribed_topics: max_topics, max_subscriptions_per_request: max_req },
            ),
        }
    });
    check.finish()
}
