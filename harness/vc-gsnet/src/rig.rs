//! Gossipsub rig: real gossipsub swarms (Left) and hand-speaking Raw peers (Right) in one Net.
use std::time::Duration;

use either::Either;
use libp2p_core::{Multiaddr, multiaddr::Protocol};
use libp2p_gossipsub as gs;
use libp2p_identity::PeerId;
use libp2p_swarm::{ConnectionId, SwarmEvent, dial_opts::DialOpts};
use vmon::Rng;
use vnet::{Net, Raw, RawCtl, RawEvent, RawStream, Recorder};

use crate::wire::{MESHSUB_11, Rpc};

pub type Filter = gs::MaxCountSubscriptionFilter<gs::WhitelistSubscriptionFilter>;
pub type GsB<F = gs::AllowAllSubscriptionFilter> = Recorder<gs::Behaviour<gs::IdentityTransform, F>>;
pub type B<F = gs::AllowAllSubscriptionFilter> = Either<GsB<F>, Raw>;
pub type Ev = Either<gs::Event, RawEvent>;

pub fn mem(n: u64) -> Multiaddr {
    Multiaddr::empty().with(Protocol::Memory(n))
}

pub fn base_config() -> gs::ConfigBuilder {
    let mut b = gs::ConfigBuilder::default();
    b.heartbeat_interval(Duration::from_secs(3600)).heartbeat_initial_delay(Duration::from_secs(3600)).validation_mode(gs::ValidationMode::Strict);
    b
}

pub struct Rig<F: gs::TopicSubscriptionFilter + Send + 'static = gs::AllowAllSubscriptionFilter> {
    pub net: Net<B<F>>,
    /// per node: Some(ctl) for Raw peers
    pub raw: Vec<Option<RawCtl>>,
    next_tag: u64,
}

impl<F: gs::TopicSubscriptionFilter + Send + 'static> Rig<F> {
    pub fn new(rng: &mut Rng, chunking: bool) -> Self {
        gs::verif::clock::reset();
        let _ = gs::verif::sent::take_prunes();
        Rig { net: Net::new(rng.next_u64(), chunking), raw: vec![], next_tag: 1 }
    }
    pub fn add_gs(&mut self, seed: u64, make: impl FnOnce(&libp2p_identity::Keypair) -> gs::Behaviour<gs::IdentityTransform, F>) -> usize {
        let i = self.net.add_node(vnet::keypair(seed), |k, _| Either::Left(Recorder::new(make(k))), |c| c.with_idle_connection_timeout(Duration::from_secs(3600)));
        self.net.swarm(i).listen_on(mem(100 + i as u64)).unwrap();
        self.raw.push(None);
        i
    }
    pub fn add_raw(&mut self, seed: u64) -> usize {
        let mut ctl = None;
        let i = self.net.add_node(
            vnet::keypair(seed),
            |_, exec| {
                let (r, c) = Raw::new(vec![MESHSUB_11.to_string()], exec);
                ctl = Some(c);
                Either::Right(r)
            },
            |c| c.with_idle_connection_timeout(Duration::from_secs(3600)),
        );
        self.net.swarm(i).listen_on(mem(100 + i as u64)).unwrap();
        self.raw.push(ctl);
        i
    }
    pub fn gs(&mut self, i: usize) -> &mut gs::Behaviour<gs::IdentityTransform, F> {
        match self.net.swarm(i).behaviour_mut() {
            Either::Left(r) => &mut r.inner,
            Either::Right(_) => panic!("node {i} is a raw peer"),
        }
    }
    pub fn recorder(&mut self, i: usize) -> &mut GsB<F> {
        match self.net.swarm(i).behaviour_mut() {
            Either::Left(r) => r,
            Either::Right(_) => panic!("node {i} is a raw peer"),
        }
    }
    pub fn is_raw(&self, i: usize) -> bool {
        self.raw[i].is_some()
    }
    pub fn peer(&self, i: usize) -> PeerId {
        self.net.peer(i)
    }
    pub fn connect(&mut self, a: usize, b: usize) {
        let _ = self.net.swarm(a).dial(DialOpts::unknown_peer_id().address(mem(100 + b as u64)).build());
        self.net.touch(a);
    }
    pub fn heartbeat(&mut self, i: usize) {
        self.gs(i).verif_heartbeat();
        self.net.touch(i);
    }
    pub fn run(&mut self, max: u64, sink: &mut dyn FnMut(&mut Net<B<F>>, usize, SwarmEvent<Ev>)) -> bool {
        self.net.run(max, sink)
    }
    /// raw node `t` opens its sending stream towards every peer it is connected to and does not yet have one for
    pub fn raw_open_all(&mut self, t: usize) {
        let ctl = self.raw[t].clone().expect("raw");
        let conns: Vec<(PeerId, ConnectionId)> = ctl.with(|s| s.conns.iter().filter(|(_, v)| !v.is_empty()).map(|(p, v)| (*p, v[0])).collect());
        for (p, first) in conns {
            if self.raw_out(t, &p).is_none() {
                let tag = self.next_tag;
                self.next_tag += 1;
                ctl.open(p, Some(first), MESHSUB_11, tag);
            }
        }
        self.net.touch(t);
    }
    /// the stream raw node `t` uses to send to `peer`
    pub fn raw_out(&self, t: usize, peer: &PeerId) -> Option<RawStream> {
        // a stream on a connection that has been closed meanwhile is dead: use one on a live connection
        self.raw[t].as_ref().and_then(|c| {
            let live = c.connections(peer);
            c.find_all(peer, MESHSUB_11, false).into_iter().find(|s| live.contains(&s.conn))
        })
    }
    pub fn raw_send(&mut self, t: usize, peer: &PeerId, rpc: &Rpc) -> bool {
        match self.raw_out(t, peer) {
            Some(s) => {
                s.write(rpc.frame());
                true
            }
            None => false,
        }
    }
    /// all RPCs raw node `t` has received from `peer` since the last call
    pub fn raw_recv(&self, t: usize, peer: &PeerId) -> Vec<Rpc> {
        let mut out = vec![];
        if let Some(c) = self.raw[t].as_ref() {
            for s in c.find_all(peer, MESHSUB_11, true) {
                for f in s.take_frames() {
                    if let Some(r) = Rpc::decode(&f) {
                        out.push(r);
                    }
                }
            }
        }
        out
    }
}
