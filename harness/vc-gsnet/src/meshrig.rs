//! C28 (mesh membership respects eligibility), C29 (handlers know whether their peer is in a mesh) and
//! C35 (publishing without a subscription keeps its fanout peers): one node under test
//! (`Recorder<gossipsub::Behaviour>` in a real swarm, scoring enabled, small mesh parameters) surrounded
//! by 3..10 Raw peers speaking meshsub by hand (SUBSCRIBE/UNSUBSCRIBE, GRAFT, PRUNE with backoff,
//! connect/disconnect), plus local ops (subscribe, unsubscribe, publish, heartbeat on demand, application
//! scores, explicit peers, virtual-clock advance).
//!
//! The monitor observes the behaviour through its public view (`mesh_peers`, `all_peers`, `peer_score`,
//! `verif_fanout`) at every hook point: before each handler event, after each swarm event, at every
//! behaviour-idle point and before/after each harness op. Consecutive observations bracket one step.
//! * C28: (i) every mesh member is in `all_peers()` with that topic and is not explicit; (ii) a peer that
//!   was explicit, or had a negative score, or was backed off for the topic (monitor's own ledger of PRUNEs
//!   received — stamped when the node processes them — and sent — stamped when the node queues them, read from
//!   the cfg(libp2p_verif) send log — with their durations on the frozen virtual clock; no slack counted) just before a step
//!   is not newly in that topic's mesh after it; (iii) a GRAFT processed while the mesh already had
//!   mesh_n_high members does not add the peer.
//! * C29: at every behaviour-idle point, (some live connection of p whose handler was last told JoinedMesh)
//!   <=> (p is in at least one mesh). Peers hold 1..3 simultaneous connections to the node; single connections
//!   (the oldest or a PRNG one) are closed from the node's side while the others stay.
//! * C35: for a topic the node is not subscribed to, with flood_publish off: every peer in the fanout set
//!   before a publish that is still connected, still subscribed and whose score is not below the publish
//!   threshold (the eligibility rule of `publish_peers`; thresholds fixed at gossip -10 / publish -50 /
//!   graylist -80, application scores down to -60) is still in the fanout set after it (no heartbeat in between).
//! Not judged: add_explicit_peer on a peer that is currently in a mesh (the workload never does it);
//! GRAFTs from non-gossipsub peers.
use std::{
    cell::RefCell,
    collections::{BTreeMap, BTreeSet, HashMap, HashSet, VecDeque},
    rc::Rc,
    time::Duration,
};

use either::Either;
use libp2p_gossipsub as gs;
use libp2p_identity::PeerId;
use libp2p_swarm::{ConnectionId, NotifyHandler, SwarmEvent, ToSwarm};
use vmon::{Args, Check, Rng, Sig, Value, json};
use vnet::{BEv, Net};

use crate::{
    rig::{B, Ev, Rig, base_config},
    wire::Rpc,
};

type G = gs::Behaviour<gs::IdentityTransform, gs::AllowAllSubscriptionFilter>;
const TOPICS: [&str; 3] = ["t0", "t1", "t2"];
const MAX_REMOTE_BACKOFF: u64 = 3600;
const PUBLISH_THRESHOLD: f64 = -50.0;
const FANOUT_TTL_S: u64 = 60;

#[derive(Clone, Default)]
struct Snap {
    fanout: BTreeMap<String, BTreeSet<PeerId>>,
    mesh: BTreeMap<String, BTreeSet<PeerId>>,
    score: HashMap<PeerId, f64>,
    peers: HashMap<PeerId, BTreeSet<String>>,
}

#[derive(Default)]
struct Mon {
    names: HashMap<PeerId, usize>,
    high: usize,
    prev: Option<Snap>,
    explicit: HashSet<PeerId>,
    /// (topic, peer) -> expiry as virtual-clock offset
    backoff: HashMap<(String, PeerId), Duration>,
    /// ledger updates that take effect once the current step is over
    pending_backoff: Vec<(String, PeerId, Duration)>,
    /// RPCs each raw peer has sent and the node has not yet processed (FIFO per peer)
    sent: HashMap<PeerId, VecDeque<Rpc>>,
    /// grafts carried by the handler event being processed
    step_grafts: Vec<(PeerId, String)>,
    belief: HashMap<(PeerId, ConnectionId), bool>,
    viol: Vec<(&'static str, String, String)>,
    trail: Vec<String>,
    observations: u64,
    additions_checked: u64,
    grafts_at_high: u64,
    ineligible_seen: u64,
    joined_left_events: u64,
    fanout_removals_checked: u64,
    /// virtual time of the last successful publish through the fanout, per topic
    last_fanout_pub: HashMap<String, Duration>,
    /// the FIFO of RPCs the raw peers sent no longer lines up with what the node processes: the ledger cannot be trusted
    desync: bool,
    single_closes: u64,
    fanout_negative_eligible: u64,
}

impl Mon {
    fn name(&self, p: &PeerId) -> String {
        self.names.get(p).map(|i| format!("p{i}")).unwrap_or_else(|| p.to_string())
    }
    fn note(&mut self, s: String) {
        if self.trail.len() < 400 {
            self.trail.push(s);
        }
    }
    fn snap(gsb: &G) -> Snap {
        let mut s = Snap::default();
        for t in TOPICS {
            let th = gs::IdentTopic::new(t).hash();
            let m: BTreeSet<PeerId> = gsb.mesh_peers(&th).copied().collect();
            if !m.is_empty() {
                s.mesh.insert(t.to_string(), m);
            }
            let f: BTreeSet<PeerId> = gsb.verif_fanout(&th).into_iter().collect();
            if !f.is_empty() {
                s.fanout.insert(t.to_string(), f);
            }
        }
        for (p, ts) in gsb.all_peers() {
            s.peers.insert(*p, ts.iter().map(|t| t.as_str().to_string()).collect());
        }
        for p in s.peers.keys() {
            if let Some(sc) = gsb.peer_score(p) {
                s.score.insert(*p, sc);
            }
        }
        s
    }

    /// one observation point; `cause` describes the step that just ended
    fn observe(&mut self, gsb: &G, cause: &str) {
        self.observations += 1;
        let now = gs::verif::clock::offset();
        // PRUNEs the node queued during the step that just ended (cfg hook in send_message, stamped with the clock
        // of that moment — the wire may see them much later): the backoff counts once this step is over
        for (p, t, b, at) in gs::verif::sent::take_prunes() {
            if let Some(b) = b {
                self.pending_backoff.push((t.as_str().to_string(), p, at + Duration::from_secs(b)));
            }
        }
        let snap = Mon::snap(gsb);
        if let Some(prev) = self.prev.take() {
            // C35: between heartbeats (and short of a local subscribe, which turns the fanout into a mesh) a fanout
            // peer only leaves the set by becoming ineligible itself (gone, unsubscribed, below the publish threshold)
            if cause == "heartbeat" {
                // the heartbeat may expire a whole fanout only when nothing was published to the topic for fanout_ttl
                // (default 60 s); short of that it only removes peers that became ineligible
                for (t, before) in &prev.fanout {
                    let recent = self.last_fanout_pub.get(t).map(|at| now.saturating_sub(*at) < Duration::from_secs(FANOUT_TTL_S)).unwrap_or(false);
                    if !recent {
                        continue;
                    }
                    let now_set = snap.fanout.get(t).cloned().unwrap_or_default();
                    for p in before.difference(&now_set) {
                        self.fanout_removals_checked += 1;
                        let eligible = snap.peers.get(p).map(|ts| ts.contains(t)).unwrap_or(false) && snap.score.get(p).map(|s| *s >= PUBLISH_THRESHOLD).unwrap_or(true) && !self.explicit.contains(p);
                        if eligible && snap.mesh.get(t).is_none() {
                            let who = self.name(p);
                            self.viol.push(("C35", "fanout-peer-expired-although-recently-published".into(), format!("{who} (still eligible) was dropped from the fanout of {t} by a heartbeat although the last publish to {t} was {}s ago (fanout_ttl {FANOUT_TTL_S}s)", now.saturating_sub(self.last_fanout_pub[t]).as_secs())));
                        }
                    }
                }
            }
            if !(cause == "heartbeat" || cause.starts_with("local subscribe")) {
                for (t, before) in &prev.fanout {
                    let now_set = snap.fanout.get(t).cloned().unwrap_or_default();
                    for p in before.difference(&now_set) {
                        self.fanout_removals_checked += 1;
                        let eligible = snap.peers.get(p).map(|ts| ts.contains(t)).unwrap_or(false) && snap.score.get(p).map(|s| *s >= PUBLISH_THRESHOLD).unwrap_or(true) && !self.explicit.contains(p);
                        if eligible {
                            let who = self.name(p);
                            self.viol.push(("C35", "fanout-peer-dropped-between-heartbeats".into(), format!("{who} left the fanout of {t} although it is still connected, subscribed and not below the publish threshold ({cause})")));
                        }
                    }
                }
            }
            for (t, members) in &snap.mesh {
                let before = prev.mesh.get(t).cloned().unwrap_or_default();
                for p in members.difference(&before) {
                    self.additions_checked += 1;
                    let who = self.name(p);
                    if self.explicit.contains(p) {
                        self.viol.push(("C28", "explicit-peer-added-to-mesh".into(), format!("{who} is an explicit peer and was added to the mesh of {t} ({cause})")));
                    }
                    if let Some(sc) = prev.score.get(p)
                        && *sc < 0.0
                        && snap.score.get(p).map(|s| *s < 0.0).unwrap_or(false)
                    {
                        self.viol.push(("C28", "negative-score-peer-added-to-mesh".into(), format!("{who} had score {sc} and was added to the mesh of {t} ({cause})")));
                    }
                    if let Some(exp) = self.backoff.get(&(t.clone(), *p))
                        && now < *exp
                    {
                        let what = format!("{who} is backed off for {t} until +{}s (now +{}s) and was added to the mesh ({cause})", exp.as_secs(), now.as_secs());
                        self.viol.push(("C28", "backed-off-peer-added-to-mesh".into(), what.clone()));
                        // C32 "treats it as backed off (refusing to graft it) at least until that duration has elapsed":
                        // the same observation, judged for the behaviour as a whole (second stage of ./check C32)
                        self.viol.push(("C32", "backed-off-peer-grafted-before-expiry".into(), what));
                    }
                    // a heartbeat decides on the scores it has itself just brought up to date: a peer it newly
                    // grafts does not come out of that very heartbeat with a negative score
                    if cause == "heartbeat"
                        && let Some(sc) = snap.score.get(p)
                        && *sc < 0.0
                    {
                        self.viol.push(("C28", "negative-score-peer-added-by-heartbeat".into(), format!("{who} was added to the mesh of {t} by a heartbeat after which its score is {sc}")));
                    }
                    if before.len() >= self.high && self.step_grafts.iter().any(|(q, tt)| q == p && tt == t) {
                        self.viol.push(("C28", "graft-accepted-above-mesh-n-high".into(), format!("GRAFT from {who} for {t} accepted although the mesh had {} >= mesh_n_high {} members", before.len(), self.high)));
                    }
                }
                if before.len() >= self.high && self.step_grafts.iter().any(|(_, tt)| tt == t) {
                    self.grafts_at_high += 1;
                }
            }
        }
        // (i) membership invariants
        for (t, members) in &snap.mesh {
            for p in members {
                let who = self.name(p);
                match snap.peers.get(p) {
                    None => self.viol.push(("C28", "mesh-member-not-connected".into(), format!("{who} is in the mesh of {t} but not in all_peers() ({cause})"))),
                    Some(ts) if !ts.contains(t) => self.viol.push(("C28", "mesh-member-not-subscribed".into(), format!("{who} is in the mesh of {t} but not subscribed to it ({cause})"))),
                    _ => {}
                }
                if self.explicit.contains(p) {
                    self.viol.push(("C28", "explicit-peer-in-mesh".into(), format!("{who} is explicit and in the mesh of {t} ({cause})")));
                }
            }
        }
        for (t, p, exp) in self.pending_backoff.drain(..) {
            let e = self.backoff.entry((t, p)).or_insert(Duration::ZERO);
            *e = (*e).max(exp);
        }
        self.step_grafts.clear();
        self.prev = Some(snap);
    }

    /// C29 at a behaviour-idle point
    fn check_belief(&mut self, gsb: &G, live: &HashMap<PeerId, Vec<ConnectionId>>) {
        let mut in_mesh: HashSet<PeerId> = HashSet::new();
        for t in TOPICS {
            in_mesh.extend(gsb.mesh_peers(&gs::IdentTopic::new(t).hash()).copied());
        }
        for (p, conns) in live {
            let believes = conns.iter().any(|c| self.belief.get(&(*p, *c)).copied().unwrap_or(false));
            let is = in_mesh.contains(p);
            if believes != is {
                let who = self.name(p);
                self.viol.push((
                    "C29",
                    if is { "handler-not-told-joined-mesh".to_string() } else { "handler-not-told-left-mesh".to_string() },
                    format!("{who}: in a mesh = {is}, but its handler(s) {:?} believe in-mesh = {believes}", conns.iter().map(|c| (c.to_string(), self.belief.get(&(*p, *c)).copied())).collect::<Vec<_>>()),
                ));
            }
        }
    }
}

struct Out {
    sig: u64,
    interleaving: u64,
    viol: Vec<(&'static str, String, String)>,
    trail: Vec<String>,
    observations: u64,
    additions: u64,
    grafts_at_high: u64,
    ineligible: u64,
    joined_left: u64,
    single_closes: u64,
    fanout_negative_eligible: u64,
    fanout_publishes: u64,
    quiescent: bool,
    desync: bool,
    peers: usize,
}

fn live_conns(log: &[BEv]) -> HashMap<PeerId, Vec<ConnectionId>> {
    let mut m: HashMap<PeerId, Vec<ConnectionId>> = HashMap::new();
    for e in log {
        match e {
            BEv::ConnectionEstablished { conn, peer, .. } => m.entry(*peer).or_default().push(*conn),
            BEv::ConnectionClosed { conn, peer, .. } => {
                if let Some(v) = m.get_mut(peer) {
                    v.retain(|c| c != conn);
                    if v.is_empty() {
                        m.remove(peer);
                    }
                }
            }
            _ => {}
        }
    }
    m
}

fn run_case(rng: &mut Rng) -> Out {
    let chunking = rng.chance(1, 5);
    let mut rig: Rig = Rig::new(rng, chunking);
    gs::verif::clock::freeze();
    let (mesh_n, low, high, outb) = *rng.pick(&[(3usize, 2usize, 4usize, 1usize), (2, 1, 3, 1), (4, 3, 5, 2), (2, 2, 2, 0)]);
    let prune_backoff = *rng.pick(&[10u64, 60]);
    let unsub_backoff = *rng.pick(&[5u64, 10]);
    let flood = rng.chance(1, 4);
    let cfg = {
        let mut b = base_config();
        b.mesh_n(mesh_n).mesh_n_low(low).mesh_n_high(high).mesh_outbound_min(outb).prune_backoff(Duration::from_secs(prune_backoff)).unsubscribe_backoff(Duration::from_secs(unsub_backoff)).flood_publish(flood);
        b.build().expect("config")
    };
    let scoring = rng.chance(3, 4);
    rig.add_gs(rng.next_u64(), |k| {
        let mut g: G = gs::Behaviour::new_with_subscription_filter(gs::MessageAuthenticity::Signed(k.clone()), cfg, gs::AllowAllSubscriptionFilter {}).expect("behaviour");
        if scoring {
            let mut params = gs::PeerScoreParams { app_specific_weight: 1.0, decay_interval: Duration::from_secs(3600), ..Default::default() };
            for t in TOPICS {
                params.topics.insert(gs::IdentTopic::new(t).hash(), gs::TopicScoreParams::default());
            }
            let thresholds = gs::PeerScoreThresholds { gossip_threshold: -10.0, publish_threshold: PUBLISH_THRESHOLD, graylist_threshold: -80.0, ..Default::default() };
            g.with_peer_score(params, thresholds).expect("score params");
        }
        g
    });
    let n_peers = 3 + rng.usize(8);
    for _ in 0..n_peers {
        rig.add_raw(rng.next_u64());
    }
    let mon = Rc::new(RefCell::new(Mon { high, ..Default::default() }));
    for i in 1..=n_peers {
        mon.borrow_mut().names.insert(rig.peer(i), i);
    }
    // install hooks on node 0
    {
        let log = rig.recorder(0).log.clone();
        let m = mon.clone();
        rig.recorder(0).on_idle = Some(Box::new(move |g| {
            let mut mm = m.borrow_mut();
            mm.observe(g, "behaviour idle");
            let live = live_conns(&log.lock().unwrap());
            mm.check_belief(g, &live);
        }));
        let m = mon.clone();
        rig.recorder(0).after_swarm_event = Some(Box::new(move |g| m.borrow_mut().observe(g, "swarm event")));
        let m = mon.clone();
        rig.recorder(0).on_handler_event = Some(Box::new(move |g, peer, _conn, ev| {
            let mut mm = m.borrow_mut();
            mm.observe(g, "before handler event");
            if let gs::verif::HandlerEvent::Message { .. } = ev {
                let rpc = mm.sent.get_mut(&peer).and_then(|q| q.pop_front());
                // self-check of the FIFO pairing: the event's Debug output names every control message it carries
                let dbg = format!("{ev:?}");
                let (g, p) = (dbg.matches("Graft(Graft").count(), dbg.matches("Prune(Prune").count());
                match &rpc {
                    Some(r) if r.graft.len() == g && r.prune.len() == p => {}
                    _ => mm.desync = true,
                }
                if let Some(rpc) = rpc {
                    let now = gs::verif::clock::offset();
                    for t in &rpc.graft {
                        mm.step_grafts.push((peer, t.clone()));
                    }
                    for (t, b, _) in &rpc.prune {
                        let d = Duration::from_secs(b.map(|b| b.min(MAX_REMOTE_BACKOFF)).unwrap_or(0));
                        if b.is_some() {
                            mm.pending_backoff.push((t.clone(), peer, now + d));
                        }
                    }
                    let who = mm.name(&peer);
                    mm.note(format!("  node processes rpc from {who}: subs={:?} graft={:?} prune={:?}", rpc.subs, rpc.graft, rpc.prune.iter().map(|(t, b, _)| (t.clone(), *b)).collect::<Vec<_>>()));
                }
            }
        }));
        let m = mon.clone();
        rig.recorder(0).on_to_swarm = Some(Box::new(move |_g, ev| {
            if let ToSwarm::NotifyHandler { peer_id, handler: NotifyHandler::One(c), event } = ev {
                let mut mm = m.borrow_mut();
                mm.joined_left_events += 1;
                let v = matches!(event, gs::verif::HandlerIn::JoinedMesh);
                mm.belief.insert((*peer_id, *c), v);
                let who = mm.name(peer_id);
                mm.note(format!("  -> handler of {who} ({c}): {}", if v { "JoinedMesh" } else { "LeftMesh" }));
            }
        }));
    }
    let mut sink = |_: &mut Net<B>, _: usize, _: SwarmEvent<Ev>| {};
    rig.run(50_000, &mut sink);
    // connect everyone and open their sending streams
    for i in 1..=n_peers {
        if rng.bool() { rig.connect(i, 0) } else { rig.connect(0, i) }
    }
    rig.run(400_000, &mut sink);
    for i in 1..=n_peers {
        rig.raw_open_all(i);
    }
    rig.run(400_000, &mut sink);
    let p0 = rig.peer(0);
    let mut subscribed_local: BTreeSet<&'static str> = BTreeSet::new();
    let mut sig = Sig::new().u64(mesh_n as u64).u64(high as u64).u64(n_peers as u64);
    let mut fanout_publishes = 0u64;
    let mut seqno = 0u64;
    let mut ihave_seq = 0u64;
    // drains what raw peers received: PRUNEs sent by the node start a backoff in the ledger
    let drain = |rig: &mut Rig, mon: &Rc<RefCell<Mon>>| {
        let _now = gs::verif::clock::offset();
        for i in 1..rig.raw.len() {
            let pi = rig.peer(i);
            for rpc in rig.raw_recv(i, &p0) {
                let mut mm = mon.borrow_mut();
                for (t, b, _) in &rpc.prune {
                    // trail only: the ledger is fed from the node's send log (see `observe`), because a PRUNE can
                    // reach the wire long after the node started the backoff
                    let who = mm.name(&pi);
                    mm.note(format!("  node -> {who}: PRUNE {t} backoff {b:?}"));
                }
                for t in &rpc.graft {
                    let who = mm.name(&pi);
                    mm.note(format!("  node -> {who}: GRAFT {t}"));
                }
            }
        }
    };
    let n_ops = rng.range(25, 90);
    for _ in 0..n_ops {
        let k = 1 + rng.usize(n_peers);
        let pk = rig.peer(k);
        let t = TOPICS[rng.usize(3)];
        let op = rng.weighted(&[14, 5, 12, 8, 8, 6, 10, 6, 4, 5, 3, 3, 6, 4, 4, 5]);
        sig.push_u64(op as u64 * 16 + k as u64);
        let send = |rig: &mut Rig, mon: &Rc<RefCell<Mon>>, k: usize, rpc: Rpc| {
            let pk = rig.peer(k);
            if rig.raw_send(k, &p0, &rpc) {
                let mut mm = mon.borrow_mut();
                mm.sent.entry(pk).or_default().push_back(rpc);
            }
        };
        let describe: String;
        match op {
            0 => {
                describe = format!("p{k}: SUBSCRIBE {t}");
                send(&mut rig, &mon, k, Rpc { subs: vec![(true, t.into())], ..Default::default() });
            }
            1 => {
                describe = format!("p{k}: UNSUBSCRIBE {t}");
                send(&mut rig, &mon, k, Rpc { subs: vec![(false, t.into())], ..Default::default() });
            }
            2 => {
                describe = format!("p{k}: GRAFT {t}");
                send(&mut rig, &mon, k, Rpc { graft: vec![t.into()], ..Default::default() });
            }
            3 => {
                let b = *rng.pick(&[None, Some(0u64), Some(5), Some(30), Some(120)]);
                describe = format!("p{k}: PRUNE {t} backoff {b:?}");
                send(&mut rig, &mon, k, Rpc { prune: vec![(t.into(), b, vec![])], ..Default::default() });
            }
            4 => {
                // several control messages / topics in one RPC
                let t2 = TOPICS[rng.usize(3)];
                describe = format!("p{k}: SUBSCRIBE {t},{t2} + GRAFT {t},{t2}");
                send(&mut rig, &mon, k, Rpc { subs: vec![(true, t.into()), (true, t2.into())], graft: vec![t.into(), t2.into()], ..Default::default() });
            }
            5 => {
                describe = format!("local {} {t}", if subscribed_local.contains(t) { "unsubscribe" } else { "subscribe" });
                mon.borrow_mut().observe(rig.gs(0), "before op");
                if subscribed_local.contains(t) {
                    rig.gs(0).unsubscribe(&gs::IdentTopic::new(t));
                    subscribed_local.remove(t);
                } else {
                    let _ = rig.gs(0).subscribe(&gs::IdentTopic::new(t));
                    subscribed_local.insert(t);
                }
                mon.borrow_mut().observe(rig.gs(0), &describe);
                rig.net.touch(0);
            }
            6 => {
                describe = "local heartbeat".to_string();
                mon.borrow_mut().observe(rig.gs(0), "before op");
                rig.heartbeat(0);
                mon.borrow_mut().observe(rig.gs(0), "heartbeat");
            }
            7 => {
                let d = *rng.pick(&[1u64, 4, 9, 30, 61, 200]);
                describe = format!("clock +{d}s");
                rig.run(400_000, &mut sink);
                drain(&mut rig, &mon);
                gs::verif::clock::advance(Duration::from_secs(d));
            }
            8 if scoring => {
                let s = *rng.pick(&[-60.0f64, -20.0, -10.0, -1.0, 0.0, 5.0]);
                describe = format!("set_application_score(p{k}, {s})");
                mon.borrow_mut().observe(rig.gs(0), "before op");
                rig.gs(0).set_application_score(&pk, s);
                if s < 0.0 {
                    mon.borrow_mut().ineligible_seen += 1;
                }
                mon.borrow_mut().observe(rig.gs(0), &describe);
            }
            9 => {
                // explicit peers: only peers that are not currently in any mesh
                let in_mesh = TOPICS.iter().any(|t| rig.gs(0).mesh_peers(&gs::IdentTopic::new(*t).hash()).any(|p| *p == pk));
                if !in_mesh && !mon.borrow().explicit.contains(&pk) {
                    describe = format!("add_explicit_peer(p{k})");
                    mon.borrow_mut().observe(rig.gs(0), "before op");
                    rig.gs(0).add_explicit_peer(&pk);
                    mon.borrow_mut().explicit.insert(pk);
                    mon.borrow_mut().ineligible_seen += 1;
                    rig.net.touch(0);
                } else if mon.borrow().explicit.contains(&pk) {
                    describe = format!("remove_explicit_peer(p{k})");
                    rig.gs(0).remove_explicit_peer(&pk);
                    mon.borrow_mut().explicit.remove(&pk);
                } else {
                    describe = "noop".into();
                }
            }
            10 => {
                describe = format!("p{k}: disconnect");
                if let Some(c) = rig.raw[k].clone() {
                    c.close_connection(p0, None);
                }
                mon.borrow_mut().sent.remove(&pk);
                rig.net.touch(k);
            }
            11 => {
                describe = format!("p{k}: reconnect");
                let connected = rig.raw[k].as_ref().map(|c| !c.connections(&p0).is_empty()).unwrap_or(false);
                if !connected {
                    // RPCs written after the disconnect went to a dead stream and will never be processed: once the net
                    // is quiescent whatever is still in the FIFO of sent RPCs is lost, not pending
                    rig.run(400_000, &mut sink);
                    mon.borrow_mut().sent.remove(&pk);
                    rig.connect(k, 0);
                    rig.run(400_000, &mut sink);
                    rig.raw_open_all(k);
                }
            }
            13 => {
                // one more simultaneous connection between p{k} and the node (either direction)
                let have = rig.raw[k].as_ref().map(|c| c.connections(&p0).len()).unwrap_or(0);
                if (1..3).contains(&have) {
                    let from_node = rng.bool();
                    describe = format!("p{k}: additional connection ({})", if from_node { "dialed by the node" } else { "dialed by the peer" });
                    if from_node { rig.connect(0, k) } else { rig.connect(k, 0) }
                    rig.run(400_000, &mut sink);
                } else {
                    describe = "noop".into();
                }
            }
            14 => {
                // the node closes ONE of several connections to p{k}; everything in flight is processed first so
                // that the ledger of sent RPCs stays aligned
                rig.run(400_000, &mut sink);
                drain(&mut rig, &mon);
                let conns = live_conns(&rig.recorder(0).log.lock().unwrap()).remove(&pk).unwrap_or_default();
                if conns.len() >= 2 {
                    let c = if rng.bool() { conns[0] } else { conns[rng.usize(conns.len())] };
                    describe = format!("node closes connection {c} of p{k} ({} of {}, oldest = {})", conns.iter().position(|x| *x == c).unwrap_or(0) + 1, conns.len(), conns[0]);
                    rig.net.swarm(0).close_connection(c);
                    rig.net.touch(0);
                    rig.run(400_000, &mut sink);
                    drain(&mut rig, &mon);
                    rig.raw_open_all(k);
                    rig.run(400_000, &mut sink);
                    mon.borrow_mut().single_closes += 1;
                } else {
                    describe = "noop".into();
                }
            }
            15 => {
                // IHAVE for a message nobody will ever deliver: the node asks for it (IWANT) and, when the promise is
                // broken (3 s later, at a heartbeat), penalises the peer
                ihave_seq += 1;
                describe = format!("p{k}: IHAVE {t} [never delivered]");
                send(&mut rig, &mon, k, Rpc { ihave: vec![(t.into(), vec![format!("ghost-{k}-{ihave_seq}").into_bytes()])], ..Default::default() });
            }
            _ => {
                // publish on a topic (fanout when not subscribed)
                describe = format!("local publish {t}");
                let th = gs::IdentTopic::new(t).hash();
                let before: Vec<PeerId> = rig.gs(0).verif_fanout(&th);
                let snap = Mon::snap(rig.gs(0));
                seqno += 1;
                let res = rig.gs(0).publish(gs::IdentTopic::new(t), format!("d{seqno}").into_bytes());
                rig.net.touch(0);
                if !subscribed_local.contains(t) && !flood && res.is_ok() {
                    fanout_publishes += 1;
                    mon.borrow_mut().last_fanout_pub.insert(t.to_string(), gs::verif::clock::offset());
                    let after: BTreeSet<PeerId> = rig.gs(0).verif_fanout(&th).into_iter().collect();
                    for p in &before {
                        let eligible = snap.peers.get(p).map(|ts| ts.contains(t)).unwrap_or(false) && snap.score.get(p).map(|s| *s >= PUBLISH_THRESHOLD).unwrap_or(true) && !mon.borrow().explicit.contains(p);
                        if eligible && snap.score.get(p).map(|s| *s < 0.0).unwrap_or(false) {
                            mon.borrow_mut().fanout_negative_eligible += 1;
                        }
                        if eligible && !after.contains(p) {
                            let mut mm = mon.borrow_mut();
                            let who = mm.name(p);
                            mm.viol.push(("C35", "fanout-peer-dropped-on-publish".into(), format!("{who} was in the fanout of {t} before a publish, is still connected/subscribed/non-negative, but is gone after it (before {} peers, after {})", before.len(), after.len())));
                        }
                    }
                }
            }
        }
        mon.borrow_mut().note(describe);
        if rng.chance(2, 3) {
            let steps = rng.range(1, 120);
            rig.run(steps, &mut sink);
        }
        if rng.chance(1, 4) {
            rig.run(400_000, &mut sink);
            drain(&mut rig, &mon);
        }
    }
    let quiescent = rig.run(800_000, &mut sink);
    drain(&mut rig, &mon);
    let mm = mon.borrow();
    let desync = mm.desync;
    Out {
        sig: sig.0,
        interleaving: rig.net.trace.0,
        viol: mm.viol.clone(),
        trail: mm.trail.clone(),
        observations: mm.observations,
        additions: mm.additions_checked,
        grafts_at_high: mm.grafts_at_high,
        ineligible: mm.ineligible_seen + mm.backoff.len() as u64,
        joined_left: mm.joined_left_events,
        single_closes: mm.single_closes,
        fanout_negative_eligible: mm.fanout_negative_eligible,
        fanout_publishes,
        quiescent,
        desync,
        peers: n_peers,
    }
}

fn run_common(args: &Args, prop: &'static str) -> i32 {
    let check = Check::new(
        args,
        "exploration",
        "PRNG histories against one real gossipsub node (scoring on in 3/4 of the cases, mesh_n 2-4) and 3-10 hand-speaking raw peers: \
         SUBSCRIBE/UNSUBSCRIBE/GRAFT/PRUNE(backoff)/multi-topic RPCs, connect/disconnect, local subscribe/unsubscribe/publish/heartbeat, \
         application scores, explicit peers, virtual-clock advances; monitor observes at every handler event / swarm event / idle point / op; \
         non-trivial = history with mesh additions checked, JoinedMesh/LeftMesh notifications and at least one ineligible (backed-off, \
         negative or explicit) peer; distinct by op sequence",
    );
    let cases = args.tier.pick(800u64, 60_000);
    let only: Option<u64> = args.extra.get("case").and_then(|s| s.parse().ok());
    vmon::par_cases_timed(&check, cases, args.threads, args.tier.pick(40.0, 420.0), |case_idx, rng: &mut Rng| {
        if only.is_some() && only != Some(case_idx) {
            return;
        }
        let o = run_case(rng);
        if !o.quiescent {
            check.inconclusive("not quiescent");
        }
        if o.desync {
            // harness self-check failed: do not judge this history
            check.inconclusive("monitor lost track of which sent RPC the node is processing");
            return;
        }
        check.case(o.sig, o.additions > 0 && o.joined_left > 0 && o.ineligible > 0);
        check.distinct("distinct_interleavings", o.interleaving);
        check.count("observation_points", o.observations);
        check.count("mesh_additions_checked", o.additions);
        check.count("grafts_processed_at_mesh_n_high", o.grafts_at_high);
        check.count("joined_left_notifications", o.joined_left);
        check.count("fanout_publishes_checked", o.fanout_publishes);
        check.count("fanout_members_with_negative_but_eligible_score", o.fanout_negative_eligible);
        check.count("single_connection_closes_of_multi_connection_peers", o.single_closes);
        let wit: Value = json!({"case": case_idx, "raw_peers": o.peers, "trail": o.trail});
        for (p, s, w) in &o.viol {
            if *p == prop {
                check.violation(s.clone(), w.clone(), wit.clone());
            }
        }
        if check.want_sample() && o.additions > 3 {
            check.sample(json!({"case": case_idx, "raw_peers": o.peers, "trail": o.trail.iter().take(40).collect::<Vec<_>>()}));
        }
    });
    check.finish()
}

pub fn run_c28(args: &Args) -> i32 {
    run_common(args, "C28")
}
pub fn run_c29(args: &Args) -> i32 {
    run_common(args, "C29")
}
/// second stage of `./check C32` (the first is the BackoffStorage facade check in vc-gossipsub)
pub fn run_c32(args: &Args) -> i32 {
    run_common(args, "C32")
}
pub fn run_c35(args: &Args) -> i32 {
    run_common(args, "C35")
}
