//! C04 — dial preconditions and address selection are honoured.
//!
//! Exhaustive over PeerCondition(4) x connected{0,1} x dialing{0,1} x peer-known{y,n}, crossed with PRNG
//! address lists (duplicates, own listen addresses, addresses carrying the target's or a foreign /p2p,
//! behaviour-supplied lists, extension on/off, empty lists).
//!
//! Oracle (from the statement): condition false => Err(DialPeerConditionFalse(c)), exactly one
//! DialFailure at the behaviour, zero transport dial calls, pending counter unchanged. Accepted => every
//! transport-dialed address ends in /p2p/<target> (peer known), its stripped form is among explicit ∪
//! (behaviour addresses iff extension enabled), is not literally one of `listeners()`, no address is
//! dialed twice and #transport calls <= #distinct inputs. No usable address (every input is an own
//! listen address, or no input) => Err(NoAddresses) + exactly one DialFailure.
//! Not judged: aliasing of `X` vs `X/p2p/P` spellings (literal equality is what the statement says).
use std::collections::BTreeSet;

use libp2p_core::{Multiaddr, multiaddr::Protocol};
use libp2p_swarm::{
    DialError, SwarmEvent,
    dial_opts::{DialOpts, PeerCondition},
};
use vmon::{Args, Check, Rng, Sig, json};
use vnet::{BEv, Net, Outcome, Probe, ProbeEvent, Route, strip_p2p};

fn mem(n: u64) -> Multiaddr {
    Multiaddr::empty().with(Protocol::Memory(n))
}

const CONDS: [PeerCondition; 4] = [PeerCondition::Disconnected, PeerCondition::NotDialing, PeerCondition::DisconnectedAndNotDialing, PeerCondition::Always];

pub fn run(args: &Args) -> i32 {
    let check = Check::new(
        args,
        "exploration",
        "exhaustive state/condition matrix (4 conditions x connected x dialing x peer known) crossed with PRNG address lists; non-trivial = every \
         case (each exercises either the rejection or the selection rule); distinct by (cell, address-list shape, outcome)",
    );
    let reps = args.tier.pick(1_000u64, 40_000);
    let n = 32 * reps;
    vmon::par_cases(&check, n, args.threads, |idx, rng: &mut Rng| {
        let cell = idx % 32;
        let cond = CONDS[(cell % 4) as usize];
        let connected = (cell / 4) % 2 == 1;
        let dialing = (cell / 8) % 2 == 1;
        let peer_known = (cell / 16) % 2 == 1;
        let mut net: Net<Probe> = Net::new(rng.next_u64(), false);
        let mut ctls = vec![];
        for i in 0..3 {
            let (p, c) = Probe::new(i as u8);
            ctls.push(c);
            net.add_node(vnet::keypair(rng.next_u64()), move |_, _| p, |c| c.with_idle_connection_timeout(std::time::Duration::from_secs(3600)));
        }
        // node 0 listens on two addresses, nodes 1,2 on one each
        let own = [mem(100), mem(101)];
        net.swarm(0).listen_on(own[0].clone()).unwrap();
        net.swarm(0).listen_on(own[1].clone()).unwrap();
        net.swarm(1).listen_on(mem(110)).unwrap();
        net.swarm(2).listen_on(mem(120)).unwrap();
        net.board.set_route(&mem(9100), Route::Manual);
        let target = net.peer(1);
        let foreign = net.peer(2);
        let mut sink = |_: &mut Net<Probe>, _: usize, _: SwarmEvent<ProbeEvent>| {};
        net.run(10_000, &mut sink);
        if connected {
            net.swarm(0).dial(DialOpts::peer_id(target).addresses(vec![mem(110)]).condition(PeerCondition::Always).build()).unwrap();
            net.touch(0);
            net.run(100_000, &mut sink);
            if !net.swarm(0).is_connected(&target) {
                check.inconclusive("setup: could not connect");
                return;
            }
        }
        if dialing {
            // the pending dial that makes the node "dialing" is, in half of the cases, a role-overridden one
            let b = DialOpts::peer_id(target).addresses(vec![mem(9100)]).condition(PeerCondition::Always);
            net.swarm(0).dial(if rng.bool() { b.override_role().build() } else { b.build() }).unwrap();
            net.touch(0);
            net.run(100_000, &mut sink);
            if net.board.pending_manual().is_empty() {
                check.inconclusive("setup: manual dial not pending");
                return;
            }
        }
        // behaviour-supplied addresses
        let alphabet = |rng: &mut Rng| -> Multiaddr {
            match rng.usize(9) {
                0 => own[0].clone(),
                1 => own[1].clone(),
                2 => mem(110),
                3 => mem(110).with(Protocol::P2p(target)),
                4 => mem(110).with(Protocol::P2p(foreign)),
                5 => mem(9001),
                6 => mem(9001),
                7 => mem(9002 + rng.below(3)),
                _ => mem(120),
            }
        };
        let beh: Vec<Multiaddr> = (0..rng.usize(4)).map(|_| alphabet(rng)).collect();
        let key = if peer_known { Some(target) } else { None };
        ctls[0].with(|p| {
            p.addresses.insert(key, beh.clone());
        });
        let explicit: Vec<Multiaddr> = (0..rng.usize(5)).map(|_| alphabet(rng)).collect();
        let extend = rng.bool();
        // builder mode: 0 = peer id only (behaviour addresses are always used), 1 = explicit list, 2 = explicit list + extension
        let mode = if !peer_known { 1 } else if explicit.is_empty() && rng.bool() { 0 } else if extend { 2 } else { 1 };
        let opts = if peer_known {
            match mode {
                0 => DialOpts::peer_id(target).condition(cond).build(),
                1 => DialOpts::peer_id(target).condition(cond).addresses(explicit.clone()).build(),
                _ => DialOpts::peer_id(target).condition(cond).addresses(explicit.clone()).extend_addresses_through_behaviour().build(),
            }
        } else {
            DialOpts::unknown_peer_id().address(explicit.first().cloned().unwrap_or(mem(110))).build()
        };
        // what the statement lets the swarm use
        let explicit_used: Vec<Multiaddr> = if peer_known { if mode == 0 { vec![] } else { explicit.clone() } } else { vec![explicit.first().cloned().unwrap_or(mem(110))] };
        let uses_behaviour = peer_known && mode != 1;
        let conn = opts.connection_id();
        let listeners: BTreeSet<Multiaddr> = net.swarm(0).listeners().cloned().collect();
        let before_dials = net.board.with(|b| b.dials.len());
        let before_pending = net.swarm(0).network_info().connection_counters().num_pending_outgoing();
        let log_before = ctls[0].with(|p| p.log.len());
        let res = net.swarm(0).dial(opts);
        net.touch(0);
        let after_pending = net.swarm(0).network_info().connection_counters().num_pending_outgoing();
        let dialed: Vec<Multiaddr> = net.board.with(|b| b.dials[before_dials..].iter().map(|d| d.addr.clone()).collect());
        let new_log: Vec<BEv> = ctls[0].with(|p| p.log[log_before..].to_vec());
        let failures = new_log.iter().filter(|e| matches!(e, BEv::DialFailure { conn: c, .. } if *c == conn)).count();
        let should_dial = !peer_known
            || match cond {
                PeerCondition::Always => true,
                PeerCondition::Disconnected => !connected,
                PeerCondition::NotDialing => !dialing,
                PeerCondition::DisconnectedAndNotDialing => !connected && !dialing,
            };
        let wit = json!({"condition": format!("{cond:?}"), "connected": connected, "dialing": dialing, "peer_known": peer_known, "extend": extend,
            "explicit": explicit_used.iter().map(|a| a.to_string()).collect::<Vec<_>>(), "behaviour": beh.iter().map(|a| a.to_string()).collect::<Vec<_>>(),
            "listeners": listeners.iter().map(|a| a.to_string()).collect::<Vec<_>>(), "transport_dialed": dialed.iter().map(|a| a.to_string()).collect::<Vec<_>>(),
            "result": format!("{:?}", res.as_ref().map_err(|e| vnet::dial_error_kind(e)))});
        let mut outcome = 0u64;
        if !should_dial {
            outcome = 1;
            match &res {
                Err(DialError::DialPeerConditionFalse(c)) if format!("{c:?}") == format!("{cond:?}") => {}
                other => check.violation("condition-false-not-rejected", format!("condition {cond:?} is false (connected={connected}, dialing={dialing}) but dial returned {other:?}"), wit.clone()),
            }
            if failures != 1 {
                check.violation("condition-false-dialfailure-count", format!("{failures} DialFailure notifications for a condition-false dial (want 1)"), wit.clone());
            }
            if !dialed.is_empty() {
                check.violation("condition-false-transport-dialed", format!("transport dialed {dialed:?} for a condition-false dial"), wit.clone());
            }
            if after_pending != before_pending {
                check.violation("condition-false-pending-created", format!("pending outgoing {before_pending} -> {after_pending}"), wit.clone());
            }
        } else {
            if let Err(DialError::DialPeerConditionFalse(_)) = &res {
                check.violation("condition-true-rejected", format!("condition {cond:?} holds (connected={connected}, dialing={dialing}) but dial was rejected"), wit.clone());
            }
            let mut allowed: Vec<Multiaddr> = explicit_used.clone();
            if uses_behaviour {
                allowed.extend(beh.iter().cloned());
            }
            let usable: BTreeSet<Multiaddr> = allowed.iter().filter(|a| !listeners.contains(*a)).cloned().collect();
            if usable.is_empty() {
                outcome = 2;
                if !matches!(res, Err(DialError::NoAddresses)) {
                    check.violation("no-usable-address-not-noaddresses", format!("no usable address but dial returned {:?}", res.as_ref().map_err(vnet::dial_error_kind)), wit.clone());
                }
                if failures != 1 {
                    check.violation("noaddresses-dialfailure-count", format!("{failures} DialFailure notifications for NoAddresses (want 1)"), wit.clone());
                }
                if !dialed.is_empty() {
                    check.violation("noaddresses-transport-dialed", format!("transport dialed {dialed:?}"), wit.clone());
                }
            } else {
                outcome = 3;
                if res.is_err() {
                    check.violation("usable-addresses-but-dial-failed", format!("usable addresses {usable:?} but dial returned {:?}", res.as_ref().map_err(vnet::dial_error_kind)), wit.clone());
                }
                if failures != 0 && res.is_ok() {
                    check.violation("accepted-dial-immediate-failure", "DialFailure reported for an accepted dial before any attempt finished".to_string(), wit.clone());
                }
                let mut seen = std::collections::BTreeMap::new();
                for a in &dialed {
                    let stripped_once = {
                        let mut x = a.clone();
                        if peer_known && matches!(x.iter().last(), Some(Protocol::P2p(p)) if p == target) {
                            x.pop();
                        }
                        x
                    };
                    if peer_known && !matches!(a.iter().last(), Some(Protocol::P2p(p)) if p == target) {
                        check.violation("dialed-without-target-p2p", format!("transport dialed {a} which does not end in /p2p/<target>"), wit.clone());
                    }
                    // the input may itself already end in /p2p/<target>: accept either spelling as the origin
                    let origin_ok = usable.contains(&stripped_once) || usable.contains(a);
                    if !origin_ok {
                        let sig = if listeners.contains(&stripped_once) || listeners.contains(&strip_p2p(a)) { "dialed-own-listen-address" } else { "dialed-address-not-in-inputs" };
                        check.violation(sig, format!("transport dialed {a}, which is not a usable input address"), wit.clone());
                    }
                    // literal reading: each distinct *input* at most once. Two spellings of one input (`X` and
                    // `X/p2p/<target>`) map to the same dialed address; that aliasing is not judged.
                    let spellings = usable.iter().filter(|u| **u == *a || (peer_known && (*u).clone().with(Protocol::P2p(target)) == *a)).count();
                    let n_seen = seen.entry(a.clone()).or_insert(0usize);
                    *n_seen += 1;
                    if *n_seen > spellings.max(1) {
                        check.violation("address-dialed-twice", format!("{a} dialed {} times in one dial but only {spellings} distinct input(s) spell it", *n_seen), wit.clone());
                    }
                }
                if dialed.len() > usable.len() {
                    check.violation("more-transport-dials-than-distinct-inputs", format!("{} transport dials for {} distinct usable inputs", dialed.len(), usable.len()), wit.clone());
                }
                if res.is_ok() && after_pending != before_pending + 1 {
                    check.violation("accepted-dial-pending-count", format!("pending outgoing {before_pending} -> {after_pending} after an accepted dial"), wit.clone());
                }
            }
        }
        // clean up pending manual dial so tasks end
        for d in net.board.pending_manual() {
            net.board.resolve(d, Outcome::Fail);
        }
        net.run(100_000, &mut sink);
        let shape = Sig::new().u64(cell).u64(explicit_used.len() as u64).u64(beh.len() as u64).u64(extend as u64).u64(outcome).u64(dialed.len() as u64).0;
        check.case(shape, true);
        check.distinct("matrix_cells", cell);
        check.count(["", "rejected_condition_false", "no_addresses", "accepted"][outcome as usize], 1);
        check.count("transport_dials_observed", dialed.len() as u64);
        if check.want_sample() && idx % 7 == 0 {
            check.sample(wit);
        }
    });
    check.note("exhaustive", json!("condition/state matrix exhaustive (32 cells); address lists sampled"));
    check.finish()
}

