//! C09 — smart-dial ranking is a complete, well-ordered permutation.
//!
//! Real `rank_dials` (cfg hook `libp2p_swarm::verif::rank_dials`, forwarding) over **all multisets** up
//! to a bound of a 26-address alphabet (IPv4/IPv6 x private/public x tcp/quic-v1/quic/webtransport/
//! webrtc-direct, DNS localhost / non-local, dnsaddr, relay).
//!
//! Oracle written from the statement: (1) output is a permutation of the input multiset; (2) every
//! delay finite; (3) reference classifier — contains /p2p-circuit => relay(3); private/loopback/
//! link-local/ULA IP or `localhost`/`*.localhost` name => private(1); other IP => public(2); no IP
//! component => last(4) — output group sequence is non-decreasing; (4) every group-4 delay >= every
//! delay of groups 1-3; (5) within a group every QUIC delay <= every TCP delay.
use std::time::Duration;

use libp2p_core::{Multiaddr, multiaddr::Protocol};
use vmon::{Args, Check, Sig, catch, json};

const R: &str = "12D3KooWDpJ7As7BWAwRMfu1VU2WCqNjvq387JEYKDBj4kx6nXTN";

fn alphabet() -> Vec<Multiaddr> {
    let s = [
        "/ip4/192.168.1.5/tcp/4001".to_string(),
        "/ip4/192.168.1.5/udp/4001/quic-v1".into(),
        "/ip4/10.0.0.1/tcp/80".into(),
        "/ip6/fe80::1/udp/4001/quic-v1".into(),
        "/ip6/fd00::1/tcp/4001".into(),
        "/ip4/127.0.0.1/udp/9/quic".into(),
        "/ip4/192.168.1.5/udp/4001/quic-v1/webtransport".into(),
        "/ip4/10.0.0.1/udp/5/webrtc-direct".into(),
        "/ip4/8.8.8.8/tcp/4001".into(),
        "/ip4/8.8.8.8/udp/4001/quic-v1".into(),
        "/ip6/2606:4700::1111/tcp/4001".into(),
        "/ip6/2606:4700::1111/udp/4001/quic-v1".into(),
        "/ip4/1.1.1.1/udp/443/quic".into(),
        "/ip4/1.1.1.1/tcp/443".into(),
        "/ip4/8.8.4.4/udp/4001/webrtc-direct".into(),
        "/ip4/8.8.4.4/udp/4001/quic-v1/webtransport".into(),
        "/dns/localhost/tcp/4001".into(),
        "/dns4/foo.localhost/udp/4001/quic-v1".into(),
        "/dns/example.com/tcp/443".into(),
        "/dns4/example.org/udp/443/quic-v1".into(),
        "/dnsaddr/bootstrap.libp2p.io".into(),
        format!("/ip4/8.8.8.8/tcp/4001/p2p/{R}/p2p-circuit"),
        format!("/ip4/8.8.8.8/udp/4001/quic-v1/p2p/{R}/p2p-circuit"),
        format!("/dns/relay.example.com/tcp/443/p2p/{R}/p2p-circuit"),
        // circuits through relays that are themselves on a private / loopback address are still relay dials
        format!("/ip4/192.168.1.9/tcp/4001/p2p/{R}/p2p-circuit"),
        format!("/ip4/127.0.0.1/udp/4001/quic-v1/p2p/{R}/p2p-circuit"),
    ];
    s.iter().map(|x| x.parse().expect("alphabet parses")).collect()
}

fn class(a: &Multiaddr) -> (u8, &'static str) {
    if a.iter().any(|p| matches!(p, Protocol::P2pCircuit)) {
        return (3, "relay");
    }
    for p in a.iter() {
        match p {
            Protocol::Ip4(ip) => return if ip.is_private() || ip.is_loopback() || ip.is_link_local() { (1, "private-ip") } else { (2, "public-ip") },
            Protocol::Ip6(ip) => {
                let s = ip.segments()[0];
                return if ip.is_loopback() || (s & 0xffc0) == 0xfe80 || (s & 0xfe00) == 0xfc00 { (1, "private-ip") } else { (2, "public-ip") };
            }
            _ => {}
        }
    }
    for p in a.iter() {
        if let Protocol::Dns(d) | Protocol::Dns4(d) | Protocol::Dns6(d) = p
            && (d == "localhost" || d.ends_with(".localhost"))
        {
            return (1, "localhost-name");
        }
    }
    (4, "no-ip")
}
fn is_quic(a: &Multiaddr) -> bool {
    a.iter().any(|p| matches!(p, Protocol::Quic | Protocol::QuicV1)) && !a.iter().any(|p| matches!(p, Protocol::WebTransport))
}
fn is_tcp(a: &Multiaddr) -> bool {
    a.iter().any(|p| matches!(p, Protocol::Tcp(_)))
}

fn judge(check: &Check, input: &[Multiaddr]) {
    let out = match catch(|| libp2p_swarm::verif::rank_dials(input.to_vec())) {
        Ok(o) => o,
        Err(p) => {
            check.violation(format!("panic@{}", p.site()), p.msg, json!({"input": input.iter().map(|a| a.to_string()).collect::<Vec<_>>()}));
            return;
        }
    };
    let wit = || {
        json!({"input": input.iter().map(|a| a.to_string()).collect::<Vec<_>>(),
            "output": out.iter().map(|(d, a)| format!("{}ms {} [{}]", d.as_millis(), a, class(a).1)).collect::<Vec<_>>()})
    };
    // (1) permutation
    let mut a: Vec<String> = input.iter().map(|x| x.to_string()).collect();
    let mut b: Vec<String> = out.iter().map(|(_, x)| x.to_string()).collect();
    a.sort();
    b.sort();
    if a != b {
        check.violation("not-a-permutation", "output addresses are not a permutation of the input multiset", wit());
    }
    // (2) finite
    if out.iter().any(|(d, _)| *d > Duration::from_secs(24 * 3600)) {
        check.violation("delay-not-finite", "a delay exceeds 24h", wit());
    }
    // (3) group order
    for w in out.windows(2) {
        let (g0, c0) = class(&w[0].1);
        let (g1, c1) = class(&w[1].1);
        if g0 > g1 {
            check.violation(format!("group-order:{c0}-before-{c1}"), format!("{} ({c0}) is ranked before {} ({c1})", w[0].1, w[1].1), wit());
        }
    }
    // (4) last group never before an earlier group
    for (d4, a4) in out.iter().filter(|(_, a)| class(a).0 == 4) {
        for (d, a) in out.iter().filter(|(_, a)| class(a).0 < 4) {
            if d4 < d {
                check.violation(
                    format!("last-group-scheduled-before:{}", class(a).1),
                    format!("{a4} (no IP) is scheduled at {}ms, before {a} ({}) at {}ms", d4.as_millis(), class(a).1, d.as_millis()),
                    wit(),
                );
            }
        }
    }
    // (5) QUIC no later than TCP within a group
    for g in 1..=4u8 {
        let q = out.iter().filter(|(_, a)| class(a).0 == g && is_quic(a)).map(|(d, _)| *d).max();
        let t = out.iter().filter(|(_, a)| class(a).0 == g && is_tcp(a)).map(|(d, _)| *d).min();
        if let (Some(q), Some(t)) = (q, t)
            && q > t
        {
            check.violation(format!("quic-after-tcp:group{g}"), format!("group {g}: a QUIC address is scheduled at {}ms, after a TCP address at {}ms", q.as_millis(), t.as_millis()), wit());
        }
    }
}

pub fn run(args: &Args) -> i32 {
    let check = Check::new(
        args,
        "exploration",
        "all multisets of size 0..=K over a 26-address alphabet (K=4 quick, 6 thorough), enumerated exhaustively; non-trivial = multiset spanning \
         >= 2 groups or containing both a QUIC and a TCP address; distinct by multiset",
    );
    let tiny = args.extra.get("budget").map(|s| s == "tiny").unwrap_or(false);
    let k = if tiny { 2 } else { args.tier.pick(4usize, 6) };
    let alpha = alphabet();
    let n = alpha.len();
    // enumerate multisets as non-decreasing index vectors; shard the first index over threads
    let firsts: Vec<usize> = (0..n).collect();
    judge(&check, &[]);
    check.case(0, false);
    std::thread::scope(|s| {
        let chunks: Vec<Vec<usize>> = (0..args.threads.max(1)).map(|t| firsts.iter().copied().filter(|f| f % args.threads.max(1) == t).collect()).collect();
        for ch in chunks {
            let check = &check;
            let alpha = &alpha;
            s.spawn(move || {
                for f in ch {
                    let mut idx = vec![f];
                    loop {
                        let input: Vec<Multiaddr> = idx.iter().map(|i| alpha[*i].clone()).collect();
                        judge(check, &input);
                        let groups: std::collections::BTreeSet<u8> = input.iter().map(|a| class(a).0).collect();
                        let nontrivial = groups.len() >= 2 || (input.iter().any(is_quic) && input.iter().any(is_tcp));
                        let mut sg = Sig::new();
                        for i in &idx {
                            sg.push_u64(*i as u64);
                        }
                        check.case(sg.0, nontrivial);
                        if nontrivial && idx.len() == 4 && idx[1] == 9 && idx[3] == 21 && check.want_sample() {
                            let out = libp2p_swarm::verif::rank_dials(input.clone());
                            check.sample(json!({"input": input.iter().map(|a| a.to_string()).collect::<Vec<_>>(), "ranked": out.iter().map(|(d, a)| format!("{}ms {a}", d.as_millis())).collect::<Vec<_>>()}));
                        }
                        // next multiset with the same first element (depth-first)
                        if idx.len() < k {
                            let last = *idx.last().unwrap();
                            idx.push(last);
                            continue;
                        }
                        loop {
                            if idx.len() == 1 {
                                break;
                            }
                            let l = idx.len() - 1;
                            if idx[l] + 1 < n {
                                idx[l] += 1;
                                break;
                            }
                            idx.pop();
                        }
                        if idx.len() == 1 {
                            break;
                        }
                    }
                }
            });
        }
    });
    check.note("exhaustive", json!(true));
    check.note("max_multiset_size", json!(k));
    check.note("alphabet", json!(alpha.iter().map(|a| format!("{a} [{}]", class(a).1)).collect::<Vec<_>>()));
    check.finish()
}
