mod c13;
mod lifecycle;

fn main() {
    vmon::run_main(&[("C01", lifecycle::run_c01), ("C02", lifecycle::run_c02), ("C13", c13::run)]);
}
