mod c13;

fn main() {
    vmon::run_main(&[("C13", c13::run)]);
}
