mod c03;
mod c04;
mod c05;
mod c07;
mod c08;
mod c09;
mod c10;
mod c11;
mod c12;
mod c13;
mod compose;
mod lifecycle;
mod limits;
mod mt;

fn main() {
    vmon::run_main(&[
        ("C01", lifecycle::run_c01),
        ("C02", lifecycle::run_c02),
        ("C03", c03::run),
        ("C04", c04::run),
        ("C05", c05::run),
        ("C06", compose::run_c06),
        ("C07", c07::run),
        ("C08", c08::run),
        ("C09", c09::run),
        ("C10", c10::run),
        ("C11", c11::run),
        ("C12", c12::run),
        ("C13", c13::run),
        ("C52", limits::run_c52),
        ("C53", limits::run_c53),
        ("C58", compose::run_c58),
    ]);
}
