//! C52 (connection limits are never exceeded) and C53 (allow and block lists are enforced), on real
//! swarms whose behaviour is `#[derive(NetworkBehaviour)] { limits|list, probe }`, 3..5 nodes, PRNG dials in
//! every direction (good, refused, handshake-cut, manually resolved / left pending), closes, disconnects,
//! list changes, under the PRNG scheduler.
//!
//! C52 oracle: reference counts built from the node's own SwarmEvents and `dial` return values
//! (pending in/out, established in/out/per-peer/total), connections to bypassed peers ignored; after
//! every event and every accepted dial each count is <= its configured limit.
//! C53 oracle: once `block_peer(p)` / `disallow_peer(p)` has returned (or, with an allow list, while p was
//! never allowed) no ConnectionEstablished with p is reported until the matching unblock/allow call;
//! every connection to p that was established when p became blocked/disallowed has been closed when the
//! net is quiescent at the end.
use std::collections::{BTreeMap, HashMap, HashSet};

use libp2p_allow_block_list as abl;
use libp2p_connection_limits as cl;
use libp2p_core::{Multiaddr, multiaddr::Protocol};
use libp2p_identity::PeerId;
use libp2p_swarm::{
    ConnectionId, NetworkBehaviour, SwarmEvent,
    dial_opts::{DialOpts, PeerCondition},
};
use vmon::{Args, Check, Rng, Sig, Value, json};
use vnet::{Net, Outcome, Probe, Route};

#[derive(NetworkBehaviour)]
#[behaviour(prelude = "libp2p_swarm::derive_prelude")]
pub struct Limited {
    limits: cl::Behaviour,
    probe: Probe,
}
#[derive(NetworkBehaviour)]
#[behaviour(prelude = "libp2p_swarm::derive_prelude")]
pub struct Blocking {
    list: abl::Behaviour<abl::BlockedPeers>,
    probe: Probe,
}
#[derive(NetworkBehaviour)]
#[behaviour(prelude = "libp2p_swarm::derive_prelude")]
pub struct Allowing {
    list: abl::Behaviour<abl::AllowedPeers>,
    probe: Probe,
}

fn mem(n: u64) -> Multiaddr {
    Multiaddr::empty().with(Protocol::Memory(n))
}

// ------------------------------------------------------------------------------------------- C52

#[derive(Clone, Debug, Default)]
struct Lim {
    pending_in: Option<u32>,
    pending_out: Option<u32>,
    est_in: Option<u32>,
    est_out: Option<u32>,
    est: Option<u32>,
    per_peer: Option<u32>,
}

#[derive(Default)]
struct Counts {
    pending_in: HashSet<ConnectionId>,
    pending_out: HashMap<ConnectionId, Option<PeerId>>,
    est: HashMap<ConnectionId, (PeerId, bool)>,
}

fn c52_case(check: &Check, rng: &mut Rng) {
    let n = 3 + rng.usize(3);
    let mut net: Net<Limited> = Net::new(rng.next_u64(), rng.chance(1, 4));
    let mut lims: Vec<Lim> = vec![];
    let opt = |rng: &mut Rng| if rng.chance(1, 3) { None } else { Some(rng.below(4) as u32) };
    let keys: Vec<_> = (0..n).map(|_| vnet::keypair(rng.next_u64())).collect();
    let peers: Vec<PeerId> = keys.iter().map(|k| k.public().to_peer_id()).collect();
    let mut bypass: Vec<HashSet<PeerId>> = vec![];
    for i in 0..n {
        let l = Lim { pending_in: opt(rng), pending_out: opt(rng), est_in: opt(rng), est_out: opt(rng), est: opt(rng), per_peer: opt(rng) };
        let limits = cl::ConnectionLimits::default()
            .with_max_pending_incoming(l.pending_in)
            .with_max_pending_outgoing(l.pending_out)
            .with_max_established_incoming(l.est_in)
            .with_max_established_outgoing(l.est_out)
            .with_max_established(l.est)
            .with_max_established_per_peer(l.per_peer);
        let mut b = cl::Behaviour::new(limits);
        let mut by = HashSet::new();
        if rng.chance(1, 3) {
            let j = (i + 1 + rng.usize(n - 1)) % n;
            b.bypass_peer_id(&peers[j]);
            by.insert(peers[j]);
        }
        bypass.push(by);
        lims.push(l);
        let (probe, _) = Probe::new(i as u8);
        net.add_node(keys[i].clone(), move |_, _| Limited { limits: b, probe }, |c| c.with_idle_connection_timeout(std::time::Duration::from_secs(3600)));
        net.swarm(i).listen_on(mem(100 + i as u64)).unwrap();
        net.board.set_route(&mem(8000 + i as u64), Route::Cut { node: i, id: libp2p_core::transport::ListenerId::next(), after: 0 });
        net.board.set_route(&mem(9100 + i as u64), Route::Manual);
    }
    let mut counts: Vec<Counts> = (0..n).map(|_| Counts::default()).collect();
    let mut bad: Vec<(String, String, Value)> = vec![];
    let mut log: Vec<Vec<String>> = vec![vec![]; n];
    let mut max_seen: BTreeMap<&'static str, u32> = BTreeMap::new();
    let (mut n_denied, mut n_est) = (0u64, 0u64);

    fn judge(i: usize, c: &Counts, l: &Lim, bypass: &HashSet<PeerId>, when: &str, log: &[String], bad: &mut Vec<(String, String, Value)>, max_seen: &mut BTreeMap<&'static str, u32>) {
        let p_in = c.pending_in.len() as u32;
        let p_out = c.pending_out.values().filter(|p| !p.map(|p| bypass.contains(&p)).unwrap_or(false)).count() as u32;
        let e: Vec<&(PeerId, bool)> = c.est.values().filter(|(p, _)| !bypass.contains(p)).collect();
        let e_in = e.iter().filter(|(_, o)| !*o).count() as u32;
        let e_out = e.iter().filter(|(_, o)| *o).count() as u32;
        let mut per: HashMap<PeerId, u32> = HashMap::new();
        for (p, _) in &e {
            *per.entry(*p).or_insert(0) += 1;
        }
        let per_max = per.values().copied().max().unwrap_or(0);
        let mut chk = |name: &'static str, cur: u32, lim: Option<u32>| {
            let m = max_seen.entry(name).or_insert(0);
            *m = (*m).max(cur);
            if let Some(l) = lim
                && cur > l
            {
                bad.push((format!("limit-exceeded:{name}"), format!("node {i} {when}: {name} = {cur} > limit {l}"), json!({"node": i, "limits": format!("{:?}", lim), "recent_events": log.iter().rev().take(25).rev().collect::<Vec<_>>()})));
            }
        };
        chk("pending_incoming", p_in, l.pending_in);
        chk("pending_outgoing", p_out, l.pending_out);
        chk("established_incoming", e_in, l.est_in);
        chk("established_outgoing", e_out, l.est_out);
        chk("established_total", e_in + e_out, l.est);
        chk("established_per_peer", per_max, l.per_peer);
    }

    macro_rules! sink {
        () => {
            &mut |_: &mut Net<Limited>, i: usize, ev: SwarmEvent<LimitedEvent>| {
                let c = &mut counts[i];
                let desc = match &ev {
                    SwarmEvent::IncomingConnection { connection_id, .. } => {
                        c.pending_in.insert(*connection_id);
                        format!("Incoming({connection_id})")
                    }
                    SwarmEvent::ConnectionEstablished { connection_id, peer_id, endpoint, .. } => {
                        c.pending_in.remove(connection_id);
                        c.pending_out.remove(connection_id);
                        c.est.insert(*connection_id, (*peer_id, endpoint.is_dialer()));
                        n_est += 1;
                        format!("Est({connection_id},{})", if endpoint.is_dialer() { "out" } else { "in" })
                    }
                    SwarmEvent::ConnectionClosed { connection_id, .. } => {
                        c.est.remove(connection_id);
                        format!("Closed({connection_id})")
                    }
                    SwarmEvent::OutgoingConnectionError { connection_id, error, .. } => {
                        c.pending_out.remove(connection_id);
                        if matches!(error, libp2p_swarm::DialError::Denied { .. }) {
                            n_denied += 1;
                        }
                        format!("OutErr({connection_id},{})", vnet::dial_error_kind(error))
                    }
                    SwarmEvent::IncomingConnectionError { connection_id, error, .. } => {
                        c.pending_in.remove(connection_id);
                        if matches!(error, libp2p_swarm::ListenError::Denied { .. }) {
                            n_denied += 1;
                        }
                        format!("InErr({connection_id},{})", vnet::listen_error_kind(error))
                    }
                    _ => return,
                };
                log[i].push(desc.clone());
                judge(i, &counts[i], &lims[i], &bypass[i], &format!("after {desc}"), &log[i], &mut bad, &mut max_seen);
            }
        };
    }
    net.run(10_000, sink!());
    let mut sig = Sig::new();
    let ops = rng.range(20, 70);
    for _ in 0..ops {
        let i = rng.usize(n);
        let j = (i + 1 + rng.usize(n - 1)) % n;
        let op = rng.weighted(&[14, 12, 4, 4, 6, 5, 5, 3, 30]);
        sig.push_u64(op as u64);
        match op {
            0..=4 => {
                let addr = match op {
                    0 | 1 => mem(100 + j as u64),
                    2 => mem(9001),
                    3 => mem(8000 + j as u64),
                    _ => mem(9100 + j as u64),
                };
                let with_peer = op == 1 || rng.chance(1, 3);
                let o = if with_peer { DialOpts::peer_id(peers[j]).addresses(vec![addr]).condition(PeerCondition::Always).build() } else { DialOpts::unknown_peer_id().address(addr).build() };
                let id = o.connection_id();
                let res = net.swarm(i).dial(o);
                net.touch(i);
                match res {
                    Ok(()) => {
                        counts[i].pending_out.insert(id, if with_peer { Some(peers[j]) } else { None });
                        log[i].push(format!("dial({id}) ok"));
                        judge(i, &counts[i], &lims[i], &bypass[i], &format!("after accepted dial {id}"), &log[i], &mut bad, &mut max_seen);
                    }
                    Err(e) => {
                        if matches!(e, libp2p_swarm::DialError::Denied { .. }) {
                            n_denied += 1;
                        }
                        log[i].push(format!("dial({id}) err {}", vnet::dial_error_kind(&e)));
                    }
                }
            }
            5 => {
                let p = net.board.pending_manual();
                if !p.is_empty() {
                    let d = p[rng.usize(p.len())];
                    net.board.resolve(d, if rng.bool() { Outcome::Fail } else { Outcome::ConnectTo(mem(100 + j as u64)) });
                }
            }
            6 => {
                let v: Vec<ConnectionId> = counts[i].est.keys().copied().collect();
                if !v.is_empty() {
                    net.swarm(i).close_connection(v[rng.usize(v.len())]);
                    net.touch(i);
                }
            }
            7 => {
                let _ = net.swarm(i).disconnect_peer_id(peers[j]);
                net.touch(i);
            }
            _ => {
                net.run(rng.range(1, 40), sink!());
            }
        }
    }
    for d in net.board.pending_manual() {
        net.board.resolve(d, Outcome::Fail);
    }
    let q = net.run(400_000, sink!());
    if !q {
        check.inconclusive("not quiescent");
    }
    for (s, w, v) in bad {
        check.violation(s, w, v);
    }
    check.case(sig.0, n_denied > 0 && n_est > 0);
    check.distinct("distinct_interleavings", net.trace.0);
    check.count("connections_denied_by_limits", n_denied);
    check.count("connections_established", n_est);
    for (k, v) in max_seen {
        check.distinct(&format!("levels_seen_{k}"), v as u64);
    }
    if check.want_sample() && n_denied > 0 && n_est > 2 {
        check.sample(json!({"nodes": n, "node0_limits": format!("{:?}", lims[0]), "node0_bypass": bypass[0].len(), "node0_events": log[0].iter().take(30).collect::<Vec<_>>()}));
    }
}

// ------------------------------------------------------------------------------------------- C53

trait ListNode: NetworkBehaviour {
    fn make(probe: Probe) -> Self;
    /// returns true if the call changed the list
    fn restrict(&mut self, p: PeerId) -> bool;
    fn permit(&mut self, p: PeerId) -> bool;
    /// are peers restricted unless permitted?
    const DEFAULT_RESTRICTED: bool;
}
impl ListNode for Blocking {
    fn make(probe: Probe) -> Self {
        Blocking { list: Default::default(), probe }
    }
    fn restrict(&mut self, p: PeerId) -> bool {
        self.list.block_peer(p)
    }
    fn permit(&mut self, p: PeerId) -> bool {
        self.list.unblock_peer(p)
    }
    const DEFAULT_RESTRICTED: bool = false;
}
impl ListNode for Allowing {
    fn make(probe: Probe) -> Self {
        Allowing { list: Default::default(), probe }
    }
    fn restrict(&mut self, p: PeerId) -> bool {
        self.list.disallow_peer(p)
    }
    fn permit(&mut self, p: PeerId) -> bool {
        self.list.allow_peer(p)
    }
    const DEFAULT_RESTRICTED: bool = true;
}

fn c53_case<B: ListNode>(check: &Check, rng: &mut Rng, kind: &'static str) {
    let n = 3 + rng.usize(2);
    let mut net: Net<B> = Net::new(rng.next_u64(), rng.chance(1, 4));
    let keys: Vec<_> = (0..n).map(|_| vnet::keypair(rng.next_u64())).collect();
    let peers: Vec<PeerId> = keys.iter().map(|k| k.public().to_peer_id()).collect();
    for i in 0..n {
        let (probe, _) = Probe::new(i as u8);
        net.add_node(keys[i].clone(), move |_, _| B::make(probe), |c| c.with_idle_connection_timeout(std::time::Duration::from_secs(3600)));
        net.swarm(i).listen_on(mem(100 + i as u64)).unwrap();
    }
    // restricted[i] = peers currently restricted at node i
    let mut restricted: Vec<HashSet<PeerId>> = vec![HashSet::new(); n];
    if B::DEFAULT_RESTRICTED {
        for i in 0..n {
            restricted[i] = peers.iter().copied().collect();
            // allow a random subset up front
            for j in 0..n {
                if j != i && rng.chance(2, 3) {
                    net.swarm(i).behaviour_mut().permit(peers[j]);
                    restricted[i].remove(&peers[j]);
                }
            }
            net.touch(i);
        }
    }
    let mut est: Vec<HashMap<ConnectionId, PeerId>> = vec![HashMap::new(); n];
    let mut must_close: Vec<HashSet<ConnectionId>> = vec![HashSet::new(); n];
    let mut bad: Vec<(String, String)> = vec![];
    let mut log: Vec<Vec<String>> = vec![vec![]; n];
    let (mut n_est, mut n_denied, mut n_restrict_with_conns) = (0u64, 0u64, 0u64);
    macro_rules! sink {
        () => {
            &mut |_: &mut Net<B>, i: usize, ev: SwarmEvent<B::ToSwarm>| match ev {
                SwarmEvent::ConnectionEstablished { connection_id, peer_id, .. } => {
                    n_est += 1;
                    log[i].push(format!("Est({connection_id},{peer_id})"));
                    if restricted[i].contains(&peer_id) {
                        bad.push((format!("established-with-restricted-peer:{kind}"), format!("node {i}: connection {connection_id} with {peer_id} established while the peer is {}", if B::DEFAULT_RESTRICTED { "not allowed" } else { "blocked" })));
                    }
                    est[i].insert(connection_id, peer_id);
                }
                SwarmEvent::ConnectionClosed { connection_id, .. } => {
                    log[i].push(format!("Closed({connection_id})"));
                    est[i].remove(&connection_id);
                    must_close[i].remove(&connection_id);
                }
                SwarmEvent::OutgoingConnectionError { connection_id, error, .. } => {
                    if matches!(error, libp2p_swarm::DialError::Denied { .. }) {
                        n_denied += 1;
                    }
                    log[i].push(format!("OutErr({connection_id},{})", vnet::dial_error_kind(&error)));
                }
                SwarmEvent::IncomingConnectionError { connection_id, error, .. } => {
                    if matches!(error, libp2p_swarm::ListenError::Denied { .. }) {
                        n_denied += 1;
                    }
                    log[i].push(format!("InErr({connection_id},{})", vnet::listen_error_kind(&error)));
                }
                _ => {}
            }
        };
    }
    net.run(10_000, sink!());
    let mut sig = Sig::new().str(kind);
    let ops = rng.range(15, 60);
    for _ in 0..ops {
        let i = rng.usize(n);
        let j = (i + 1 + rng.usize(n - 1)) % n;
        let op = rng.weighted(&[20, 10, 8, 3, 30]);
        sig.push_u64(op as u64);
        match op {
            0 => {
                let o = if rng.bool() { DialOpts::peer_id(peers[j]).addresses(vec![mem(100 + j as u64)]).condition(PeerCondition::Always).build() } else { DialOpts::unknown_peer_id().address(mem(100 + j as u64)).build() };
                if let Err(e) = net.swarm(i).dial(o)
                    && matches!(e, libp2p_swarm::DialError::Denied { .. })
                {
                    n_denied += 1;
                }
                net.touch(i);
            }
            1 => {
                let changed = net.swarm(i).behaviour_mut().restrict(peers[j]);
                net.touch(i);
                log[i].push(format!("restrict({}) -> {changed}", peers[j]));
                restricted[i].insert(peers[j]);
                if changed {
                    let existing: Vec<ConnectionId> = est[i].iter().filter(|(_, p)| **p == peers[j]).map(|(c, _)| *c).collect();
                    if !existing.is_empty() {
                        n_restrict_with_conns += 1;
                    }
                    must_close[i].extend(existing);
                }
            }
            2 => {
                let changed = net.swarm(i).behaviour_mut().permit(peers[j]);
                net.touch(i);
                log[i].push(format!("permit({}) -> {changed}", peers[j]));
                restricted[i].remove(&peers[j]);
            }
            3 => {
                let _ = net.swarm(i).disconnect_peer_id(peers[j]);
                net.touch(i);
            }
            _ => {
                net.run(rng.range(1, 40), sink!());
            }
        }
    }
    let q = net.run(400_000, sink!());
    if !q {
        check.inconclusive("not quiescent");
    } else {
        for i in 0..n {
            if !must_close[i].is_empty() {
                bad.push((format!("restricted-peer-connection-not-closed:{kind}"), format!("node {i}: connections {:?} existed when their peer became restricted and are still open at the quiescent end", must_close[i])));
            }
        }
    }
    for (s, w) in bad {
        check.violation(s, w, json!({"kind": kind, "logs": log}));
    }
    check.case(sig.0, n_denied > 0 && n_est > 0 && n_restrict_with_conns > 0);
    check.distinct("distinct_interleavings", net.trace.0);
    check.count("connections_denied_by_list", n_denied);
    check.count("connections_established", n_est);
    check.count("restrictions_with_live_connections", n_restrict_with_conns);
    if check.want_sample() && n_restrict_with_conns > 0 {
        check.sample(json!({"kind": kind, "node0": log[0].iter().take(25).collect::<Vec<_>>()}));
    }
}

pub fn run_c52(args: &Args) -> i32 {
    let check = Check::new(
        args,
        "exploration",
        "PRNG histories over 3-5 swarms with random small limits (None/0..3 for each of six limits) and bypass lists; dials (good/refused/cut/manual), \
         closes, disconnects; counts judged after every event; non-trivial = history with >= 1 connection denied by a limit and >= 1 established; \
         distinct by op sequence",
    );
    let cases = args.tier.pick(2_500u64, 200_000);
    vmon::par_cases_timed(&check, cases, args.threads, args.tier.pick(30.0, 400.0), |_, rng| c52_case(&check, rng));
    check.finish()
}

pub fn run_c53(args: &Args) -> i32 {
    let check = Check::new(
        args,
        "exploration",
        "PRNG histories over 3-4 swarms with block lists (even cases) or allow lists (odd cases): dials in both directions interleaved with \
         block/unblock (disallow/allow) calls and disconnects; non-trivial = history with a denial, an established connection and a restriction \
         applied while connections to that peer were open; distinct by op sequence",
    );
    let cases = args.tier.pick(2_500u64, 200_000);
    vmon::par_cases_timed(&check, cases, args.threads, args.tier.pick(30.0, 400.0), |i, rng| {
        if i % 2 == 0 { c53_case::<Blocking>(&check, rng, "block-list") } else { c53_case::<Allowing>(&check, rng, "allow-list") }
    });
    check.finish()
}
