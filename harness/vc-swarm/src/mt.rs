//! Multi-threaded stress mode for C01/C02 (DESIGN W2 "second mode"): the same lifecycle / view
//! oracles, but every swarm is polled by its own OS thread and all connection tasks run on a real
//! `futures::executor::ThreadPool`, so swarm polling, pending-connection tasks and connection tasks
//! genuinely run in parallel (real preemption instead of PRNG-chosen task order). This is also the
//! workload of the ASan pass.
//!
//! Quiescence is established logically: at the end every node disconnects everything and keeps polling
//! until (a) all nodes report no established and no pending connection and (b) no event has been seen for
//! a grace period; if that does not happen within the watchdog the case is inconclusive.
use std::{
    collections::{HashMap, HashSet},
    pin::Pin,
    sync::{
        Arc, Barrier, Mutex,
        atomic::{AtomicBool, AtomicU64, Ordering},
    },
    task::{Context, Poll},
    time::{Duration, Instant},
};

use futures::{Stream, executor::ThreadPool};
use libp2p_core::{Multiaddr, multiaddr::Protocol};
use libp2p_identity::PeerId;
use libp2p_swarm::{
    Config, ConnectionId, Swarm, SwarmEvent,
    dial_opts::{DialOpts, PeerCondition},
};
use vmon::{Check, Rng, Sig, Value, exec::flag_waker, json};
use vnet::{BEv, Board, Point, Probe, ProbeEvent, Recorder, Route, dial_error_kind, transport::build_transport};

use crate::lifecycle::{Mon, SEv, check_c01};

type B = Recorder<Probe>;

fn mem(n: u64) -> Multiaddr {
    Multiaddr::empty().with(Protocol::Memory(n))
}

pub struct MtOut {
    pub c01: Vec<(String, String, Value)>,
    pub c02: Vec<(String, String, Value)>,
    pub events: u64,
    pub established: u64,
    pub sig: u64,
    pub conclusive: bool,
}

pub fn run_case(rng: &mut Rng, pool: &ThreadPool) -> MtOut {
    let n = 3 + rng.usize(2);
    let board = Board::new(rng.next_u64(), rng.chance(1, 3));
    let keys: Vec<_> = (0..n).map(|_| vnet::keypair(rng.next_u64())).collect();
    let peers: Vec<PeerId> = keys.iter().map(|k| k.public().to_peer_id()).collect();
    board.set_route(&mem(9002), Route::Unsupported);
    let barrier = Arc::new(Barrier::new(n));
    let last_event = Arc::new(AtomicU64::new(0));
    let t0 = Instant::now();
    let idle_nodes = Arc::new(Mutex::new(HashSet::<usize>::new()));
    let give_up = Arc::new(AtomicBool::new(false));
    let results: Arc<Mutex<Vec<Option<(Mon, Vec<BEv>, Vec<SEv>)>>>> = Arc::new(Mutex::new((0..n).map(|_| None).collect()));
    let seeds: Vec<u64> = (0..n).map(|_| rng.next_u64()).collect();
    let ops = rng.range(15, 40);
    std::thread::scope(|s| {
        for (i, key) in keys.into_iter().enumerate() {
            let (barrier, last_event, idle_nodes, give_up, results, peers) = (barrier.clone(), last_event.clone(), idle_nodes.clone(), give_up.clone(), results.clone(), peers.clone());
            let seed = seeds[i];
            let (board, pool) = (board.clone(), pool.clone());
            s.spawn(move || {
                // the swarm is built inside its thread (Recorder hooks are not Send)
                let (probe, _ctl) = Probe::new(i as u8);
                let transport = build_transport(i, &board, &key);
                let cfg = Config::with_executor(pool).with_idle_connection_timeout(Duration::from_secs(3600));
                let mut sw: Swarm<B> = Swarm::new(transport, Recorder::new(probe), peers[i], cfg);
                sw.listen_on(mem(100 + i as u64)).unwrap();
                let mut rng = Rng::new(seed);
                // Mon indexes by node; give it n slots and use slot i
                let mut mon = Mon::new(peers.len());
                let (flag, waker) = flag_waker();
                let mut poll_some = |sw: &mut Swarm<B>, mon: &mut Mon, budget: usize, wait: Duration| {
                    let mut cx = Context::from_waker(&waker);
                    for _ in 0..budget {
                        flag.take();
                        match Pin::new(&mut *sw).poll_next(&mut cx) {
                            Poll::Ready(Some(ev)) => {
                                last_event.store(t0.elapsed().as_millis() as u64, Ordering::SeqCst);
                                mon.on_event_swarm(sw, &peers, i, ev);
                            }
                            _ => {
                                if !flag.wait(wait) {
                                    return;
                                }
                            }
                        }
                    }
                };
                barrier.wait();
                for _ in 0..ops {
                    let j = (i + 1 + rng.usize(peers.len() - 1)) % peers.len();
                    match rng.weighted(&[10, 8, 3, 3, 4, 4, 4, 20]) {
                        0 | 1 => {
                            let with_peer = rng.bool();
                            let o = if with_peer { DialOpts::peer_id(peers[j]).addresses(vec![mem(100 + j as u64)]).condition(PeerCondition::Always).build() } else { DialOpts::unknown_peer_id().address(mem(100 + j as u64)).build() };
                            let id = o.connection_id();
                            match sw.dial(o) {
                                Ok(()) => {
                                    mon.dial_ok[i].insert(id);
                                    mon.refs[i].pending_out.insert(id);
                                }
                                Err(e) => {
                                    mon.dial_err[i].insert(id, dial_error_kind(&e));
                                }
                            }
                            mon.compare_views_swarm(&sw, &peers, i, "after dial()");
                        }
                        2 => {
                            // wrong peer id
                            let k = (j + 1) % peers.len();
                            let o = DialOpts::peer_id(peers[k]).addresses(vec![mem(100 + j as u64)]).condition(PeerCondition::Always).build();
                            let id = o.connection_id();
                            if k != j && k != i {
                                match sw.dial(o) {
                                    Ok(()) => {
                                        mon.dial_ok[i].insert(id);
                                        mon.refs[i].pending_out.insert(id);
                                    }
                                    Err(e) => {
                                        mon.dial_err[i].insert(id, dial_error_kind(&e));
                                    }
                                }
                            }
                        }
                        3 => {
                            let o = DialOpts::unknown_peer_id().address(mem(if rng.bool() { 9001 } else { 9002 })).build();
                            let id = o.connection_id();
                            match sw.dial(o) {
                                Ok(()) => {
                                    mon.dial_ok[i].insert(id);
                                    mon.refs[i].pending_out.insert(id);
                                }
                                Err(e) => {
                                    mon.dial_err[i].insert(id, dial_error_kind(&e));
                                }
                            }
                        }
                        4 => {
                            let v: Vec<ConnectionId> = mon.refs[i].est.values().flatten().copied().collect();
                            if !v.is_empty() {
                                sw.close_connection(v[rng.usize(v.len())]);
                            }
                        }
                        5 => {
                            let _ = sw.disconnect_peer_id(peers[j]);
                            mon.compare_views_swarm(&sw, &peers, i, "after disconnect_peer_id");
                        }
                        6 => {
                            let mut r = Rng::new(rng.next_u64());
                            let pt = *rng.pick(&[Point::PendingInbound, Point::PendingOutbound, Point::EstablishedInbound, Point::EstablishedOutbound]);
                            let f: Option<vnet::recorder::DenyFn> = if rng.bool() { None } else { Some(Box::new(move |d| d.point == pt && r.chance(1, 2))) };
                            sw.behaviour().set_deny(f);
                        }
                        _ => {}
                    }
                    poll_some(&mut sw, &mut mon, 1 + rng.usize(30), Duration::from_micros(rng.range(0, 300)));
                }
                // wind down: no more denials, close everything, poll until globally idle
                sw.behaviour().set_deny(None);
                barrier.wait();
                let deadline = Instant::now() + Duration::from_secs(20);
                loop {
                    let connected: Vec<PeerId> = sw.connected_peers().copied().collect();
                    for p in connected {
                        let _ = sw.disconnect_peer_id(p);
                    }
                    poll_some(&mut sw, &mut mon, 200, Duration::from_millis(5));
                    let info = sw.network_info();
                    let quiet = info.connection_counters().num_connections() == 0;
                    {
                        let mut g = idle_nodes.lock().unwrap();
                        if quiet { g.insert(i) } else { g.remove(&i) };
                    }
                    let all_idle = idle_nodes.lock().unwrap().len() == peers.len();
                    let since = (t0.elapsed().as_millis() as u64).saturating_sub(last_event.load(Ordering::SeqCst));
                    if all_idle && since > 150 {
                        break;
                    }
                    if Instant::now() > deadline {
                        give_up.store(true, Ordering::SeqCst);
                    }
                    if give_up.load(Ordering::SeqCst) {
                        break;
                    }
                }
                barrier.wait();
                // final drain (events that were queued while others finished)
                poll_some(&mut sw, &mut mon, 50, Duration::from_millis(20));
                let bev = sw.behaviour().log.lock().unwrap().clone();
                let sev = mon.sev[i].clone();
                results.lock().unwrap()[i] = Some((mon, bev, sev));
                // keep the swarm alive until everyone has collected (dropping closes listeners)
                barrier.wait();
            });
        }
    });
    let conclusive = !give_up.load(Ordering::SeqCst);
    let mut out = MtOut { c01: vec![], c02: vec![], events: 0, established: 0, sig: 0, conclusive };
    let mut sig = Sig::new();
    let res = std::mem::take(&mut *results.lock().unwrap());
    for (i, r) in res.into_iter().enumerate() {
        let Some((mut mon, bev, sev)) = r else { continue };
        out.events += sev.len() as u64;
        for e in &sev {
            match e {
                SEv::Est { .. } => {
                    out.established += 1;
                    sig.push_u64(1)
                }
                SEv::Closed { .. } => sig.push_u64(2),
                SEv::OutErr { kind, .. } | SEv::InErr { kind, .. } => sig.push_str(kind),
                _ => sig.push_u64(3),
            }
        }
        for (k, what) in check_c01(i, &sev, &bev, &mon.dial_ok[i], &mon.dial_err[i], conclusive) {
            out.c01.push((format!("mt:{k}"), what, json!({"mode": "multi-threaded", "node": i, "swarm_events": sev.iter().map(|e| format!("{e:?}").chars().take(90).collect::<String>()).collect::<Vec<_>>()})));
        }
        for (k, w, v) in std::mem::take(&mut mon.c02) {
            out.c02.push((format!("mt:{k}"), w, v));
        }
    }
    out.sig = sig.0;
    let _ = HashMap::<u8, u8>::new();
    out
}

/// run `cases` multi-threaded histories, `parallel` at a time; feeds `check` for property `which`
pub fn run_into(check: &Check, which: &str, cases: u64, parallel: usize) {
    let pool = ThreadPool::builder().pool_size(6).create().expect("thread pool");
    vmon::par_cases(check, cases, parallel, |_, rng| {
        let o = run_case(rng, &pool);
        check.case(o.sig ^ 0x4d54, o.established > 0);
        check.count("mt_histories", 1);
        check.count("mt_events_observed", o.events);
        if !o.conclusive {
            check.inconclusive("multi-threaded history did not become idle within the watchdog");
        }
        for (s, w, v) in if which == "C01" { &o.c01 } else { &o.c02 } {
            check.violation(s.clone(), w.clone(), v.clone());
        }
    });
}
