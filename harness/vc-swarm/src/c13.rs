//! C13 — observed-address translation only swaps the host component.
//! Oracle (independent, from the statement): result = original with component 0 replaced by
//! observed's component 0 iff both heads are ip4/ip6/dns/dns4/dns6; else None. Everything after
//! component 0 byte-identical. Exhaustive over all ordered pairs of a multiaddr alphabet.
use libp2p_core::{Multiaddr, multiaddr::Protocol};
use libp2p_swarm::_address_translation;
use vmon::{Args, Check, Sig, catch, json};

fn heads() -> Vec<&'static str> {
    vec![
        "/ip4/192.0.2.1", "/ip4/10.0.0.7", "/ip4/0.0.0.0", "/ip4/255.255.255.255",
        "/ip6/2001:db8::1", "/ip6/::1", "/ip6/fe80::1234",
        "/dns/example.com", "/dns4/a.example", "/dns6/b.example", "/dns/localhost",
        "/dnsaddr/bootstrap.libp2p.io", "/memory/42", "/unix/tmp%2Fsock", "/tcp/99", "/udp/5",
        "/p2p/12D3KooWDpJ7As7BWAwRMfu1VU2WCqNjvq387JEYKDBj4kx6nXTN", "/p2p-circuit", "/quic-v1",
    ]
}
fn tails() -> Vec<&'static str> {
    vec![
        "", "/tcp/1", "/tcp/65535", "/udp/1/quic-v1", "/udp/4001/quic", "/tcp/443/tls/ws",
        "/tcp/4001/p2p/12D3KooWDpJ7As7BWAwRMfu1VU2WCqNjvq387JEYKDBj4kx6nXTN",
        "/udp/9/quic-v1/p2p/12D3KooWDpJ7As7BWAwRMfu1VU2WCqNjvq387JEYKDBj4kx6nXTN/p2p-circuit",
        "/ip4/1.2.3.4/tcp/7", "/dns/inner.example/tcp/8",
    ]
}

fn is_host(p: &Protocol<'_>) -> bool {
    matches!(p, Protocol::Ip4(_) | Protocol::Ip6(_) | Protocol::Dns(_) | Protocol::Dns4(_) | Protocol::Dns6(_))
}

/// reference: built component-wise, never calling `Multiaddr::replace`
fn reference(original: &Multiaddr, observed: &Multiaddr) -> Option<Multiaddr> {
    let mut it = original.iter();
    let h = it.next()?;
    let o = observed.iter().next()?;
    if !is_host(&h) || !is_host(&o) {
        return None;
    }
    let mut out = Multiaddr::empty();
    out.push(o);
    for p in it {
        out.push(p);
    }
    Some(out)
}

pub fn run(args: &Args) -> i32 {
    let check = Check::new(
        args,
        "exploration",
        "all ordered pairs (original, observed) over alphabet heads x tails plus the empty address; \
         non-trivial = pair for which translation returns Some; distinct by (original, observed) text",
    );
    let tiny = args.extra.get("budget").map(|s| s == "tiny").unwrap_or(false);
    let mut addrs: Vec<Multiaddr> = vec![Multiaddr::empty()];
    for h in heads().into_iter().take(if tiny { 9 } else { usize::MAX }).step_by(if tiny { 2 } else { 1 }) {
        for t in tails().into_iter().take(if tiny { 3 } else { usize::MAX }) {
            addrs.push(format!("{h}{t}").parse().expect("alphabet parses"));
        }
    }
    let mut some = 0u64;
    let mut none = 0u64;
    for a in &addrs {
        for b in &addrs {
            let sig = Sig::new().bytes(a.as_ref()).u64(0).bytes(b.as_ref()).0;
            let got = catch(|| _address_translation(a, b));
            let want = reference(a, b);
            match got {
                Err(p) => check.violation(format!("panic@{}", p.site()), format!("panic: {}", p.msg), json!({"original": a.to_string(), "observed": b.to_string()})),
                Ok(got) => {
                    if got != want {
                        let kind = match (&got, &want) {
                            (Some(_), None) => "translated-non-host",
                            (None, Some(_)) => "refused-host-pair",
                            _ => "wrong-result",
                        };
                        check.violation(
                            kind,
                            format!("translate({a}, {b}) = {:?}, reference {:?}", got.as_ref().map(|m| m.to_string()), want.as_ref().map(|m| m.to_string())),
                            json!({"original": a.to_string(), "observed": b.to_string()}),
                        );
                    }
                    if got.is_some() { some += 1 } else { none += 1 }
                    check.case(sig, got.is_some());
                    if got.is_some() && some % 9000 == 1 {
                        check.sample(json!({"original": a.to_string(), "observed": b.to_string(), "translated": got.map(|m| m.to_string())}));
                    }
                }
            }
        }
    }
    check.count("pairs_translated", some);
    check.count("pairs_refused", none);
    check.note("alphabet_size", json!(addrs.len()));
    check.note("exhaustive", json!(!tiny));
    check.finish()
}
