//! C12 — listen and external address views equal the fold of their events.
//!
//! (a) Swarm level: a real swarm over SimTransport whose listeners emit scripted events (NewAddress incl.
//! repeats, AddressExpired for present/absent addresses, ListenerError, ListenerClosed ok/err), plus
//! `remove_listener`, new `listen_on`, `add/remove_external_address` and behaviour-emitted
//! ExternalAddrConfirmed/Expired. Reference model: listener -> set of addresses; after every SwarmEvent
//! `listeners()` == union of the model, `ListenerClosed.addresses` == model[listener], the behaviour saw
//! ExpiredListenAddr for each of them before ListenerClosed; `external_addresses()` == confirmed - expired.
//! (b) Helpers fed directly with generated FromSwarm sequences: `ListenAddresses` (set == fold, changed ==
//! set differs), `ExternalAddresses` (sequence == most-recent-first fold truncated to the documented 20,
//! changed == set differs), `PeerAddresses` (contents ⊆ fold, per peer <= 10, peers <= capacity, equality
//! whenever no eviction can have happened, changed == contents differ as seen through `get`).
//! Not judged: which entry an LRU eviction picks.
use std::{
    collections::{BTreeMap, BTreeSet, HashMap},
    io,
    num::NonZeroUsize,
};

use libp2p_core::{Multiaddr, multiaddr::Protocol, transport::{ListenerId, TransportError}};
use libp2p_identity::PeerId;
use libp2p_swarm::{
    ConnectionId, DialError, DialFailure, ExpiredListenAddr, ExternalAddrExpired, ExternalAddresses, FromSwarm, ListenAddresses,
    NewExternalAddrOfPeer, NewListenAddr, PeerAddresses, SwarmEvent, ToSwarm, behaviour::ExternalAddrConfirmed,
};
use vmon::{Args, Check, Rng, Sig, catch, json};
use vnet::{BEv, Net, Probe, ProbeEvent};

fn mem(n: u64) -> Multiaddr {
    Multiaddr::empty().with(Protocol::Memory(n))
}

fn swarm_level(check: &Check, rng: &mut Rng) {
    let mut net: Net<Probe> = Net::new(rng.next_u64(), false);
    let (p, ctl) = Probe::new(0);
    net.add_node(vnet::keypair(rng.next_u64()), move |_, _| p, |c| c);
    let mut model: HashMap<ListenerId, BTreeSet<Multiaddr>> = HashMap::new();
    let mut live: Vec<ListenerId> = vec![];
    let mut ext: BTreeSet<Multiaddr> = BTreeSet::new();
    let mut next_addr = 100u64;
    let mut history: Vec<String> = vec![];
    let mut sig = Sig::new();
    let mut bad: Vec<(String, String)> = vec![];
    let (mut n_events, mut n_closed) = (0u64, 0u64);
    let ops = rng.range(10, 40);
    for _ in 0..ops {
        let op = rng.weighted(&[8, 10, 8, 3, 5, 4, 6, 6, 4]);
        sig.push_u64(op as u64);
        match op {
            0 => {
                next_addr += 1;
                let a = mem(next_addr);
                if let Ok(id) = net.swarm(0).listen_on(a.clone()) {
                    live.push(id);
                    history.push(format!("listen_on({a}) -> {id:?}"));
                }
            }
            1 if !live.is_empty() => {
                let id = live[rng.usize(live.len())];
                // new address, or a repeat of one already announced
                let known: Vec<Multiaddr> = model.get(&id).map(|s| s.iter().cloned().collect()).unwrap_or_default();
                let a = if !known.is_empty() && rng.chance(1, 3) { known[rng.usize(known.len())].clone() } else { mem(5000 + rng.below(6)) };
                history.push(format!("transport: NewAddress({id:?}, {a})"));
                net.board.push_new_address(0, id, a);
            }
            2 if !live.is_empty() => {
                let id = live[rng.usize(live.len())];
                let known: Vec<Multiaddr> = model.get(&id).map(|s| s.iter().cloned().collect()).unwrap_or_default();
                let a = if !known.is_empty() && rng.chance(2, 3) { known[rng.usize(known.len())].clone() } else { mem(5000 + rng.below(6)) };
                history.push(format!("transport: AddressExpired({id:?}, {a})"));
                net.board.push_address_expired(0, id, a);
            }
            3 if !live.is_empty() => {
                let id = live[rng.usize(live.len())];
                history.push(format!("transport: ListenerError({id:?})"));
                net.board.push_listener_error(0, id, "scripted");
            }
            4 if !live.is_empty() => {
                let k = rng.usize(live.len());
                let id = live.remove(k);
                if rng.bool() {
                    history.push(format!("remove_listener({id:?})"));
                    net.swarm(0).remove_listener(id);
                } else {
                    let err = rng.bool();
                    history.push(format!("transport: ListenerClosed({id:?}, err={err})"));
                    net.board.push_listener_closed(0, id, if err { Some("boom") } else { None });
                }
            }
            5 => {
                let a = mem(7000 + rng.below(5));
                history.push(format!("add_external_address({a})"));
                net.swarm(0).add_external_address(a.clone());
                ext.insert(a);
            }
            6 => {
                let a = mem(7000 + rng.below(5));
                history.push(format!("remove_external_address({a})"));
                net.swarm(0).remove_external_address(&a);
                ext.remove(&a);
            }
            7 => {
                let a = mem(7000 + rng.below(5));
                history.push(format!("behaviour: ExternalAddrConfirmed({a})"));
                ctl.push(ToSwarm::ExternalAddrConfirmed(a));
            }
            8 => {
                let a = mem(7000 + rng.below(5));
                history.push(format!("behaviour: ExternalAddrExpired({a})"));
                ctl.push(ToSwarm::ExternalAddrExpired(a));
            }
            _ => {}
        }
        net.touch(0);
        // process events one at a time, comparing after each
        loop {
            let Some(ev) = net.poll_swarm(0) else { break };
            n_events += 1;
            match ev {
                SwarmEvent::NewListenAddr { listener_id, address } => {
                    model.entry(listener_id).or_default().insert(address);
                }
                SwarmEvent::ExpiredListenAddr { listener_id, address } => {
                    if let Some(s) = model.get_mut(&listener_id) {
                        s.remove(&address);
                    }
                }
                SwarmEvent::ListenerClosed { listener_id, addresses, .. } => {
                    n_closed += 1;
                    let want = model.remove(&listener_id).unwrap_or_default();
                    let got: BTreeSet<Multiaddr> = addresses.iter().cloned().collect();
                    if got != want || got.len() != addresses.len() {
                        bad.push(("listener-closed-addresses-mismatch".into(), format!("ListenerClosed({listener_id:?}) carried {addresses:?}, model has {want:?}")));
                    }
                    // behaviour: ExpiredListenAddr for each remaining address, before ListenerClosed
                    let log = ctl.log();
                    let pos_closed = log.iter().rposition(|e| matches!(e, BEv::ListenerClosed(l, _) if *l == listener_id));
                    for a in &want {
                        let pos_exp = log.iter().rposition(|e| matches!(e, BEv::ExpiredListenAddr(l, x) if *l == listener_id && x == a));
                        match (pos_exp, pos_closed) {
                            (Some(e), Some(c)) if e < c => {}
                            _ => bad.push(("listener-closed-missing-expired-for-behaviour".into(), format!("behaviour did not see ExpiredListenAddr({a}) before ListenerClosed({listener_id:?})"))),
                        }
                    }
                }
                SwarmEvent::ExternalAddrConfirmed { address } => {
                    ext.insert(address);
                }
                SwarmEvent::ExternalAddrExpired { address } => {
                    ext.remove(&address);
                }
                _ => {}
            }
            let got: BTreeSet<Multiaddr> = net.swarm(0).listeners().cloned().collect();
            let count = net.swarm(0).listeners().count();
            let want: BTreeSet<Multiaddr> = model.values().flatten().cloned().collect();
            let want_count: usize = model.values().map(|s| s.len()).sum();
            if got != want || count != want_count {
                bad.push(("listeners-view-mismatch".into(), format!("listeners() = {got:?} ({count} entries), fold of events = {want:?} ({want_count})")));
            }
            let gext: BTreeSet<Multiaddr> = net.swarm(0).external_addresses().cloned().collect();
            if gext != ext {
                bad.push(("external-addresses-view-mismatch".into(), format!("external_addresses() = {gext:?}, confirmed - expired = {ext:?}")));
            }
            if !bad.is_empty() {
                break;
            }
        }
        // synchronous calls are visible immediately
        let gext: BTreeSet<Multiaddr> = net.swarm(0).external_addresses().cloned().collect();
        if gext != ext && bad.is_empty() {
            // behaviour-emitted confirmations are applied when polled; the loop above drained them, so any difference is real
            bad.push(("external-addresses-view-mismatch".into(), format!("external_addresses() = {gext:?}, confirmed - expired = {ext:?}")));
        }
        if !bad.is_empty() {
            break;
        }
    }
    for (s, w) in bad {
        check.violation(s, w, json!({"part": "swarm", "history": history}));
    }
    check.case(sig.0, n_closed > 0 && n_events >= 8);
    check.count("swarm_listener_events_observed", n_events);
    check.count("swarm_listeners_closed", n_closed);
    if check.want_sample() && n_closed > 0 {
        check.sample(json!({"part": "swarm", "history": history.iter().take(25).collect::<Vec<_>>()}));
    }
}

fn helpers(check: &Check, rng: &mut Rng) {
    // ---- ListenAddresses + ExternalAddresses
    let mut la = ListenAddresses::default();
    let mut ea = ExternalAddresses::default();
    let mut la_ref: BTreeSet<Multiaddr> = BTreeSet::new();
    let mut ea_ref: Vec<Multiaddr> = vec![];
    let id = ListenerId::next();
    let universe = if rng.bool() { rng.range(3, 12) } else { rng.range(22, 45) };
    let mut hist: Vec<String> = vec![];
    let mut sig = Sig::new().u64(universe);
    let steps = rng.range(10, 160);
    for _ in 0..steps {
        let a = mem(rng.below(universe));
        let k = rng.weighted(&[2, 2, 5, 1]);
        sig.push_u64(k as u64);
        hist.push(format!("{}({a})", ["NewListenAddr", "ExpiredListenAddr", "ExternalAddrConfirmed", "ExternalAddrExpired"][k]));
        match k {
            0 | 1 => {
                let before = la_ref.clone();
                let ev = if k == 0 { FromSwarm::NewListenAddr(NewListenAddr { listener_id: id, addr: &a }) } else { FromSwarm::ExpiredListenAddr(ExpiredListenAddr { listener_id: id, addr: &a }) };
                let changed = la.on_swarm_event(&ev);
                let changed_ext = ea.on_swarm_event(&ev);
                if k == 0 { la_ref.insert(a.clone()); } else { la_ref.remove(&a); }
                let got: BTreeSet<Multiaddr> = la.iter().cloned().collect();
                if got != la_ref {
                    check.violation("listen-addresses-not-fold", format!("ListenAddresses = {got:?}, fold = {la_ref:?}"), json!({"part": "helpers", "history": hist}));
                }
                if changed != (before != la_ref) {
                    check.violation("listen-addresses-changed-flag", format!("changed = {changed} but contents {}", if before != la_ref { "changed" } else { "did not change" }), json!({"part": "helpers", "history": hist}));
                }
                if changed_ext {
                    check.violation("external-addresses-changed-on-foreign-event", "ExternalAddresses reported a change for a listen-address event".to_string(), json!({"part": "helpers", "history": hist}));
                }
            }
            _ => {
                let before: BTreeSet<Multiaddr> = ea_ref.iter().cloned().collect();
                let ev = if k == 2 { FromSwarm::ExternalAddrConfirmed(ExternalAddrConfirmed { addr: &a }) } else { FromSwarm::ExternalAddrExpired(ExternalAddrExpired { addr: &a }) };
                let changed = ea.on_swarm_event(&ev);
                ea_ref.retain(|x| *x != a);
                if k == 2 {
                    ea_ref.insert(0, a.clone());
                    ea_ref.truncate(20);
                }
                let after: BTreeSet<Multiaddr> = ea_ref.iter().cloned().collect();
                let got: Vec<Multiaddr> = ea.iter().cloned().collect();
                if got != ea_ref || ea.as_slice() != ea_ref.as_slice() {
                    check.violation(
                        if got.len() > 20 { "external-addresses-over-capacity" } else { "external-addresses-not-fold" },
                        format!("ExternalAddresses = {got:?}, most-recent-first fold = {ea_ref:?}"),
                        json!({"part": "helpers", "history": hist}),
                    );
                }
                if changed != (before != after) {
                    check.violation("external-addresses-changed-flag", format!("changed = {changed} but set {}", if before != after { "changed" } else { "did not change" }), json!({"part": "helpers", "history": hist}));
                }
            }
        }
    }
    check.case(sig.0, true);

    // ---- PeerAddresses
    let cap = 1 + rng.usize(4);
    let mut pa = PeerAddresses::new(NonZeroUsize::new(cap).unwrap());
    let n_peers = 1 + rng.usize(6);
    let peers: Vec<PeerId> = (0..n_peers).map(|i| vnet::keypair(1000 + i as u64).public().to_peer_id()).collect();
    let addr_universe = rng.range(2, 16);
    let mut fold: HashMap<PeerId, BTreeSet<Multiaddr>> = HashMap::new();
    let mut ever_peers: BTreeSet<PeerId> = BTreeSet::new();
    let mut ever_addrs: HashMap<PeerId, BTreeSet<Multiaddr>> = HashMap::new();
    let mut lru: HashMap<PeerId, Vec<Multiaddr>> = HashMap::new();
    let mut lru_checked = 0u64;
    let mut hist: Vec<String> = vec![];
    let mut sig = Sig::new().u64(cap as u64).u64(n_peers as u64).u64(addr_universe);
    let read = |pa: &mut PeerAddresses| -> BTreeMap<PeerId, BTreeSet<Multiaddr>> { peers.iter().map(|p| (*p, pa.get(p).collect::<BTreeSet<_>>())).filter(|(_, s)| !s.is_empty()).collect() };
    let steps = rng.range(10, 80);
    for _ in 0..steps {
        let p = peers[rng.usize(n_peers)];
        let raw = mem(rng.below(addr_universe));
        let full = raw.clone().with(Protocol::P2p(p));
        let before = read(&mut pa);
        let k = rng.usize(5);
        sig.push_u64(k as u64);
        let changed: bool;
        let wit = |hist: &Vec<String>| json!({"part": "peer_addresses", "capacity": cap, "history": hist});
        match k {
            0 | 1 => {
                hist.push(format!("NewExternalAddrOfPeer({p}, {raw})"));
                let a = if rng.bool() { raw.clone() } else { full.clone() };
                changed = match catch(|| pa.on_swarm_event(&FromSwarm::NewExternalAddrOfPeer(NewExternalAddrOfPeer { peer_id: p, addr: &a }))) {
                    Ok(c) => c,
                    Err(pn) => {
                        check.violation(format!("panic@{}", pn.site()), pn.msg, wit(&hist));
                        return;
                    }
                };
                fold.entry(p).or_default().insert(full.clone());
                // reference for "the 10 most recently reported": re-reporting a known address makes it the most recent
                let l = lru.entry(p).or_default();
                l.retain(|x| *x != full);
                l.push(full.clone());
                if l.len() > 10 {
                    l.remove(0);
                }
                ever_peers.insert(p);
                ever_addrs.entry(p).or_default().insert(full.clone());
            }
            2 => {
                hist.push(format!("remove({p}, {raw})"));
                changed = pa.remove(&p, &raw);
                if let Some(s) = fold.get_mut(&p) {
                    s.remove(&full);
                }
                if let Some(l) = lru.get_mut(&p) {
                    l.retain(|x| *x != full);
                }
            }
            3 => {
                // dial failure listing 0..3 addresses, some never stored
                let n = rng.usize(4);
                let addrs: Vec<Multiaddr> = (0..n).map(|_| mem(rng.below(addr_universe + 2)).with(Protocol::P2p(p))).collect();
                hist.push(format!("DialFailure({p}, Transport{:?})", addrs.iter().map(|a| a.to_string()).collect::<Vec<_>>()));
                let err = DialError::Transport(addrs.iter().map(|a| (a.clone(), TransportError::Other(io::Error::other("x")))).collect());
                changed = pa.on_swarm_event(&FromSwarm::DialFailure(DialFailure { peer_id: Some(p), error: &err, connection_id: ConnectionId::new_unchecked(0) }));
                for a in &addrs {
                    if let Some(s) = fold.get_mut(&p) {
                        s.remove(a);
                    }
                    if let Some(l) = lru.get_mut(&p) {
                        l.retain(|x| x != a);
                    }
                }
            }
            _ => {
                // events that must not touch the cache
                hist.push("DialFailure(NoAddresses) / foreign event".into());
                let err = DialError::NoAddresses;
                let c1 = pa.on_swarm_event(&FromSwarm::DialFailure(DialFailure { peer_id: Some(p), error: &err, connection_id: ConnectionId::new_unchecked(0) }));
                let c2 = pa.on_swarm_event(&FromSwarm::ExternalAddrConfirmed(ExternalAddrConfirmed { addr: &raw }));
                changed = c1 || c2;
            }
        }
        let after = read(&mut pa);
        if changed != (before != after) {
            let kind = ["add", "add", "remove", "dialfailure", "foreign"][k];
            check.violation(
                format!("peer-addresses-changed-flag:{kind}:{}", if changed { "true-on-noop" } else { "false-on-change" }),
                format!("{} returned changed = {changed} but the contents seen through get() {}", hist.last().unwrap(), if before != after { "changed" } else { "did not change" }),
                wit(&hist),
            );
        }
        // bounds and ⊆ fold
        if after.len() > cap {
            check.violation("peer-addresses-over-peer-capacity", format!("{} peers stored, capacity {cap}", after.len()), wit(&hist));
        }
        for (q, s) in &after {
            if s.len() > 10 {
                check.violation("peer-addresses-over-address-capacity", format!("{} addresses for one peer", s.len()), wit(&hist));
            }
            let f = fold.get(q).cloned().unwrap_or_default();
            if !s.is_subset(&f) {
                check.violation("peer-addresses-not-subset-of-fold", format!("stored {s:?} not within fold {f:?}"), wit(&hist));
            }
        }
        // per-peer capacity: as long as no peer can have been evicted, each peer holds exactly its 10 most recently
        // reported (and not since removed) addresses
        if ever_peers.len() <= cap {
            for (q, l) in &lru {
                let want: BTreeSet<Multiaddr> = l.iter().cloned().collect();
                let got = after.get(q).cloned().unwrap_or_default();
                if got != want {
                    lru_checked += 1;
                    check.violation("peer-addresses-not-the-most-recent", format!("stored for one peer: {got:?}; the 10 most recently reported are {want:?}"), wit(&hist));
                }
            }
            lru_checked += 1;
        }
        let no_eviction_possible = ever_peers.len() <= cap && ever_addrs.values().all(|s| s.len() <= 10);
        if no_eviction_possible {
            let want: BTreeMap<PeerId, BTreeSet<Multiaddr>> = fold.iter().filter(|(_, s)| !s.is_empty()).map(|(p, s)| (*p, s.clone())).collect();
            if after != want {
                check.violation("peer-addresses-not-fold", format!("contents {after:?} != fold {want:?} although nothing can have been evicted"), wit(&hist));
            }
        }
    }
    check.case(sig.0, true);
    check.count("helper_histories", 2);
    check.count("peer_addresses_most_recent_checks", lru_checked);
    if check.want_sample() {
        check.sample(json!({"part": "peer_addresses", "capacity": cap, "history": hist.iter().take(12).collect::<Vec<_>>()}));
    }
}

pub fn run(args: &Args) -> i32 {
    let check = Check::new(
        args,
        "exploration",
        "PRNG histories: (a) scripted listener/external-address events against a real swarm, views compared after every SwarmEvent; (b) generated \
         FromSwarm sequences against ListenAddresses / ExternalAddresses / PeerAddresses with reference folds; non-trivial = swarm history with a \
         closed listener and >= 8 events, every helper history; distinct by op sequence",
    );
    let cases = args.tier.pick(4_000u64, 400_000);
    vmon::par_cases_timed(&check, cases, args.threads, args.tier.pick(30.0, 400.0), |i, rng: &mut Rng| {
        if i % 2 == 0 { swarm_level(&check, rng) } else { helpers(&check, rng) }
    });
    check.finish()
}
