//! C03 — connection ids are never reused, across threads and swarms.
//!
//! T threads allocate ids concurrently: half through the public `DialOpts` builders (every builder
//! variant), half by running real swarm pairs whose inbound connections get their ids inside
//! `Swarm::poll`. Every id is tagged with (thread, counter); a global set insert must never collide.
//! Not judged: wrap-around after 2^64 allocations (out of reach).
use std::{
    collections::HashMap,
    sync::{Arc, Barrier, Mutex},
};

use libp2p_core::{Multiaddr, multiaddr::Protocol};
use libp2p_identity::PeerId;
use libp2p_swarm::{ConnectionId, SwarmEvent, dial_opts::DialOpts};
use vmon::{Args, Check, Rng, Sig, json};
use vnet::{Net, Probe, ProbeEvent};

fn mem(n: u64) -> Multiaddr {
    Multiaddr::empty().with(Protocol::Memory(n))
}

pub fn run(args: &Args) -> i32 {
    let check = Check::new(
        args,
        "exploration",
        "threads allocate connection ids concurrently via DialOpts builders and via inbound connections of real swarms; every id tagged \
         (thread, n); non-trivial/distinct = each allocated id (a duplicate is the violation); rounds repeat with fresh barriers",
    );
    let tiny = args.extra.get("budget").map(|s| s == "tiny").unwrap_or(false);
    let threads = if tiny { 4 } else { args.threads.max(4) };
    let per_thread = if tiny { 40 } else { args.tier.pick(60_000usize, 1_500_000) };
    let rounds = if tiny { 2 } else { args.tier.pick(4, 8) };
    let peer = PeerId::random();
    sequential_phase(&check, args.seed, if tiny { 3 } else { args.tier.pick(300, 6_000) });
    for round in 0..rounds {
        let all: Arc<Mutex<Vec<Vec<(ConnectionId, u64)>>>> = Arc::new(Mutex::new(vec![]));
        let barrier = Arc::new(Barrier::new(threads));
        std::thread::scope(|s| {
            for t in 0..threads {
                let all = all.clone();
                let barrier = barrier.clone();
                let seed = args.seed;
                s.spawn(move || {
                    let mut mine: Vec<(ConnectionId, u64)> = Vec::with_capacity(per_thread);
                    let mut rng = Rng::for_case(seed, (round * 100 + t) as u64);
                    barrier.wait();
                    if t % 4 == 3 && !tiny {
                        // ids handed out inside Swarm::poll for inbound connections + behaviour/app dials
                        let mut k = 0u64;
                        while mine.len() < per_thread / 200 {
                            let mut net: Net<Probe> = Net::new(rng.next_u64(), false);
                            for i in 0..2 {
                                let (p, _) = Probe::new(i as u8);
                                net.add_node(vnet::keypair(rng.next_u64()), move |_, _| p, |c| c);
                                net.swarm(i).listen_on(mem(100 + i as u64)).unwrap();
                            }
                            let inbound = std::cell::RefCell::new(Vec::<ConnectionId>::new());
                            let mut sink = |_: &mut Net<Probe>, _: usize, ev: SwarmEvent<ProbeEvent>| {
                                if let SwarmEvent::IncomingConnection { connection_id, .. } = ev {
                                    inbound.borrow_mut().push(connection_id);
                                }
                            };
                            for _ in 0..20 {
                                let o = DialOpts::unknown_peer_id().address(mem(101)).build();
                                k += 1;
                                mine.push((o.connection_id(), k));
                                let _ = net.swarm(0).dial(o);
                                net.touch(0);
                                net.run(rng.range(0, 50), &mut sink);
                            }
                            net.run(100_000, &mut sink);
                            for c in inbound.into_inner() {
                                k += 1;
                                mine.push((c, k));
                            }
                        }
                    } else {
                        for n in 0..per_thread {
                            let o = match n % 4 {
                                0 => DialOpts::peer_id(peer).build(),
                                1 => DialOpts::unknown_peer_id().address(mem(1)).build(),
                                2 => DialOpts::peer_id(peer).addresses(vec![]).build(),
                                _ => DialOpts::from(peer),
                            };
                            mine.push((o.connection_id(), n as u64));
                        }
                    }
                    all.lock().unwrap().push(mine);
                });
            }
        });
        let lists = std::mem::take(&mut *all.lock().unwrap());
        let mut seen: HashMap<ConnectionId, (usize, u64)> = HashMap::new();
        let mut total = 0u64;
        for (t, l) in lists.iter().enumerate() {
            for (id, n) in l {
                total += 1;
                if let Some((t0, n0)) = seen.insert(*id, (t, *n)) {
                    check.violation(
                        "duplicate-connection-id",
                        format!("connection id {id} handed out twice: allocation #{n0} of thread {t0} and allocation #{n} of thread {t}"),
                        json!({"id": id.to_string(), "first": [t0, n0], "second": [t, n], "round": round}),
                    );
                }
            }
        }
        check.cases(total);
        check.count("ids_allocated", total);
        // distinct non-trivial: count distinct ids (sampled hash to bound memory in evidence aggregation)
        for (id, (t, _)) in seen.iter().take(50_000) {
            check.nontrivial(Sig::new().str(&id.to_string()).u64(*t as u64).0);
        }
        if round == 0 {
            let mut ex: Vec<String> = seen.keys().take(5).map(|c| c.to_string()).collect();
            ex.sort();
            check.sample(json!({"round": 0, "threads": threads, "ids_per_round": total, "example_ids": ex}));
        }
    }
    check.note("threads", json!(threads));
    check.finish()
}

/// Single-threaded phase: nothing else allocates in between, so an id that is "given back" after a refused or failed
/// connection would be handed out again by the very next allocation. Swarm pairs whose behaviours deny at PRNG-chosen
/// decision points, dials to refused / unsupported addresses, closes; every allocation (DialOpts built by the harness,
/// `IncomingConnection` events) goes into one set.
fn sequential_phase(check: &Check, seed: u64, pairs: u64) {
    use vnet::Point;
    let mut seen: HashMap<ConnectionId, String> = HashMap::new();
    let mut total = 0u64;
    let mut denied_total = 0u64;
    for case in 0..pairs {
        let mut rng = Rng::for_case(seed ^ 0x5e9, case);
        let mut net: Net<Probe> = Net::new(rng.next_u64(), false);
        let mut ctls = vec![];
        for i in 0..2 {
            let (p, c) = Probe::new(i as u8);
            net.add_node(vnet::keypair(rng.next_u64()), move |_, _| p, |c| c);
            net.swarm(i).listen_on(mem(100 + i as u64)).unwrap();
            ctls.push(c);
        }
        for c in &ctls {
            let mut r = Rng::new(rng.next_u64());
            let pt = *rng.pick(&[Point::PendingInbound, Point::PendingOutbound, Point::EstablishedInbound, Point::EstablishedOutbound]);
            c.with(|p| p.deny_fn = Some(Box::new(move |q, _, _| q == pt && r.chance(1, 2))));
        }
        let allocs = std::cell::RefCell::new(Vec::<(ConnectionId, String)>::new());
        let denied = std::cell::Cell::new(0u64);
        let announced = std::cell::RefCell::new(std::collections::HashSet::<ConnectionId>::new());
        let mut sink = |_: &mut Net<Probe>, i: usize, ev: SwarmEvent<ProbeEvent>| match ev {
            SwarmEvent::IncomingConnection { connection_id, .. } => {
                announced.borrow_mut().insert(connection_id);
                allocs.borrow_mut().push((connection_id, format!("pair {case}: IncomingConnection at node {i}")))
            }
            SwarmEvent::IncomingConnectionError { connection_id, .. } => {
                denied.set(denied.get() + 1);
                // an inbound connection refused at the pending stage is only ever reported through this event
                if !announced.borrow().contains(&connection_id) {
                    allocs.borrow_mut().push((connection_id, format!("pair {case}: IncomingConnectionError (refused before IncomingConnection) at node {i}")));
                }
            }
            SwarmEvent::OutgoingConnectionError { .. } => denied.set(denied.get() + 1),
            _ => {}
        };
        for k in 0..rng.range(6, 20) {
            let i = rng.usize(2);
            let a = match rng.usize(5) {
                0 => mem(9001),
                _ => mem(100 + (1 - i) as u64),
            };
            let o = DialOpts::unknown_peer_id().address(a).build();
            allocs.borrow_mut().push((o.connection_id(), format!("pair {case}: dial #{k} built for node {i}")));
            let _ = net.swarm(i).dial(o);
            net.touch(i);
            net.run(rng.range(0, 60), &mut sink);
        }
        net.run(100_000, &mut sink);
        denied_total += denied.get();
        for (id, what) in allocs.into_inner() {
            total += 1;
            if let Some(first) = seen.insert(id, what.clone()) {
                check.violation("duplicate-connection-id", format!("connection id {id} handed out twice (single-threaded): {first}; then {what}"), json!({"id": id.to_string(), "first": first, "second": what}));
            }
        }
    }
    check.cases(total);
    check.count("sequential_phase_ids", total);
    check.count("sequential_phase_failed_or_denied_connections", denied_total);
}
