//! C05 — established peer identity matches expectation and is never local.
//!
//! The transport authenticates the remote as {expected, other, local}: the dialed address routes to a
//! node holding the target's key, another key, or (a second node holding) the dialer's own key. Dials
//! with and without an expected peer id, watched from both the dialing and the listening side, under
//! PRNG schedules with optional byte chunking.
//!
//! Oracle: ConnectionEstablished{peer} at the dialer only if peer == expected (when given) and peer !=
//! local; otherwise the attempt ends in exactly WrongPeerId / LocalPeerId, is never counted in
//! network_info, and the underlying raw connection is closed by the time the net is quiescent (both
//! pipe directions closed). The listener never reports an established connection whose peer is its own id.
use libp2p_core::{Multiaddr, multiaddr::Protocol};
use libp2p_identity::PeerId;
use libp2p_swarm::{
    SwarmEvent,
    dial_opts::{DialOpts, PeerCondition},
};
use vmon::{Args, Check, Rng, Sig, json};
use vnet::{Net, Probe, ProbeEvent, dial_error_kind, listen_error_kind};

fn mem(n: u64) -> Multiaddr {
    Multiaddr::empty().with(Protocol::Memory(n))
}

pub fn run(args: &Args) -> i32 {
    let check = Check::new(
        args,
        "fault_enumeration",
        "exhaustive matrix: expected peer {none, target, own id} x remote authenticates as {expected, other, local} x {1,2} concurrent attempts, each under \
         many PRNG schedules (swarm/task order, byte chunking); non-trivial = every case (each ends in an established or rejected connection); \
         distinct by (matrix cell, scheduler decision hash)",
    );
    let reps = args.tier.pick(1_500u64, 60_000);
    // expectation: 0 = none, 1 = the target B, 2 = the dialer's own peer id
    let cells: Vec<(u8, u8, u8)> = (0..3u8).flat_map(|e| (0..3u8).flat_map(move |a| (1..3u8).map(move |k| (e, a, k)))).collect();
    let n = cells.len() as u64 * reps;
    vmon::par_cases(&check, n, args.threads, |idx, rng: &mut Rng| {
        let (expect_kind, auth_as, attempts) = cells[(idx % cells.len() as u64) as usize];
        let expect_given = expect_kind != 0;
        let mut net: Net<Probe> = Net::new(rng.next_u64(), rng.chance(1, 2));
        let ka = vnet::keypair(rng.next_u64());
        let kb = vnet::keypair(rng.next_u64());
        let kc = vnet::keypair(rng.next_u64());
        // nodes: 0 = dialer A, 1 = target B, 2 = other C, 3 = A' (same key as A)
        // a quarter of the cases dial with `override_role()` (hole-punching style): the dialer then takes the listener
        // role in the connection upgrade, so the remotes upgrade every connection in the dialer role
        let override_role = rng.chance(1, 4);
        for (i, k) in [ka.clone(), kb, kc, ka].into_iter().enumerate() {
            let (p, _) = Probe::new(i as u8);
            if override_role && i > 0 {
                net.add_node_reversed(k, move |_, _| p, |c| c.with_idle_connection_timeout(std::time::Duration::from_secs(3600)));
            } else {
                net.add_node(k, move |_, _| p, |c| c.with_idle_connection_timeout(std::time::Duration::from_secs(3600)));
            }
            net.swarm(i).listen_on(mem(100 + i as u64)).unwrap();
        }
        let (a, b) = (net.peer(0), net.peer(1));
        let target_node = match auth_as {
            0 => 1,
            1 => 2,
            _ => 3,
        };
        let obtained = net.peer(target_node);
        let expected = if expect_kind == 2 { a } else { b };
        let mut events: Vec<(usize, String)> = vec![];
        let mut est_at_dialer: Vec<PeerId> = vec![];
        let mut err_at_dialer: Vec<String> = vec![];
        let mut est_at_listener: Vec<(usize, PeerId)> = vec![];
        let mut sink = |_: &mut Net<Probe>, i: usize, ev: SwarmEvent<ProbeEvent>| match ev {
            SwarmEvent::ConnectionEstablished { peer_id, endpoint, .. } => {
                events.push((i, format!("Est({peer_id},{})", if endpoint.is_dialer() { "out" } else { "in" })));
                if i == 0 && endpoint.is_dialer() {
                    est_at_dialer.push(peer_id)
                } else {
                    est_at_listener.push((i, peer_id))
                }
            }
            SwarmEvent::OutgoingConnectionError { error, .. } => {
                events.push((i, format!("OutErr({})", dial_error_kind(&error))));
                if i == 0 {
                    err_at_dialer.push(dial_error_kind(&error))
                }
            }
            SwarmEvent::IncomingConnectionError { error, .. } => events.push((i, format!("InErr({})", listen_error_kind(&error)))),
            SwarmEvent::ConnectionClosed { peer_id, .. } => events.push((i, format!("Closed({peer_id})"))),
            _ => {}
        };
        net.run(rng.range(0, 30), &mut sink);
        for _ in 0..attempts {
            let addr = mem(100 + target_node as u64);
            let o = match (expect_given, override_role) {
                (true, false) => DialOpts::peer_id(expected).addresses(vec![addr]).condition(PeerCondition::Always).build(),
                (true, true) => DialOpts::peer_id(expected).addresses(vec![addr]).condition(PeerCondition::Always).override_role().build(),
                (false, false) => DialOpts::unknown_peer_id().address(addr).build(),
                (false, true) => DialOpts::unknown_peer_id().address(addr).override_role().build(),
            };
            net.swarm(0).dial(o).expect("dial accepted");
            net.touch(0);
            net.run(rng.range(0, 20), &mut sink);
        }
        let q = net.run(200_000, &mut sink);
        if !q {
            check.inconclusive("not quiescent");
            return;
        }
        let auth_name = ["expected", "other", "local"][auth_as as usize];
        let exp_name = ["none", "target", "own-peer-id"][expect_kind as usize];
        let wit = json!({"expected": exp_name, "remote_authenticates_as": auth_name, "attempts": attempts, "override_role": override_role,
            "events": events.iter().map(|(i, e)| format!("n{i}:{e}")).collect::<Vec<_>>()});
        let should_establish = obtained != a && (!expect_given || obtained == expected);
        for p in &est_at_dialer {
            if *p == a {
                check.violation("established-with-local-peer-id", "dialer reported a connection to its own peer id as established", wit.clone());
            }
            if expect_given && *p != expected {
                check.violation("established-with-unexpected-peer", format!("dial for {expected} established with {p}"), wit.clone());
            }
            if *p != obtained {
                check.violation("established-peer-not-authenticated-peer", format!("transport authenticated {obtained}, reported {p}"), wit.clone());
            }
        }
        for (i, p) in &est_at_listener {
            if *p == net.peer(*i) {
                check.violation("listener-established-with-local-peer-id", format!("node {i} reported an inbound connection from its own peer id as established"), wit.clone());
            }
        }
        if should_establish {
            if est_at_dialer.len() != attempts as usize {
                check.violation("legitimate-dial-not-established", format!("{} of {attempts} legitimate dials established; errors {err_at_dialer:?}", est_at_dialer.len()), wit.clone());
            }
        } else {
            let want = if expect_given && obtained != expected { "WrongPeerId" } else { "LocalPeerId" };
            if err_at_dialer.len() != attempts as usize || err_at_dialer.iter().any(|k| k != want) {
                check.violation(format!("wrong-rejection-kind:{want}"), format!("expected {attempts}x {want}, got {err_at_dialer:?}"), wit.clone());
            }
            let info = net.swarm(0).network_info();
            if info.connection_counters().num_connections() != 0 || info.num_peers() != 0 {
                check.violation("rejected-connection-counted", format!("network_info counts {:?} after rejection", info.connection_counters()), wit.clone());
            }
            // underlying connection closed: every raw connection of the dialer has both directions closed
            let open: Vec<usize> = net.board.with(|bd| bd.conns.iter().enumerate().filter(|(_, c)| c.dialer == 0 && !(c.d2l.is_closed() && c.l2d.is_closed())).map(|(k, _)| k).collect());
            if !open.is_empty() {
                check.violation("rejected-connection-not-closed", format!("raw connections {open:?} of the rejected dial are still open at quiescence"), wit.clone());
            }
        }
        let sig = Sig::new().u64(expect_kind as u64).u64(auth_as as u64).u64(attempts as u64).u64(net.trace.0).0;
        check.case(sig, true);
        check.count(if should_establish { "cases_established" } else { "cases_rejected" }, 1);
        check.count("cases_with_override_role", override_role as u64);
        check.distinct("matrix_cells", (expect_kind as u64) * 100 + (auth_as as u64) * 10 + attempts as u64);
        if check.want_sample() && idx % 5 == 0 {
            check.sample(wit);
        }
    });
    check.note("exhaustive", json!("matrix exhaustive; schedules sampled"));
    check.finish()
}
