//! C07 — behaviour-to-handler notifications are targeted, ordered and not lost.
//!
//! Node 0 (Probe) holds 1..4 connections to node 1 (and some to node 2). The probe behaviour emits
//! uniquely numbered events with NotifyHandler::One(c) / Any; at the instant an event leaves
//! `poll` the probe records the set of established connections it has been told about (the
//! emission-time set). `with_notify_handler_buffer_size(1..3)`; the scheduler starves node 0's
//! connection tasks (frozen) so command buffers fill and notifications park inside the swarm;
//! connections are closed locally / remotely while notifications are parked.
//!
//! Oracle over (emission log, per-handler receipt logs, close events):
//! * One(c): received only by c's handler. Any: received by at most one handler, a member of the
//!   emission-time set. No event is received twice.
//! * per handler, receipts are in emission order.
//! * at the quiescent end of the history an event that nobody received is acceptable only if its
//!   target (One) / some member of its emission-time set (Any; the chosen member is not observable) was
//!   closed, or the set was empty.
use std::collections::{HashMap, HashSet};

use libp2p_core::{Multiaddr, multiaddr::Protocol};
use libp2p_swarm::{
    ConnectionId, NotifyHandler, SwarmEvent, ToSwarm,
    dial_opts::{DialOpts, PeerCondition},
};
use vmon::{Args, Check, Rng, Sig, json};
use vnet::{Net, Probe, ProbeEvent, ProbeIn};

fn mem(n: u64) -> Multiaddr {
    Multiaddr::empty().with(Protocol::Memory(n))
}

pub fn run(args: &Args) -> i32 {
    let check = Check::new(
        args,
        "exploration",
        "PRNG histories: 3 real swarms, node 0 emits numbered NotifyHandler One/Any events in bursts while its connection tasks are starved \
         (buffer size 1..3) and connections are closed on either side; non-trivial = history where >= 1 notification parked behind a full \
         buffer or was dropped because its target closed, and >= 5 were delivered; distinct by scheduler decision hash",
    );
    let cases = args.tier.pick(2_500u64, 150_000);
    let only: Option<u64> = args.extra.get("case").and_then(|s| s.parse().ok());
    vmon::par_cases_timed(&check, cases, args.threads, args.tier.pick(30.0, 400.0), |case_idx, rng: &mut Rng| {
        if only.is_some() && only != Some(case_idx) {
            return;
        }
        let buf = 1 + rng.usize(3);
        let mut net: Net<Probe> = Net::new(rng.next_u64(), rng.chance(1, 4));
        let mut ctls = vec![];
        for i in 0..3 {
            let (p, c) = Probe::new(i as u8);
            ctls.push(c);
            net.add_node(vnet::keypair(rng.next_u64()), move |_, _| p, |c| {
                c.with_idle_connection_timeout(std::time::Duration::from_secs(3600)).with_notify_handler_buffer_size(std::num::NonZeroUsize::new(buf).unwrap())
            });
            net.swarm(i).listen_on(mem(100 + i as u64)).unwrap();
        }
        let peers = [net.peer(0), net.peer(1), net.peer(2)];
        let mut closed0: HashSet<ConnectionId> = HashSet::new();
        let mut est0: HashSet<ConnectionId> = HashSet::new();
        macro_rules! sink {
            () => {
                &mut |_: &mut Net<Probe>, i: usize, ev: SwarmEvent<ProbeEvent>| {
                    if i == 0 {
                        match ev {
                            SwarmEvent::ConnectionEstablished { connection_id, .. } => {
                                est0.insert(connection_id);
                            }
                            SwarmEvent::ConnectionClosed { connection_id, .. } => {
                                closed0.insert(connection_id);
                            }
                            _ => {}
                        }
                    }
                }
            };
        }
        // initial connections
        for _ in 0..(1 + rng.usize(3)) {
            let j = 1 + rng.usize(2);
            let o = if rng.bool() { DialOpts::peer_id(peers[j]).addresses(vec![mem(100 + j as u64)]).condition(PeerCondition::Always).build() } else { DialOpts::unknown_peer_id().address(mem(100 + j as u64)).build() };
            let _ = net.swarm(0).dial(o);
            net.touch(0);
        }
        if rng.bool() {
            let _ = net.swarm(1).dial(DialOpts::unknown_peer_id().address(mem(100)).build());
            net.touch(1);
        }
        net.run(100_000, sink!());
        let mut seq = 0u64;
        let mut parked_possible = false;
        let n_ops = rng.range(15, 50);
        for _ in 0..n_ops {
            match rng.weighted(&[30, 8, 8, 6, 5, 4, 25]) {
                0 => {
                    // burst of notifications
                    let burst = 1 + rng.usize(6);
                    for _ in 0..burst {
                        let j = 1 + rng.usize(2);
                        let conns: Vec<ConnectionId> = ctls[0].with(|p| p.established.get(&peers[j]).cloned().unwrap_or_default());
                        // also target connections that are already gone (must be dropped silently)
                        let pool: Vec<ConnectionId> = if rng.chance(1, 10) { est0.iter().copied().collect() } else { conns.clone() };
                        seq += 1;
                        let handler = if !pool.is_empty() && rng.chance(3, 5) { NotifyHandler::One(pool[rng.usize(pool.len())]) } else { NotifyHandler::Any };
                        ctls[0].push(ToSwarm::NotifyHandler { peer_id: peers[j], handler, event: ProbeIn { emitter: 0, seq } });
                    }
                }
                1 => {
                    // starve node 0's connection tasks
                    net.frozen_tasks.insert(0);
                    parked_possible = true;
                }
                2 => {
                    net.frozen_tasks.remove(&0);
                }
                3 => {
                    // local close of one connection
                    let v: Vec<ConnectionId> = est0.difference(&closed0).copied().collect();
                    if !v.is_empty() {
                        net.swarm(0).close_connection(v[rng.usize(v.len())]);
                        net.touch(0);
                    }
                }
                4 => {
                    // remote closes / disconnects
                    let j = 1 + rng.usize(2);
                    let _ = net.swarm(j).disconnect_peer_id(peers[0]);
                    net.touch(j);
                }
                5 => {
                    let j = 1 + rng.usize(2);
                    let _ = net.swarm(0).dial(DialOpts::peer_id(peers[j]).addresses(vec![mem(100 + j as u64)]).condition(PeerCondition::Always).build());
                    net.touch(0);
                }
                _ => {
                    net.run(rng.range(1, 40), sink!());
                }
            }
        }
        net.frozen_tasks.clear();
        let q = net.run(400_000, sink!());
        if !q {
            check.inconclusive("not quiescent");
            return;
        }
        // ---- oracle
        let emitted = ctls[0].with(|p| p.emitted.clone());
        let already_closing = ctls[0].with(|p| p.emitted_already_closing.clone());
        let handlers: Vec<(ConnectionId, Vec<ProbeIn>)> = ctls[0].with(|p| p.handlers.iter().map(|(c, h)| (*c, h.received())).collect());
        let mut receivers: HashMap<u64, Vec<ConnectionId>> = HashMap::new();
        let order: HashMap<u64, usize> = emitted.iter().enumerate().map(|(k, (e, ..))| (e.seq, k)).collect();
        for (c, rec) in &handlers {
            let mut last: Option<usize> = None;
            for r in rec {
                receivers.entry(r.seq).or_default().push(*c);
                match order.get(&r.seq) {
                    None => check.violation("received-never-emitted", format!("handler of {c} received seq {} that was never emitted", r.seq), json!({"conn": c.to_string()})),
                    Some(k) => {
                        if let Some(l) = last
                            && *k < l
                        {
                            check.violation(
                                "receipts-out-of-emission-order",
                                format!("handler of {c} received seq {} after a later-emitted event", r.seq),
                                json!({"conn": c.to_string(), "receipts": rec.iter().map(|x| x.seq).collect::<Vec<_>>(), "emission_order": emitted.iter().map(|(e, ..)| e.seq).collect::<Vec<_>>()}),
                            );
                        }
                        last = Some(*k);
                    }
                }
            }
        }
        let (mut delivered, mut dropped_closed) = (0u64, 0u64);
        for (idx, (ev, peer, one, snap)) in emitted.iter().enumerate() {
            let got = receivers.get(&ev.seq).cloned().unwrap_or_default();
            let wit = json!({"seq": ev.seq, "peer": peer.to_string(), "one": one.map(|c| c.to_string()), "emission_time_set": snap.iter().map(|c| c.to_string()).collect::<Vec<_>>(),
                "received_by": got.iter().map(|c| c.to_string()).collect::<Vec<_>>(), "closed": closed0.iter().map(|c| c.to_string()).collect::<Vec<_>>(), "buffer": buf, "case": case_idx,
                "handlers": ctls[0].with(|p| p.handlers.iter().map(|(c, h)| h.with(|x| format!("{c}: polls={} dropped={} received={:?}", x.polls, x.dropped, x.log.iter().filter_map(|e| if let vnet::HEv::Received(r) = e { Some(r.seq) } else { None }).collect::<Vec<_>>()))).collect::<Vec<_>>()),
                "emitted": emitted.iter().map(|(e, _, one, snap)| format!("seq{} {} set={:?}", e.seq, one.map(|c| format!("One({c})")).unwrap_or("Any".into()), snap.iter().map(|c| c.to_string()).collect::<Vec<_>>())).collect::<Vec<_>>()});
            if got.len() > 1 {
                check.violation("notification-delivered-more-than-once", format!("seq {} delivered to {} handlers", ev.seq, got.len()), wit.clone());
            }
            match one {
                Some(c) => {
                    if got.iter().any(|g| g != c) {
                        check.violation("one-delivered-to-other-connection", format!("One({c}) event seq {} delivered to {got:?}", ev.seq), wit.clone());
                    }
                    if got.is_empty() {
                        // One(c) names its connection by id: the peer id given next to it does not have to be c's remote for the
                        // event to be due (a tenth of the One events are emitted under another peer's id)
                        let target_live = est0.contains(c) && !closed0.contains(c);
                        if target_live {
                            check.violation("one-lost-target-open", format!("One({c}) event seq {} never delivered although {c} is still open at the quiescent end", ev.seq), wit.clone());
                        } else {
                            dropped_closed += 1;
                        }
                    }
                }
                None => {
                    if let Some(g) = got.first()
                        && !snap.contains(g)
                    {
                        check.violation("any-delivered-outside-emission-set", format!("Any event seq {} delivered to {g}, not in the emission-time set {snap:?}", ev.seq), wit.clone());
                    }
                    if got.is_empty() {
                        // The swarm hands an Any event to *one* member of the emission-time set; if that member
                        // closes before its task takes the event, the event is dropped legitimately ("dropped only
                        // when their target connection is closing or gone"). Which member was chosen is not
                        // observable, so a loss is judged only when no member of the set has closed.
                        // Members whose handler had already reached poll_close when the event was emitted had their
                        // command channel closed: they cannot have taken the event. Among the others, the chosen one
                        // is not observable, so a loss is judged only when none of them has closed.
                        let could_take: Vec<&ConnectionId> = snap.iter().filter(|c| !already_closing[idx].contains(c)).collect();
                        let any_closed = could_take.iter().any(|c| closed0.contains(c));
                        if !could_take.is_empty() && !any_closed {
                            check.violation("any-lost-target-open", format!("Any event seq {} never delivered although {could_take:?} of its emission-time set could take it and are still open (already closing at emission: {:?})", ev.seq, already_closing[idx]), wit.clone());
                        } else {
                            dropped_closed += 1;
                        }
                    }
                }
            }
            if !got.is_empty() {
                delivered += 1;
            }
        }
        // notifications the behaviour queued but the swarm never took although the net is quiescent: the swarm is
        // stuck on an earlier notification; the queued ones are lost although their targets may be open
        let stuck: Vec<(u64, String)> = ctls[0].with(|p| {
            p.queue
                .iter()
                .filter_map(|e| match e {
                    ToSwarm::NotifyHandler { peer_id, handler, event } => {
                        let open: Vec<ConnectionId> = p.established.get(peer_id).cloned().unwrap_or_default().into_iter().filter(|c| !closed0.contains(c)).collect();
                        let target_open = match handler {
                            NotifyHandler::One(c) => open.contains(c),
                            NotifyHandler::Any => !open.is_empty(),
                        };
                        if target_open { Some((event.seq, format!("{handler:?}"))) } else { None }
                    }
                    _ => None,
                })
                .collect()
        });
        if !stuck.is_empty() {
            check.violation(
                "notifications-never-taken-from-behaviour",
                format!("net quiescent but {} queued notifications with open targets were never taken from the behaviour (first: seq {} {})", stuck.len(), stuck[0].0, stuck[0].1),
                json!({"case": case_idx, "buffer": buf, "emitted": emitted.len(), "stuck": stuck.iter().map(|(s, h)| format!("seq{s} {h}")).collect::<Vec<_>>()}),
            );
        }
        check.case(Sig::new().u64(net.trace.0).u64(buf as u64).0, delivered >= 5 && (parked_possible || dropped_closed > 0));
        check.distinct("distinct_interleavings", net.trace.0);
        check.count("notifications_emitted", emitted.len() as u64);
        check.count("notifications_delivered", delivered);
        check.count("notifications_dropped_target_closed", dropped_closed);
        check.count("histories_with_starvation", parked_possible as u64);
        if check.want_sample() && dropped_closed > 0 && delivered > 3 {
            check.sample(json!({"buffer": buf, "emitted": emitted.iter().take(12).map(|(e, _, one, snap)| format!("seq{} {} set={}", e.seq, one.map(|c| format!("One({c})")).unwrap_or("Any".into()), snap.len())).collect::<Vec<_>>(),
                "receipts": handlers.iter().map(|(c, r)| format!("{c}: {:?}", r.iter().map(|x| x.seq).collect::<Vec<_>>())).collect::<Vec<_>>()}));
        }
    });
    check.finish()
}
