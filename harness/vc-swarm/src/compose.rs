//! C06 (a behaviour's connection denial is final) and C58 (derived behaviours compose their fields
//! faithfully), on `#[derive(NetworkBehaviour)]` structs of two and three `Probe` fields running in real
//! swarms under the PRNG scheduler.
//!
//! C06 oracle, per node and connection id, from the fields' own logs + handler state + SwarmEvents:
//! if any field denied the id at any of the four decision points then (1) no field saw
//! ConnectionEstablished and the application saw no ConnectionEstablished, (2) no probe handler created
//! for that id was ever polled or received anything, (3) every field saw exactly one DialFailure /
//! ListenFailure for it and the application exactly one error event (for the pending-outbound point the
//! application-side half is the `Err(Denied)` returned by `dial`), (4) the established counters exclude
//! it. If no field denied, no `Denied` error may be reported. ("No handler is created" is judged at
//! swarm level: sub-handlers built by earlier fields before a later field denies must never run.)
//!
//! C58 oracle: (a) the FromSwarm sequences logged by the fields are identical; (b) a handler event
//! produced by field X's handler is delivered to field X only, at most once, and all of them when the
//! connection stays open; behaviour->handler events of field X reach only X's handler; inbound streams
//! for X's protocol reach X's handler; (c) `Denied` is reported iff some field denied; (d) with
//! extend_addresses_through_behaviour the transport is asked to dial exactly
//! dedup(explicit ++ field_a ++ field_b ...) (own listen addresses excluded).
use std::collections::{BTreeMap, BTreeSet, HashMap, HashSet};

use libp2p_core::{Multiaddr, multiaddr::Protocol};
use libp2p_identity::PeerId;
use libp2p_swarm::{
    ConnectionId, NetworkBehaviour, NotifyHandler, SwarmEvent, ToSwarm,
    dial_opts::{DialOpts, PeerCondition},
};
use vmon::{Args, Check, Rng, Sig, Value, json};
use vnet::{BEv, HCmd, HEv, Net, Point, Probe, ProbeCtl, ProbeIn, ProbeOut, dial_error_kind, listen_error_kind, strip_p2p};

#[derive(NetworkBehaviour)]
#[behaviour(prelude = "libp2p_swarm::derive_prelude")]
pub struct Two {
    a: Probe,
    b: Probe,
}
#[derive(NetworkBehaviour)]
#[behaviour(prelude = "libp2p_swarm::derive_prelude")]
pub struct Three {
    a: Probe,
    b: Probe,
    c: Probe,
}

/// the swarm's own `Toggle` combinator around each field (both enabled)
#[derive(NetworkBehaviour)]
#[behaviour(prelude = "libp2p_swarm::derive_prelude")]
pub struct TwoToggle {
    a: libp2p_swarm::behaviour::toggle::Toggle<Probe>,
    b: libp2p_swarm::behaviour::toggle::Toggle<Probe>,
}

fn mem(n: u64) -> Multiaddr {
    Multiaddr::empty().with(Protocol::Memory(n))
}

#[derive(Clone, Debug)]
enum AppEv {
    Est(ConnectionId),
    Closed(ConnectionId),
    OutErr(ConnectionId, String),
    InErr(ConnectionId, String),
}

pub struct Out {
    sig: u64,
    interleaving: u64,
    denied_conns: u64,
    established: u64,
    handler_events: u64,
    notifications: u64,
    c06: Vec<(String, String, Value)>,
    c58: Vec<(String, String, Value)>,
    sample: Value,
    quiescent: bool,
    addr_checks: u64,
    close_scripts: u64,
    address_changes_seen: u64,
}

const POINTS: [Point; 4] = [Point::PendingInbound, Point::PendingOutbound, Point::EstablishedInbound, Point::EstablishedOutbound];

fn run_case_generic<B: NetworkBehaviour>(rng: &mut Rng, case: u64, nf: usize, make: &dyn Fn(Vec<Probe>) -> B) -> Out
where
    B::ToSwarm: std::fmt::Debug,
{
    let nodes = 2 + rng.usize(2);
    let mut net: Net<B> = Net::new(rng.next_u64(), rng.chance(1, 4));
    let mut ctls: Vec<Vec<ProbeCtl>> = vec![];
    for i in 0..nodes {
        let mut probes = vec![];
        let mut cs = vec![];
        for f in 0..nf {
            let (p, c) = Probe::new(f as u8);
            probes.push(p);
            cs.push(c);
        }
        let b = make(probes);
        net.add_node(vnet::keypair(rng.next_u64()), move |_, _| b, |c| c.with_idle_connection_timeout(std::time::Duration::from_secs(3600)));
        net.swarm(i).listen_on(mem(100 + i as u64)).unwrap();
        ctls.push(cs);
    }
    // graceful-close script per field: the field's handlers return Pending from poll_close 0-2 times (waking themselves)
    // and then hand out 0-2 final events before Ready(None)
    for i in 0..nodes {
        for f in 0..nf {
            let plan = (rng.usize(3) as u32, rng.usize(3) as u32);
            ctls[i][f].with(|p| p.default_close_plan = plan);
        }
    }
    // deny plan: node 0 systematically walks (mask, point); other nodes random
    let combos = (1u64 << nf) * 4;
    let mask = (case % combos) / 4;
    let point = POINTS[(case % 4) as usize];
    let always = rng.chance(2, 3);
    for f in 0..nf {
        if mask & (1 << f) != 0 {
            let mut r = Rng::new(rng.next_u64());
            ctls[0][f].with(|p| p.deny_fn = Some(Box::new(move |pt, _, _| pt == point && (always || r.bool()))));
        }
    }
    for i in 1..nodes {
        if rng.chance(1, 3) {
            let f = rng.usize(nf);
            let pt = *rng.pick(&POINTS);
            let mut r = Rng::new(rng.next_u64());
            ctls[i][f].with(|p| p.deny_fn = Some(Box::new(move |q, _, _| q == pt && r.chance(1, 3))));
        }
    }
    // behaviour-provided addresses per field (for node i dialing peer j)
    let mut field_addrs: Vec<Vec<HashMap<Option<PeerId>, Vec<Multiaddr>>>> = vec![vec![HashMap::new(); nf]; nodes];
    for i in 0..nodes {
        for f in 0..nf {
            for j in 0..nodes {
                if j == i || !rng.chance(1, 2) {
                    continue;
                }
                let mut v = vec![];
                for _ in 0..rng.usize(3) {
                    v.push(match rng.usize(4) {
                        0 => mem(100 + j as u64),
                        1 => mem(9001 + rng.below(3)),
                        2 => mem(100 + i as u64), // own listen address
                        _ => mem(9500 + f as u64),
                    });
                }
                field_addrs[i][f].insert(Some(net.peer(j)), v.clone());
                let pj = net.peer(j);
                ctls[i][f].with(|p| {
                    p.addresses.insert(Some(pj), v);
                });
            }
        }
    }
    let mut app: Vec<Vec<AppEv>> = vec![vec![]; nodes];
    let mut dial_err: Vec<HashMap<ConnectionId, String>> = vec![HashMap::new(); nodes];
    let mut dial_ok: Vec<Vec<ConnectionId>> = vec![vec![]; nodes];
    let mut c58: Vec<(String, String, Value)> = vec![];
    let mut addr_checks = 0u64;
    let mut emitted_out: HashMap<(usize, usize, ConnectionId), Vec<u64>> = HashMap::new(); // (node, field, conn) -> seqs emitted by handler
    let mut emitted_in: HashMap<(usize, usize), Vec<(u64, PeerId, Option<ConnectionId>)>> = HashMap::new();
    let mut seq = 0u64;
    let mut ops: BTreeMap<&'static str, u64> = BTreeMap::new();

    macro_rules! sink {
        () => {
            &mut |_net: &mut Net<B>, i: usize, ev: SwarmEvent<B::ToSwarm>| match ev {
                SwarmEvent::ConnectionEstablished { connection_id, .. } => app[i].push(AppEv::Est(connection_id)),
                SwarmEvent::ConnectionClosed { connection_id, .. } => app[i].push(AppEv::Closed(connection_id)),
                SwarmEvent::OutgoingConnectionError { connection_id, error, .. } => app[i].push(AppEv::OutErr(connection_id, dial_error_kind(&error))),
                SwarmEvent::IncomingConnectionError { connection_id, error, .. } => app[i].push(AppEv::InErr(connection_id, listen_error_kind(&error))),
                _ => {}
            }
        };
    }

    let n_ops = rng.range(15, 45);
    net.run(rng.range(0, 40), sink!());
    for _ in 0..n_ops {
        let i = rng.usize(nodes);
        let mut j = rng.usize(nodes);
        if j == i {
            j = (j + 1) % nodes;
        }
        let pj = net.peer(j);
        match rng.weighted(&[10, 8, 10, 10, 8, 3, 30, 3]) {
            0 => {
                // explicit address dial
                *ops.entry("dial").or_insert(0) += 1;
                let o = if rng.bool() { DialOpts::unknown_peer_id().address(mem(100 + j as u64)).build() } else { DialOpts::peer_id(pj).addresses(vec![mem(100 + j as u64)]).condition(PeerCondition::Always).build() };
                let id = o.connection_id();
                match net.swarm(i).dial(o) {
                    Err(e) => {
                        dial_err[i].insert(id, dial_error_kind(&e));
                    }
                    Ok(()) => dial_ok[i].push(id),
                }
                net.touch(i);
            }
            1 => {
                // dial extended through the behaviours: check the address union (C58 d)
                *ops.entry("dial_extended").or_insert(0) += 1;
                let mut explicit = vec![];
                for _ in 0..rng.usize(3) {
                    explicit.push(match rng.usize(3) {
                        0 => mem(100 + j as u64),
                        1 => mem(9001 + rng.below(3)),
                        _ => mem(9600),
                    });
                }
                let o = DialOpts::peer_id(pj).addresses(explicit.clone()).extend_addresses_through_behaviour().condition(PeerCondition::Always).build();
                let id = o.connection_id();
                let before = net.board.with(|b| b.dials.len());
                let res = net.swarm(i).dial(o);
                net.touch(i);
                let after = net.board.with(|b| b.dials.len());
                match res {
                    Ok(()) => {
                        dial_ok[i].push(id);
                        // expected: dedup(explicit ++ fields in order), minus own listen addresses
                        let own = mem(100 + i as u64);
                        let mut want: Vec<Multiaddr> = vec![];
                        let denied_here = (0..nf).any(|f| ctls[i][f].with(|p| p.log.iter().any(|e| matches!(e, BEv::PendingOutbound { conn, denied: true, .. } if *conn == id))));
                        if !denied_here {
                            for a in explicit.iter().chain((0..nf).flat_map(|f| field_addrs[i][f].get(&Some(pj)).into_iter().flatten())) {
                                if *a != own && !want.contains(a) {
                                    want.push(a.clone());
                                }
                            }
                            // own listen address: whether it is filtered depends on whether NewListenAddr was already processed (C04's subject) - not judged here
                            let got: Vec<Multiaddr> = net.board.with(|b| b.dials[before..after].iter().map(|d| strip_p2p(&d.addr)).filter(|a| *a != own).collect());
                            addr_checks += 1;
                            let gs: BTreeSet<String> = got.iter().map(|a| a.to_string()).collect();
                            let ws: BTreeSet<String> = want.iter().map(|a| a.to_string()).collect();
                            if gs != ws || got.len() != want.len() {
                                c58.push((
                                    "pending-dial-addresses-not-union".into(),
                                    format!("node {i}: transport asked to dial {got:?}, fields+explicit imply {want:?}"),
                                    json!({"explicit": explicit.iter().map(|a| a.to_string()).collect::<Vec<_>>(), "fields": (0..nf).map(|f| field_addrs[i][f].get(&Some(pj)).cloned().unwrap_or_default().iter().map(|a| a.to_string()).collect::<Vec<_>>()).collect::<Vec<_>>()}),
                                ));
                            }
                        }
                    }
                    Err(e) => {
                        dial_err[i].insert(id, dial_error_kind(&e));
                    }
                }
            }
            2 => {
                // behaviour -> handler notification from a random field
                let f = rng.usize(nf);
                let conns: Vec<ConnectionId> = ctls[i][f].with(|p| p.established.get(&pj).cloned().unwrap_or_default());
                if !conns.is_empty() {
                    *ops.entry("notify_handler").or_insert(0) += 1;
                    seq += 1;
                    let one = if rng.bool() { Some(conns[rng.usize(conns.len())]) } else { None };
                    emitted_in.entry((i, f)).or_default().push((seq, pj, one));
                    ctls[i][f].push(ToSwarm::NotifyHandler {
                        peer_id: pj,
                        handler: one.map(NotifyHandler::One).unwrap_or(NotifyHandler::Any),
                        event: ProbeIn { emitter: f as u8, seq },
                    });
                }
            }
            3 => {
                // handler -> behaviour event from a random field's handler
                let f = rng.usize(nf);
                let hs: Vec<(ConnectionId, vnet::HandlerCtl)> = ctls[i][f].with(|p| p.handlers.iter().map(|(c, h)| (*c, h.clone())).collect());
                let live: Vec<_> = hs.into_iter().filter(|(_, h)| h.with(|x| !x.dropped && x.polls > 0)).collect();
                if !live.is_empty() {
                    *ops.entry("handler_emit").or_insert(0) += 1;
                    let (c, h) = live[rng.usize(live.len())].clone();
                    seq += 1;
                    emitted_out.entry((i, f, c)).or_default().push(seq);
                    h.cmd(HCmd::Emit(ProbeOut { origin: f as u8, seq }));
                }
            }
            4 => {
                // open a stream for a random field's protocol from a random field's handler
                let f = rng.usize(nf);
                let g = rng.usize(nf);
                let hs: Vec<vnet::HandlerCtl> = ctls[i][f].with(|p| p.handlers.values().cloned().collect());
                let live: Vec<_> = hs.into_iter().filter(|h| h.with(|x| !x.dropped && x.polls > 0)).collect();
                if !live.is_empty() {
                    *ops.entry("open_stream").or_insert(0) += 1;
                    seq += 1;
                    live[rng.usize(live.len())].cmd(HCmd::Open { proto: format!("/probe/{g}"), tag: seq });
                }
            }
            7 => {
                // the muxer of one of node i's connections reports an address change
                *ops.entry("address_change").or_insert(0) += 1;
                net.board.inject_address_change(i, mem(5000 + rng.below(1000)));
                net.run(rng.range(1, 40), sink!());
            }
            5 => {
                *ops.entry("disconnect").or_insert(0) += 1;
                let _ = net.swarm(i).disconnect_peer_id(pj);
                net.touch(i);
            }
            _ => {
                net.run(rng.range(1, 30), sink!());
            }
        }
    }
    let quiescent = net.run(300_000, sink!());

    // ------------------------------------------------------------------ oracles
    let mut c06: Vec<(String, String, Value)> = vec![];
    let mut sig = Sig::new().u64(nf as u64).u64(mask).u64(case % 4);
    let (mut denied_conns, mut established, mut handler_events, mut notifications) = (0u64, 0u64, 0u64, 0u64);
    let mut close_scripts = 0u64;
    let mut address_changes_seen = 0u64;
    for i in 0..nodes {
        let logs: Vec<Vec<BEv>> = (0..nf).map(|f| ctls[i][f].log()).collect();
        // (a) identical FromSwarm sequences
        let proj = |l: &Vec<BEv>| -> Vec<String> {
            l.iter()
                .filter(|e| !matches!(e, BEv::PendingInbound { .. } | BEv::PendingOutbound { .. } | BEv::EstablishedInbound { .. } | BEv::EstablishedOutbound { .. } | BEv::HandlerEvent { .. } | BEv::ToSwarm(_)))
                .map(|e| format!("{e:?}"))
                .collect()
        };
        let p0 = proj(&logs[0]);
        for f in 1..nf {
            let pf = proj(&logs[f]);
            if pf != p0 {
                let k = p0.iter().zip(pf.iter()).position(|(x, y)| x != y).unwrap_or(p0.len().min(pf.len()));
                c58.push((
                    "fromswarm-not-forwarded-identically".into(),
                    format!("node {i}: field 0 and field {f} saw different FromSwarm sequences (lengths {} / {}), first difference at {k}: {:?} vs {:?}", p0.len(), pf.len(), p0.get(k), pf.get(k)),
                    json!({"node": i, "field": f}),
                ));
            }
        }
        // collect decision results per id
        let mut denied_by: HashMap<ConnectionId, Vec<(usize, Point)>> = HashMap::new();
        let mut ids: HashSet<ConnectionId> = HashSet::new();
        for (f, l) in logs.iter().enumerate() {
            for e in l {
                let (c, d, pt) = match e {
                    BEv::PendingInbound { conn, denied, .. } => (*conn, *denied, Point::PendingInbound),
                    BEv::PendingOutbound { conn, denied, .. } => (*conn, *denied, Point::PendingOutbound),
                    BEv::EstablishedInbound { conn, denied, .. } => (*conn, *denied, Point::EstablishedInbound),
                    BEv::EstablishedOutbound { conn, denied, .. } => (*conn, *denied, Point::EstablishedOutbound),
                    _ => continue,
                };
                ids.insert(c);
                if d {
                    denied_by.entry(c).or_default().push((f, pt));
                }
            }
        }
        // a veto can only be honoured if it is asked for: every dial the swarm accepted must have been shown to every
        // field at the pending-outbound decision point, every established connection at its established point
        for c in &dial_ok[i] {
            for (f, l) in logs.iter().enumerate() {
                if !l.iter().any(|e| matches!(e, BEv::PendingOutbound { conn, .. } if conn == c)) {
                    c06.push(("dial-accepted-without-pending-outbound-decision".into(), format!("node {i}: dial {c} returned Ok although field {f} was never asked (handle_pending_outbound_connection not called)"), json!({"node": i, "field": f, "conn": c.to_string()})));
                }
            }
        }
        for c in app[i].iter().filter_map(|e| if let AppEv::Est(c) = e { Some(*c) } else { None }) {
            for (f, l) in logs.iter().enumerate() {
                if !l.iter().any(|e| matches!(e, BEv::EstablishedInbound { conn, .. } | BEv::EstablishedOutbound { conn, .. } if *conn == c)) {
                    c06.push(("established-without-established-decision".into(), format!("node {i}: connection {c} reported established although field {f} was never asked (handle_established_*_connection not called)"), json!({"node": i, "field": f, "conn": c.to_string()})));
                }
            }
        }
        for c in &ids {
            let app_est = app[i].iter().filter(|e| matches!(e, AppEv::Est(x) if x == c)).count();
            let app_err: Vec<&AppEv> = app[i].iter().filter(|e| matches!(e, AppEv::OutErr(x, _) | AppEv::InErr(x, _) if x == c)).collect();
            let wit = || {
                json!({"node": i, "conn": c.to_string(), "nf": nf,
                    "field_logs": logs.iter().map(|l| l.iter().filter(|e| format!("{e:?}").contains(&format!("ConnectionId({c})"))).map(|e| format!("{e:?}").chars().take(140).collect::<String>()).collect::<Vec<_>>()).collect::<Vec<_>>(),
                    "app": app[i].iter().map(|e| format!("{e:?}")).filter(|s| s.contains(&format!("ConnectionId({c})"))).collect::<Vec<_>>()})
            };
            match denied_by.get(c) {
                Some(by) => {
                    denied_conns += 1;
                    let (_, pt) = by[0];
                    sig.push_u64(100 + pt as u64);
                    if app_est > 0 {
                        c06.push(("denied-but-established-app".into(), format!("node {i}: connection {c} denied by field(s) {by:?} but reported ConnectionEstablished"), wit()));
                    }
                    // C58 "denies a connection iff some field denies it": the composed verdict is what the swarm acts on, so
                    // a connection that a field denied and that still becomes established (or is never reported as
                    // denied) means the derived callback swallowed that field's Err
                    if app_est > 0 {
                        c58.push((format!("field-denied-but-composed-verdict-accepted:{pt:?}"), format!("node {i}: field(s) {by:?} denied connection {c} but the derived behaviour let it through (ConnectionEstablished reported)"), wit()));
                    } else if quiescent && !sync_denied(pt, dial_err[i].get(c)) && !app_err.iter().any(|e| matches!(e, AppEv::OutErr(_, k) | AppEv::InErr(_, k) if k == "Denied")) {
                        c58.push((format!("field-denied-but-no-denied-error:{pt:?}"), format!("node {i}: field(s) {by:?} denied connection {c} but neither dial() nor a swarm event reported Denied"), wit()));
                    }
                    for (f, l) in logs.iter().enumerate() {
                        if l.iter().any(|e| matches!(e, BEv::ConnectionEstablished { conn, .. } if conn == c)) {
                            c06.push(("denied-but-established-behaviour".into(), format!("node {i}: connection {c} denied by {by:?} but field {f} saw ConnectionEstablished"), wit()));
                        }
                        let fails = l.iter().filter(|e| matches!(e, BEv::DialFailure { conn, .. } | BEv::ListenFailure { conn, .. } if conn == c)).count();
                        if fails != 1 && quiescent {
                            c06.push(("denied-failure-count-behaviour".into(), format!("node {i}: connection {c} denied by {by:?}: field {f} saw {fails} failure notifications (want exactly 1)"), wit()));
                        }
                        if let Some(h) = ctls[i][f].handler(*c) {
                            let (polls, hl) = h.with(|x| (x.polls, x.log.clone()));
                            if polls > 0 || !hl.is_empty() {
                                c06.push(("denied-but-handler-ran".into(), format!("node {i}: connection {c} denied by {by:?} but field {f}'s handler ran (polls={polls}, log={hl:?})"), wit()));
                            }
                        }
                    }
                    let sync = pt == Point::PendingOutbound;
                    let want_app = if sync { 0 } else { 1 };
                    if quiescent && app_err.len() != want_app {
                        c06.push(("denied-failure-count-app".into(), format!("node {i}: connection {c} denied at {pt:?}: application saw {} error events (want {want_app})", app_err.len()), wit()));
                    }
                    if sync && dial_err[i].get(c).map(|s| s.as_str()) != Some("Denied") && quiescent {
                        // behaviour-initiated dials are not used in this workload, so dial() must have returned Err(Denied)
                        c06.push(("denied-pending-outbound-dial-returned-ok".into(), format!("node {i}: connection {c} denied at pending-outbound but dial() returned {:?}", dial_err[i].get(c)), wit()));
                    }
                    for e in &app_err {
                        if let AppEv::OutErr(_, k) | AppEv::InErr(_, k) = e
                            && k != "Denied"
                        {
                            c06.push(("denied-wrong-error-kind".into(), format!("node {i}: connection {c} denied but error kind is {k}"), wit()));
                        }
                    }
                }
                None => {
                    for e in &app_err {
                        if let AppEv::OutErr(_, k) | AppEv::InErr(_, k) = e
                            && k == "Denied"
                        {
                            c58.push(("denied-without-denying-field".into(), format!("node {i}: connection {c} failed with Denied although no field denied it"), wit()));
                        }
                    }
                    if dial_err[i].get(c).map(|s| s.as_str()) == Some("Denied") {
                        c58.push(("denied-without-denying-field".into(), format!("node {i}: dial {c} returned Denied although no field denied it"), wit()));
                    }
                    if app_est > 0 {
                        established += 1;
                        sig.push_u64(7);
                    }
                }
            }
        }
        // (4) counters exclude denied connections: established counter == Est - Closed
        let est_now = app[i].iter().filter(|e| matches!(e, AppEv::Est(_))).count() as i64 - app[i].iter().filter(|e| matches!(e, AppEv::Closed(_))).count() as i64;
        let info = net.swarm(i).network_info();
        if quiescent && info.connection_counters().num_established() as i64 != est_now {
            c06.push(("counters-include-unestablished".into(), format!("node {i}: num_established={} but events imply {est_now}", info.connection_counters().num_established()), json!({"node": i})));
        }
        // (b) handler events routed to the producing field only
        for f in 0..nf {
            let evs = ctls[i][f].with(|p| p.handler_events.clone());
            let mut seen: HashSet<u64> = HashSet::new();
            for (peer, conn, ev) in &evs {
                handler_events += 1;
                if ev.origin as usize != f {
                    c58.push(("handler-event-misrouted".into(), format!("node {i}: event produced by field {}'s handler delivered to field {f}", ev.origin), json!({"conn": conn.to_string(), "peer": peer.to_string()})));
                }
                if !seen.insert(ev.seq) {
                    c58.push(("handler-event-duplicated".into(), format!("node {i}: field {f} received handler event seq {} twice", ev.seq), json!({})));
                }
                let from_close = ctls[i][f].handler(*conn).map(|h| h.with(|x| x.close_emitted.contains(&ev.seq))).unwrap_or(false);
                if !from_close && !emitted_out.get(&(i, f, *conn)).map(|v| v.contains(&ev.seq)).unwrap_or(false) {
                    c58.push(("handler-event-unknown".into(), format!("node {i}: field {f} received handler event seq {} on {conn} that its handler never emitted there", ev.seq), json!({})));
                }
            }
            // conservation when the connection is still open and the net is quiescent
            if quiescent {
                for ((ni, nf_, c), seqs) in &emitted_out {
                    if *ni != i || *nf_ != f {
                        continue;
                    }
                    let open = app[i].iter().any(|e| matches!(e, AppEv::Est(x) if x == c)) && !app[i].iter().any(|e| matches!(e, AppEv::Closed(x) if x == c));
                    if open {
                        for s in seqs {
                            if !seen.contains(s) {
                                c58.push(("handler-event-lost".into(), format!("node {i}: handler event seq {s} of field {f} on open connection {c} never reached the field"), json!({})));
                            }
                        }
                    }
                }
            }
            // connection events reach every field's handler: per connection, all fields saw the same number of
            // address changes (they are delivered to the composed handler in one call)
            if f == 0 {
                let conns: Vec<ConnectionId> = ctls[i][0].with(|p| p.handlers.keys().copied().collect());
                for c in conns {
                    let counts: Vec<usize> = (0..nf).map(|g| ctls[i][g].handler(c).map(|h| h.log().iter().filter(|e| matches!(e, HEv::AddressChange)).count()).unwrap_or(0)).collect();
                    address_changes_seen += counts[0] as u64;
                    if counts.iter().any(|k| *k != counts[0]) {
                        c58.push(("connection-event-not-forwarded-to-every-field".into(), format!("node {i}: address changes seen by the fields' handlers on {c}: {counts:?}"), json!({"node": i, "conn": c.to_string()})));
                    }
                }
            }
            // graceful close: a handler whose poll_close was started is driven until it returns Ready(None), and every
            // final event it hands out reaches its own field
            if quiescent {
                let hs: Vec<vnet::HandlerCtl> = ctls[i][f].with(|p| p.handlers.values().cloned().collect());
                for h in hs {
                    let (conn, state, emitted, pend, left) = h.with(|x| (x.conn, x.close_state, x.close_emitted.clone(), x.close_pending_left, x.close_events_left));
                    if state != 0 {
                        close_scripts += 1;
                    }
                    if state == 1 {
                        c58.push(("handler-close-abandoned".into(), format!("node {i}: poll_close of field {f}'s handler on {conn} was started but never driven to Ready(None) ({pend} Pending returns and {left} final events still to come); the other fields' handlers finished"), json!({"node": i, "field": f, "conn": conn.to_string()})));
                    }
                    for sq in &emitted {
                        if !seen.contains(sq) {
                            c58.push(("handler-close-event-lost".into(), format!("node {i}: final event {sq} handed out by poll_close of field {f}'s handler on {conn} never reached the field"), json!({"node": i, "field": f, "conn": conn.to_string()})));
                        }
                    }
                }
            }
            // behaviour -> handler: only X's handler receives X's events; inbound streams land at the right handler
            let hs: Vec<vnet::HandlerCtl> = ctls[i][f].with(|p| p.handlers.values().cloned().collect());
            for h in hs {
                for e in h.log() {
                    match e {
                        HEv::Received(p) => {
                            notifications += 1;
                            if p.emitter as usize != f {
                                c58.push(("notify-handler-misrouted".into(), format!("node {i}: handler of field {f} received an event emitted by field {}", p.emitter), json!({})));
                            }
                        }
                        HEv::Inbound { proto, .. } => {
                            if proto != format!("/probe/{f}") {
                                c58.push(("inbound-stream-misrouted".into(), format!("node {i}: handler of field {f} received inbound stream for {proto}"), json!({})));
                            }
                        }
                        _ => {}
                    }
                }
            }
        }
    }
    let sample = json!({"fields": nf, "nodes": nodes, "node0_deny_mask": mask, "node0_deny_point": format!("{point:?}"), "ops": ops,
        "node0_app_events": app[0].iter().take(20).map(|e| format!("{e:?}")).collect::<Vec<_>>()});
    Out { sig: sig.0, interleaving: net.trace.0, denied_conns, established, handler_events, notifications, c06, c58, sample, quiescent, addr_checks, close_scripts, address_changes_seen }
}

fn run_common(args: &Args, which: &str) -> i32 {
    let check = Check::new(
        args,
        "exploration",
        "derived behaviours of 2 and 3 Probe fields (a fifth of the cases: both fields wrapped in the swarm's Toggle) in 2-3 real swarms; node 0 walks every (deny mask over fields, decision point) combination, \
         other nodes deny at random; PRNG ops (dials incl. behaviour-extended address lists, NotifyHandler One/Any, handler events, streams, \
         disconnects) under the PRNG scheduler; non-trivial = history with >=1 denied and >=1 established connection; distinct by \
         (fields, mask, point, per-connection outcome sequence)",
    );
    let cases = args.tier.pick(2_400, 200_000);
    vmon::par_cases_timed(&check, cases, args.threads, args.tier.pick(30.0, 400.0), |i, rng| {
        let o = if i % 5 == 4 {
            run_case_generic::<TwoToggle>(rng, i / 2, 2, &|mut p| {
                let b = p.pop().unwrap();
                let a = p.pop().unwrap();
                TwoToggle { a: Some(a).into(), b: Some(b).into() }
            })
        } else if i % 2 == 0 {
            run_case_generic::<Two>(rng, i / 2, 2, &|mut p| {
                let b = p.pop().unwrap();
                let a = p.pop().unwrap();
                Two { a, b }
            })
        } else {
            run_case_generic::<Three>(rng, i / 2, 3, &|mut p| {
                let c = p.pop().unwrap();
                let b = p.pop().unwrap();
                let a = p.pop().unwrap();
                Three { a, b, c }
            })
        };
        check.case(o.sig, o.denied_conns > 0 && o.established > 0);
        check.distinct("distinct_interleavings", o.interleaving);
        check.count("denied_connections_observed", o.denied_conns);
        check.count("established_connections_observed", o.established);
        check.count("handler_events_observed", o.handler_events);
        check.count("handler_notifications_observed", o.notifications);
        check.count("address_union_checks", o.addr_checks);
        check.count("handler_poll_close_scripts_run", o.close_scripts);
        check.count("muxer_address_changes_seen_by_handlers", o.address_changes_seen);
        if !o.quiescent {
            check.inconclusive("not quiescent within step budget");
        }
        for (s, w, v) in if which == "C06" { &o.c06 } else { &o.c58 } {
            check.violation(s.clone(), w.clone(), v.clone());
        }
        if check.want_sample() && o.denied_conns > 0 {
            check.sample(o.sample);
        }
    });
    check.note("deny_matrix_exhaustive", json!("node 0: all 2^fields masks x 4 decision points visited"));
    check.finish()
}

pub fn run_c06(args: &Args) -> i32 {
    run_common(args, "C06")
}
pub fn run_c58(args: &Args) -> i32 {
    run_common(args, "C58")
}

fn sync_denied(pt: Point, dial_result: Option<&String>) -> bool {
    pt == Point::PendingOutbound && dial_result.map(|s| s.as_str()) == Some("Denied")
}
