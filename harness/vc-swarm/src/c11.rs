//! C11 — protocol-change notifications track the advertised protocol sets.
//!
//! A real connection (Net, two swarms). Node 0's probe handler changes the protocol list its
//! `listen_protocol()` advertises between polls (growth, shrinkage, duplicates, names without a
//! leading '/', add+remove in one step, permutations) and reports remote protocols Added/Removed.
//!
//! Oracle, evaluated each time the net is quiescent after a change: the fold of the
//! LocalProtocolsChange Added/Removed events the handler received (initial Added included) equals the
//! set of *valid* names (those that start with '/') currently advertised; the fold of
//! RemoteProtocolsChange events equals the reference set obtained by applying the reported
//! Added/Removed sets in order.
use std::collections::BTreeSet;

use libp2p_core::{Multiaddr, multiaddr::Protocol};
use libp2p_swarm::{SwarmEvent, dial_opts::DialOpts};
use vmon::{Args, Check, Rng, Sig, json};
use vnet::{HCmd, HEv, Net, Probe, ProbeEvent};

fn mem(n: u64) -> Multiaddr {
    Multiaddr::empty().with(Protocol::Memory(n))
}

const NAMES: [&str; 8] = ["/a", "/b", "/c", "/d", "/e/1.0.0", "nolead", "", "x/y"];

fn fold(log: &[HEv]) -> (BTreeSet<String>, BTreeSet<String>, bool) {
    let mut local = BTreeSet::new();
    let mut remote = BTreeSet::new();
    let mut anomalies = false;
    for e in log {
        match e {
            HEv::LocalAdded(v) => {
                for p in v {
                    anomalies |= !local.insert(p.clone());
                }
            }
            HEv::LocalRemoved(v) => {
                for p in v {
                    anomalies |= !local.remove(p);
                }
            }
            HEv::RemoteAdded(v) => {
                for p in v {
                    anomalies |= !remote.insert(p.clone());
                }
            }
            HEv::RemoteRemoved(v) => {
                for p in v {
                    anomalies |= !remote.remove(p);
                }
            }
            _ => {}
        }
    }
    (local, remote, anomalies)
}

pub fn run(args: &Args) -> i32 {
    let check = Check::new(
        args,
        "exploration",
        "PRNG histories of advertised protocol lists over 8 names (3 invalid), lengths 0..7 with duplicates, and remote Added/Removed reports, \
         through a real connection; fold compared at every quiescent point; non-trivial = history with >= 1 list containing a duplicate or an \
         invalid name and >= 1 shrink; distinct by the sequence of lists",
    );
    let cases = args.tier.pick(1_500u64, 120_000);
    vmon::par_cases_timed(&check, cases, args.threads, args.tier.pick(30.0, 400.0), |_, rng: &mut Rng| {
        let mut net: Net<Probe> = Net::new(rng.next_u64(), false);
        let mut ctls = vec![];
        for i in 0..2 {
            let (p, c) = Probe::new(i as u8);
            ctls.push(c);
            net.add_node(vnet::keypair(rng.next_u64()), move |_, _| p, |c| c.with_idle_connection_timeout(std::time::Duration::from_secs(3600)));
            net.swarm(i).listen_on(mem(100 + i as u64)).unwrap();
        }
        let gen_list = |rng: &mut Rng| -> Vec<String> {
            let n = rng.usize(8);
            let mut v: Vec<String> = (0..n).map(|_| NAMES[rng.usize(NAMES.len())].to_string()).collect();
            if rng.chance(1, 3) && !v.is_empty() {
                let d = v[rng.usize(v.len())].clone();
                v.push(d);
            }
            v
        };
        let initial = gen_list(rng);
        ctls[0].with(|p| p.default_protocols = initial.clone());
        // some handlers report remote protocols in their very first poll
        let mut remote_ref: BTreeSet<String> = BTreeSet::new();
        let mut reports: Vec<String> = vec![];
        if rng.chance(1, 3) {
            let ps: Vec<String> = (0..1 + rng.usize(3)).map(|_| NAMES[rng.usize(5)].to_string()).collect();
            for p in &ps {
                remote_ref.insert(p.clone());
            }
            reports.push(format!("first-poll +{ps:?}"));
            ctls[0].with(|p| p.initial_remote_reports = vec![(true, ps)]);
        }
        let conn_cell = std::cell::Cell::new(None);
        let mut sink = |_: &mut Net<Probe>, i: usize, ev: SwarmEvent<ProbeEvent>| {
            if i == 0
                && let SwarmEvent::ConnectionEstablished { connection_id, .. } = ev
            {
                conn_cell.set(Some(connection_id));
            }
        };
        net.swarm(0).dial(DialOpts::unknown_peer_id().address(mem(101)).build()).unwrap();
        net.touch(0);
        net.run(100_000, &mut sink);
        let Some(conn) = conn_cell.get() else {
            check.inconclusive("setup: no connection");
            return;
        };
        let h = ctls[0].handler(conn).expect("handler");
        let mut lists: Vec<Vec<String>> = vec![initial.clone()];
        let mut current = initial;
        let mut sig = Sig::new();
        let (mut had_dup_or_invalid, mut had_shrink) = (false, false);
        let steps = rng.range(4, 16);
        for step in 0..=steps {
            // compare at the quiescent point
            let (local, remote, anomalies) = fold(&h.log());
            let want: BTreeSet<String> = current.iter().filter(|p| p.starts_with('/')).cloned().collect();
            let wit = || json!({"lists": lists, "remote_reports": reports, "handler_log": h.log().iter().filter(|e| !matches!(e, HEv::Received(_))).map(|e| format!("{e:?}")).collect::<Vec<_>>()});
            if local != want {
                let missing_removal = local.difference(&want).next().is_some();
                check.violation(
                    if missing_removal { "local-fold-keeps-removed-protocol" } else { "local-fold-misses-advertised-protocol" },
                    format!("step {step}: fold of LocalProtocolsChange = {local:?}, advertised valid set = {want:?}"),
                    wit(),
                );
                break;
            }
            if remote != remote_ref {
                check.violation("remote-fold-mismatch", format!("step {step}: fold of RemoteProtocolsChange = {remote:?}, reference = {remote_ref:?}"), wit());
                break;
            }
            if anomalies {
                check.violation("change-event-not-a-change", format!("step {step}: an Added event named an already-present protocol or a Removed event an absent one"), wit());
                break;
            }
            if step == steps {
                break;
            }
            let batch = if rng.chance(1, 3) { 1 + rng.usize(3) } else { 1 };
            for _ in 0..batch {
            if rng.chance(1, 2) {
                // new advertised list: mutate the current one or draw a fresh one
                let mut next = if rng.bool() { gen_list(rng) } else { current.clone() };
                match rng.usize(5) {
                    0 if !next.is_empty() => {
                        next.remove(rng.usize(next.len()));
                    }
                    1 => next.push(NAMES[rng.usize(NAMES.len())].to_string()),
                    2 if !next.is_empty() => {
                        // replace one by a duplicate of another (same length, one removed: the masked-removal shape)
                        let i = rng.usize(next.len());
                        let j = rng.usize(next.len());
                        next[i] = next[j].clone();
                    }
                    3 => rng.shuffle(&mut next),
                    _ => {}
                }
                let old: BTreeSet<&String> = current.iter().collect();
                let new: BTreeSet<&String> = next.iter().collect();
                had_shrink |= old.difference(&new).next().is_some();
                had_dup_or_invalid |= new.len() != next.len() || next.iter().any(|p| !p.starts_with('/'));
                for p in &next {
                    sig.push_str(p);
                }
                sig.push_u64(0xfe);
                if batch == 1 && rng.bool() { h.set_protocols(next.clone()) } else { h.cmd(HCmd::SetProtocols(next.clone())) }
                lists.push(next.clone());
                current = next;
            } else {
                let added = rng.bool();
                let n = 1 + rng.usize(3);
                let ps: Vec<String> = (0..n).map(|_| NAMES[rng.usize(5)].to_string()).collect();
                for p in &ps {
                    if added {
                        remote_ref.insert(p.clone());
                    } else {
                        remote_ref.remove(p);
                    }
                }
                reports.push(format!("{}{ps:?}", if added { "+" } else { "-" }));
                sig.push_u64(if added { 1 } else { 2 });
                h.cmd(HCmd::ReportRemote { added, protocols: ps });
            }
            }
            if !net.run(100_000, &mut sink) {
                check.inconclusive("not quiescent");
                return;
            }
        }
        check.case(sig.0, had_dup_or_invalid && had_shrink);
        check.count("protocol_lists_advertised", lists.len() as u64);
        check.count("remote_reports", reports.len() as u64);
        if check.want_sample() && had_dup_or_invalid && had_shrink {
            check.sample(json!({"lists": lists, "remote_reports": reports}));
        }
    });
    check.finish()
}
