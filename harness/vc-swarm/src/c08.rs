//! C08 — concurrent dialing respects the concurrency factor and reports each failure.
//!
//! Through the public API: `Swarm::dial` with N addresses (each a harness-resolved `Manual` route),
//! `with_dial_concurrency_factor(k)` or a per-dial override. The harness resolves the in-flight
//! transport dials in PRNG order (fail / connect) while the PRNG scheduler runs the pending-
//! connection task. The SimTransport counts futures that were polled and have not finished.
//!
//! Oracle: in-flight <= k at every step; every address handed to the transport at most once and
//! started at most once; the dial succeeds iff some started address was resolved to connect, and then
//! (sequential mode: the net is run to quiescence after every resolution) `concurrent_dial_errors` is
//! exactly the multiset of addresses resolved to fail before it; in batch mode it is a sub-multiset of
//! the failed ones. When every address fails, DialError::Transport lists every input address exactly
//! once. Smart dialing (`with_smart_dial`): every address attempted at most once, errors never list an
//! address twice, success iff some address connects (few cases; real timers).
use std::collections::BTreeMap;

use libp2p_core::{Multiaddr, multiaddr::Protocol};
use libp2p_swarm::{
    DialError, SwarmEvent,
    dial_opts::{DialOpts, PeerCondition},
};
use vmon::{Args, Check, Rng, Sig, json};
use vnet::{Net, Outcome, Probe, ProbeEvent, Route, strip_p2p};

fn mem(n: u64) -> Multiaddr {
    Multiaddr::empty().with(Protocol::Memory(n))
}

enum End {
    Est(Vec<Multiaddr>, Multiaddr),
    Failed(Vec<Multiaddr>),
    Other(String),
}

pub fn run(args: &Args) -> i32 {
    let check = Check::new(
        args,
        "exploration",
        "N in 1..=8 addresses, k in 1..=4 (config or per-dial override), PRNG order of resolutions (fail/connect/leave pending) and scheduler \
         steps; sequential and batch resolution modes; plus smart-dial cases with real timers; non-trivial = N > k or >= 1 failure before the \
         outcome; distinct by (N, k, resolution sequence)",
    );
    let cases = args.tier.pick(3_000u64, 200_000);
    vmon::par_cases_timed(&check, cases, args.threads, args.tier.pick(25.0, 300.0), |_, rng: &mut Rng| {
        let n = 1 + rng.usize(8);
        let k = 1 + rng.usize(4);
        let use_override = rng.bool();
        let sequential = rng.chance(2, 3);
        let cfg_k = if use_override { 1 + rng.usize(8) } else { k };
        let mut net: Net<Probe> = Net::new(rng.next_u64(), false);
        for i in 0..2 {
            let (p, _) = Probe::new(i as u8);
            net.add_node(vnet::keypair(rng.next_u64()), move |_, _| p, |c| {
                c.with_idle_connection_timeout(std::time::Duration::from_secs(3600)).with_dial_concurrency_factor(std::num::NonZeroU8::new(cfg_k as u8).unwrap())
            });
        }
        net.swarm(1).listen_on(mem(500)).unwrap();
        let target = net.peer(1);
        // distinct addresses; duplicates in the input are removed by the swarm, so keep them distinct here
        let addrs: Vec<Multiaddr> = (0..n).map(|i| mem(9100 + i as u64)).collect();
        for a in &addrs {
            net.board.set_route(a, Route::Manual);
        }
        let mut end: Option<End> = None;
        macro_rules! sink {
            () => {
                &mut |_: &mut Net<Probe>, i: usize, ev: SwarmEvent<ProbeEvent>| {
                    if i == 0 {
                        match ev {
                            SwarmEvent::ConnectionEstablished { concurrent_dial_errors, endpoint, .. } => {
                                end = Some(End::Est(concurrent_dial_errors.unwrap_or_default().into_iter().map(|(a, _)| strip_p2p(&a)).collect(), strip_p2p(endpoint.get_remote_address())))
                            }
                            SwarmEvent::OutgoingConnectionError { error, .. } => {
                                end = Some(match error {
                                    DialError::Transport(v) => End::Failed(v.into_iter().map(|(a, _)| strip_p2p(&a)).collect()),
                                    other => End::Other(vnet::dial_error_kind(&other)),
                                })
                            }
                            _ => {}
                        }
                    }
                }
            };
        }
        net.run(10_000, sink!());
        // the per-dial override is given after or (as the AutoNAT server does) before the address list
        let kk = std::num::NonZeroU8::new(k as u8).unwrap();
        let opts = if use_override && rng.bool() {
            DialOpts::peer_id(target).condition(PeerCondition::Always).override_dial_concurrency_factor(kk).addresses(addrs.clone()).build()
        } else {
            let mut b = DialOpts::peer_id(target).condition(PeerCondition::Always).addresses(addrs.clone());
            if use_override {
                b = b.override_dial_concurrency_factor(kk);
            }
            b.build()
        };
        net.swarm(0).dial(opts).expect("accepted");
        net.touch(0);
        let mut resolved_fail: Vec<Multiaddr> = vec![];
        let mut resolved_ok: Vec<Multiaddr> = vec![];
        let mut seq = Sig::new().u64(n as u64).u64(k as u64);
        let mut over = 0i64;
        let mut guard = 0;
        let leave_pending = rng.chance(1, 10);
        loop {
            guard += 1;
            if guard > 400 {
                break;
            }
            if sequential {
                net.run(100_000, sink!());
            } else {
                net.run(rng.range(0, 6), sink!());
            }
            let inflight = net.board.with(|b| *b.in_flight.get(&0).unwrap_or(&0));
            over = over.max(inflight);
            if end.is_some() {
                break;
            }
            let pend = net.board.pending_manual();
            if pend.is_empty() {
                if net.is_quiescent() {
                    break;
                }
                continue;
            }
            if leave_pending && resolved_fail.len() >= n / 2 {
                break;
            }
            let d = pend[rng.usize(pend.len())];
            let a = net.board.with(|b| strip_p2p(&b.dials[d].addr));
            if rng.chance(1, 5) {
                seq.push_u64(2);
                resolved_ok.push(a);
                net.board.resolve(d, Outcome::ConnectTo(mem(500)));
            } else {
                seq.push_u64(1);
                resolved_fail.push(a);
                net.board.resolve(d, Outcome::Fail);
            }
        }
        net.run(200_000, sink!());
        let max_in_flight = net.board.with(|b| *b.max_in_flight.get(&0).unwrap_or(&0));
        let log = net.board.dial_log();
        let mine: Vec<_> = log.iter().filter(|d| d.node == 0).collect();
        let wit = json!({"n": n, "k": k, "override": use_override, "config_k": cfg_k, "sequential": sequential,
            "resolved_fail": resolved_fail.iter().map(|a| a.to_string()).collect::<Vec<_>>(), "resolved_ok": resolved_ok.iter().map(|a| a.to_string()).collect::<Vec<_>>(),
            "max_in_flight": max_in_flight,
            "outcome": match &end { Some(End::Est(e, a)) => format!("established via {a}, concurrent_dial_errors {e:?}"), Some(End::Failed(v)) => format!("failed {v:?}"), Some(End::Other(s)) => s.clone(), None => "pending".into() }});
        if max_in_flight > k as i64 || over > k as i64 {
            check.violation("in-flight-exceeds-concurrency-factor", format!("{max_in_flight} transport dials in flight with concurrency factor {k}"), wit.clone());
        }
        let mut count: BTreeMap<String, usize> = BTreeMap::new();
        for d in &mine {
            *count.entry(strip_p2p(&d.addr).to_string()).or_insert(0) += 1;
        }
        if let Some((a, c)) = count.iter().find(|(_, c)| **c > 1) {
            check.violation("address-attempted-twice", format!("{a} handed to the transport {c} times"), wit.clone());
        }
        let ms = |v: &Vec<Multiaddr>| {
            let mut s: Vec<String> = v.iter().map(|a| a.to_string()).collect();
            s.sort();
            s
        };
        match &end {
            Some(End::Est(errs, via)) => {
                if !resolved_ok.contains(via) {
                    check.violation("established-without-successful-address", format!("established via {via} but the harness connected {resolved_ok:?}"), wit.clone());
                }
                let e = ms(errs);
                let f = ms(&resolved_fail);
                if sequential {
                    if e != f {
                        check.violation("concurrent-dial-errors-mismatch", format!("concurrent_dial_errors {e:?} != addresses that failed before the success {f:?}"), wit.clone());
                    }
                } else {
                    let mut f2 = f.clone();
                    for x in &e {
                        match f2.iter().position(|y| y == x) {
                            Some(p) => {
                                f2.remove(p);
                            }
                            None => check.violation("concurrent-dial-errors-mismatch", format!("concurrent_dial_errors lists {x} which did not fail (or lists it twice)"), wit.clone()),
                        }
                    }
                }
            }
            Some(End::Failed(v)) => {
                if !resolved_ok.is_empty() {
                    check.violation("failed-although-address-succeeded", "an address was connected but the dial failed".to_string(), wit.clone());
                }
                if ms(v) != ms(&addrs) {
                    check.violation("failure-errors-not-every-address-once", format!("DialError::Transport lists {:?}, input was {:?}", ms(v), ms(&addrs)), wit.clone());
                }
            }
            Some(End::Other(s)) => check.violation("unexpected-dial-error-kind", format!("dial ended with {s}"), wit.clone()),
            None => {
                if !resolved_ok.is_empty() {
                    check.violation("success-not-reported", "an address connected but no ConnectionEstablished was reported".to_string(), wit.clone());
                }
                if !leave_pending && net.board.pending_manual().is_empty() {
                    check.violation("dial-never-resolved", "every started address was resolved but the dial produced no outcome".to_string(), wit.clone());
                }
            }
        }
        check.case(seq.0, n > k || !resolved_fail.is_empty());
        check.count("transport_dials_started", mine.iter().filter(|d| d.started).count() as u64);
        check.count(match &end { Some(End::Est(..)) => "dials_established", Some(End::Failed(_)) => "dials_failed", _ => "dials_left_pending" }, 1);
        check.distinct("nk_pairs", (n * 10 + k) as u64);
        if check.want_sample() && n > k && !resolved_fail.is_empty() {
            check.sample(wit);
        }
    });

    // ---- smart dial: real timers, few cases
    let smart_cases = args.tier.pick(16u64, 200);
    vmon::par_cases(&check, smart_cases, args.threads, |_, rng: &mut Rng| {
        let mut net: Net<Probe> = Net::new(rng.next_u64(), false);
        for i in 0..2 {
            let (p, _) = Probe::new(i as u8);
            net.add_node(vnet::keypair(rng.next_u64()), move |_, _| p, |c| c.with_idle_connection_timeout(std::time::Duration::from_secs(3600)).with_smart_dial());
        }
        net.swarm(1).listen_on(mem(500)).unwrap();
        let target = net.peer(1);
        // private-range addresses keep the ranker's delays at 30..100 ms
        let n = 2 + rng.usize(4);
        let addrs: Vec<Multiaddr> = (0..n).map(|i| format!("/ip4/192.168.0.{}/{}", i + 1, if rng.bool() { "tcp/4001" } else { "udp/4001/quic-v1" }).parse().unwrap()).collect();
        let good = if rng.chance(3, 4) { Some(rng.usize(n)) } else { None };
        for (i, a) in addrs.iter().enumerate() {
            if Some(i) == good {
                net.board.alias(a, &mem(500));
            } // others: no route => refused
        }
        let mut end: Option<End> = None;
        let mut sink = |_: &mut Net<Probe>, i: usize, ev: SwarmEvent<ProbeEvent>| {
            if i == 0 {
                match ev {
                    SwarmEvent::ConnectionEstablished { concurrent_dial_errors, endpoint, .. } => {
                        end = Some(End::Est(concurrent_dial_errors.unwrap_or_default().into_iter().map(|(a, _)| strip_p2p(&a)).collect(), strip_p2p(endpoint.get_remote_address())))
                    }
                    SwarmEvent::OutgoingConnectionError { error, .. } => {
                        end = Some(match error {
                            DialError::Transport(v) => End::Failed(v.into_iter().map(|(a, _)| strip_p2p(&a)).collect()),
                            other => End::Other(vnet::dial_error_kind(&other)),
                        })
                    }
                    _ => {}
                }
            }
        };
        net.run(10_000, &mut sink);
        net.swarm(0).dial(DialOpts::peer_id(target).condition(PeerCondition::Always).addresses(addrs.clone()).build()).expect("accepted");
        net.touch(0);
        let q = net.settle(1_000_000, std::time::Duration::from_millis(1500), &mut sink);
        let log = net.board.dial_log();
        let mut count: BTreeMap<String, usize> = BTreeMap::new();
        for d in log.iter().filter(|d| d.node == 0) {
            *count.entry(strip_p2p(&d.addr).to_string()).or_insert(0) += 1;
        }
        let wit = json!({"smart": true, "addresses": addrs.iter().map(|a| a.to_string()).collect::<Vec<_>>(), "good": good,
            "outcome": match &end { Some(End::Est(e, a)) => format!("established via {a}, errors {e:?}"), Some(End::Failed(v)) => format!("failed {v:?}"), Some(End::Other(s)) => s.clone(), None => "pending".into() }});
        if let Some((a, c)) = count.iter().find(|(_, c)| **c > 1) {
            check.violation("smart-address-attempted-twice", format!("{a} handed to the transport {c} times"), wit.clone());
        }
        match (&end, good) {
            (None, _) => check.inconclusive(format!("smart dial produced no outcome within the watchdog (quiescent={q})")),
            (Some(End::Est(errs, via)), Some(g)) => {
                if *via != addrs[g] {
                    check.violation("smart-established-via-wrong-address", format!("established via {via}"), wit.clone());
                }
                let mut s: Vec<String> = errs.iter().map(|a| a.to_string()).collect();
                s.sort();
                let l = s.len();
                s.dedup();
                if s.len() != l || errs.iter().any(|e| *e == addrs[g]) {
                    check.violation("smart-errors-duplicate-or-wrong", format!("concurrent_dial_errors {errs:?}"), wit.clone());
                }
            }
            (Some(End::Failed(v)), None) => {
                let mut s: Vec<String> = v.iter().map(|a| a.to_string()).collect();
                s.sort();
                let mut w: Vec<String> = addrs.iter().map(|a| a.to_string()).collect();
                w.sort();
                if s != w {
                    check.violation("smart-failure-errors-not-every-address-once", format!("errors {s:?} vs input {w:?}"), wit.clone());
                }
            }
            (Some(End::Est(..)), None) => check.violation("smart-established-without-good-address", "established although no address connects".to_string(), wit.clone()),
            (Some(End::Failed(_)), Some(_)) => check.violation("smart-failed-although-address-good", "failed although one address connects".to_string(), wit.clone()),
            (Some(End::Other(s)), _) => check.violation("smart-unexpected-error-kind", s.clone(), wit.clone()),
        }
        check.case(Sig::new().str("smart").u64(n as u64).u64(good.map(|g| g as u64 + 1).unwrap_or(0)).u64(net.trace.0).0, true);
        check.count("smart_dial_cases", 1);
    });
    check.finish()
}
