//! C01 (lifecycle pairing, exactly-once, same order for behaviour and application) and
//! C02 (counters and peer views agree with the event history).
//!
//! Workload: 2..5 real swarms (`Recorder<Probe>`) over SimTransport+plaintext+yamux under the PRNG
//! scheduler; scripted dials of every kind (good, wrong peer, refused, unsupported, self, no address,
//! multi-address, handshake cut, manually resolved, conditional, behaviour-initiated), denials at the
//! four decision points, close_connection / disconnect_peer_id / behaviour CloseConnection, listener
//! removal, swarm drop and node kill.
//!
//! C01 oracle (offline over the per-node logs): per connection id an automaton
//! Issued -> {Established | OutErr | InErr}, Established -> Closed, each at most once, nothing after a
//! terminal state, Closed only after Established; FromSwarm lifecycle projection == SwarmEvent lifecycle
//! projection (same order, ids, peers); at the end (everything closed, quiescent) every issued id of a
//! live swarm is terminal and every established one closed. A dial that returns Err (or a behaviour
//! dial that fails synchronously) produces exactly one DialFailure and no SwarmEvent.
//!
//! C02 oracle (online, in the event sink): a reference multiset built from the SwarmEvent stream is
//! compared after every emitted event and after every harness call with is_connected /
//! connected_peers / network_info; num_established carried by events equals the reference count.
use std::collections::{BTreeMap, BTreeSet, HashMap, HashSet};

use libp2p_core::{Multiaddr, multiaddr::Protocol, transport::ListenerId};
use libp2p_identity::PeerId;
use libp2p_swarm::{
    CloseConnection, ConnectionId, SwarmEvent, ToSwarm,
    dial_opts::{DialOpts, PeerCondition},
};
use vmon::{Args, Check, Rng, Sig, Value, json};
use vnet::{BEv, Net, Outcome, Point, Probe, ProbeCtl, ProbeEvent, Recorder, Route, dial_error_kind, listen_error_kind};

type B = Recorder<Probe>;

#[derive(Clone, Debug, PartialEq, Eq)]
pub enum SEv {
    Dialing { conn: ConnectionId, peer: Option<PeerId> },
    Incoming { conn: ConnectionId },
    Est { conn: ConnectionId, peer: PeerId, outbound: bool, num: u32 },
    Closed { conn: ConnectionId, peer: PeerId, num: u32 },
    OutErr { conn: ConnectionId, peer: Option<PeerId>, kind: String },
    InErr { conn: ConnectionId, peer: Option<PeerId>, kind: String },
}

fn sev_json(e: &SEv) -> Value {
    match e {
        SEv::Dialing { conn, .. } => json!(format!("Dialing({conn})")),
        SEv::Incoming { conn } => json!(format!("Incoming({conn})")),
        SEv::Est { conn, outbound, num, .. } => json!(format!("Est({conn},{},n={num})", if *outbound { "out" } else { "in" })),
        SEv::Closed { conn, num, .. } => json!(format!("Closed({conn},n={num})")),
        SEv::OutErr { conn, kind, .. } => json!(format!("OutErr({conn},{kind})")),
        SEv::InErr { conn, kind, .. } => json!(format!("InErr({conn},{kind})")),
    }
}

/// Per node reference state for C02, maintained from SwarmEvents and harness calls only.
#[derive(Default)]
pub struct Ref {
    pub est: BTreeMap<PeerId, BTreeSet<ConnectionId>>,
    est_in: u32,
    est_out: u32,
    dir: HashMap<ConnectionId, bool>,
    pub pending_out: HashSet<ConnectionId>,
    pub pending_in: HashSet<ConnectionId>,
}

pub struct Mon {
    pub n: usize,
    pub sev: Vec<Vec<SEv>>,
    pub refs: Vec<Ref>,
    /// ids for which `Swarm::dial` returned Ok (application dials)
    pub dial_ok: Vec<HashSet<ConnectionId>>,
    /// ids for which `Swarm::dial` returned Err, with the error kind
    pub dial_err: Vec<HashMap<ConnectionId, String>>,
    pub c02: Vec<(String, String, Value)>,
    pub c02_checks: u64,
    pub ops: BTreeMap<&'static str, u64>,
}

impl Mon {
    pub fn new(n: usize) -> Mon {
        Mon {
            n,
            sev: vec![vec![]; n],
            refs: (0..n).map(|_| Ref::default()).collect(),
            dial_ok: vec![HashSet::new(); n],
            dial_err: vec![HashMap::new(); n],
            c02: vec![],
            c02_checks: 0,
            ops: BTreeMap::new(),
        }
    }
    fn op(&mut self, k: &'static str) {
        *self.ops.entry(k).or_insert(0) += 1;
    }

    fn on_event(&mut self, net: &mut Net<B>, i: usize, ev: SwarmEvent<ProbeEvent>) {
        let peers: Vec<PeerId> = net.nodes.iter().map(|n| n.peer).collect();
        let Some(sw) = net.nodes[i].swarm.as_ref() else { return };
        self.on_event_swarm(sw, &peers, i, ev)
    }

    /// same, for a swarm that is not inside a `Net` (multi-threaded mode)
    pub fn on_event_swarm(&mut self, sw: &libp2p_swarm::Swarm<B>, peers: &[PeerId], i: usize, ev: SwarmEvent<ProbeEvent>) {
        let r = &mut self.refs[i];
        let mut carried: Option<(&'static str, u32, u32)> = None;
        let s = match ev {
            SwarmEvent::Dialing { peer_id, connection_id } => {
                r.pending_out.insert(connection_id);
                Some(SEv::Dialing { conn: connection_id, peer: peer_id })
            }
            SwarmEvent::IncomingConnection { connection_id, .. } => {
                r.pending_in.insert(connection_id);
                Some(SEv::Incoming { conn: connection_id })
            }
            SwarmEvent::ConnectionEstablished { peer_id, connection_id, endpoint, num_established, .. } => {
                let outbound = endpoint.is_dialer();
                r.pending_out.remove(&connection_id);
                r.pending_in.remove(&connection_id);
                r.est.entry(peer_id).or_default().insert(connection_id);
                r.dir.insert(connection_id, outbound);
                if outbound { r.est_out += 1 } else { r.est_in += 1 }
                carried = Some(("ConnectionEstablished.num_established", num_established.get(), r.est[&peer_id].len() as u32));
                Some(SEv::Est { conn: connection_id, peer: peer_id, outbound, num: num_established.get() })
            }
            SwarmEvent::ConnectionClosed { peer_id, connection_id, num_established, .. } => {
                if let Some(s) = r.est.get_mut(&peer_id) {
                    s.remove(&connection_id);
                    if s.is_empty() {
                        r.est.remove(&peer_id);
                    }
                }
                match r.dir.remove(&connection_id) {
                    Some(true) => r.est_out = r.est_out.saturating_sub(1),
                    Some(false) => r.est_in = r.est_in.saturating_sub(1),
                    None => {}
                }
                carried = Some(("ConnectionClosed.num_established", num_established, r.est.get(&peer_id).map(|s| s.len()).unwrap_or(0) as u32));
                Some(SEv::Closed { conn: connection_id, peer: peer_id, num: num_established })
            }
            SwarmEvent::OutgoingConnectionError { connection_id, peer_id, error } => {
                r.pending_out.remove(&connection_id);
                Some(SEv::OutErr { conn: connection_id, peer: peer_id, kind: dial_error_kind(&error) })
            }
            SwarmEvent::IncomingConnectionError { connection_id, peer_id, error, .. } => {
                r.pending_in.remove(&connection_id);
                Some(SEv::InErr { conn: connection_id, peer: peer_id, kind: listen_error_kind(&error) })
            }
            _ => None,
        };
        if let Some(s) = s {
            if let Some((what, got, want)) = carried
                && got != want
            {
                self.c02.push((format!("carried-count:{what}"), format!("node {i}: {what} = {got}, history implies {want}"), json!({"event": sev_json(&s)})));
            }
            self.sev[i].push(s.clone());
            self.compare_views_swarm(sw, peers, i, &format!("after event {}", sev_json(&s)));
        }
    }

    /// C02: compare every public view with the reference
    fn compare_views(&mut self, net: &mut Net<B>, i: usize, when: &str) {
        let peers: Vec<PeerId> = net.nodes.iter().map(|n| n.peer).collect();
        let Some(sw) = net.nodes[i].swarm.as_ref() else { return };
        self.compare_views_swarm(sw, &peers, i, when)
    }

    pub fn compare_views_swarm(&mut self, sw: &libp2p_swarm::Swarm<B>, all_peers: &[PeerId], i: usize, when: &str) {
        self.c02_checks += 1;
        let r = &self.refs[i];
        let info = sw.network_info();
        let c = info.connection_counters();
        let mut bad: Vec<(String, String)> = vec![];
        let peers: BTreeSet<PeerId> = sw.connected_peers().copied().collect();
        let want_peers: BTreeSet<PeerId> = r.est.keys().copied().collect();
        if peers != want_peers {
            bad.push(("connected_peers".into(), format!("{} vs reference {}", peers.len(), want_peers.len())));
        }
        if info.num_peers() != want_peers.len() {
            bad.push(("num_peers".into(), format!("{} vs {}", info.num_peers(), want_peers.len())));
        }
        for p in all_peers.iter().copied() {
            if sw.is_connected(&p) != want_peers.contains(&p) {
                bad.push(("is_connected".into(), format!("is_connected({p}) = {}", sw.is_connected(&p))));
            }
        }
        if c.num_established_incoming() != r.est_in {
            bad.push(("num_established_incoming".into(), format!("{} vs {}", c.num_established_incoming(), r.est_in)));
        }
        if c.num_established_outgoing() != r.est_out {
            bad.push(("num_established_outgoing".into(), format!("{} vs {}", c.num_established_outgoing(), r.est_out)));
        }
        if c.num_established() != r.est_in + r.est_out {
            bad.push(("num_established".into(), format!("{} vs {}", c.num_established(), r.est_in + r.est_out)));
        }
        if c.num_pending_outgoing() != r.pending_out.len() as u32 {
            bad.push(("num_pending_outgoing".into(), format!("{} vs {}", c.num_pending_outgoing(), r.pending_out.len())));
        }
        if c.num_pending_incoming() != r.pending_in.len() as u32 {
            bad.push(("num_pending_incoming".into(), format!("{} vs {}", c.num_pending_incoming(), r.pending_in.len())));
        }
        if c.num_pending() != c.num_pending_incoming() + c.num_pending_outgoing() {
            bad.push(("num_pending".into(), format!("{} != in+out", c.num_pending())));
        }
        if c.num_connections() != c.num_pending() + c.num_established() {
            bad.push(("num_connections".into(), format!("{} != pending+established", c.num_connections())));
        }
        for (k, v) in bad {
            let tail: Vec<Value> = self.sev[i].iter().rev().take(12).rev().map(sev_json).collect();
            self.c02.push((format!("view-mismatch:{k}"), format!("node {i} {when}: {k}: {v}"), json!({"node": i, "when": when, "recent_events": tail})));
        }
    }
}

pub struct Setup {
    pub net: Net<B>,
    pub ctl: Vec<ProbeCtl>,
    pub listen: Vec<Vec<(ListenerId, Multiaddr)>>,
    pub mon: Mon,
    /// a node whose transport upgrades every connection in the dialer role: dials towards its listeners are made
    /// with `override_role()` (hole-punching style), so the dialing swarm takes the listener role in the upgrade
    pub reversed: Option<usize>,
}

fn d_addr(a: Multiaddr, ov: bool) -> DialOpts {
    let b = DialOpts::unknown_peer_id().address(a);
    if ov { b.override_role().build() } else { b.build() }
}
fn d_peer(p: PeerId, v: Vec<Multiaddr>, c: PeerCondition, ov: bool) -> DialOpts {
    let b = DialOpts::peer_id(p).addresses(v).condition(c);
    if ov { b.override_role().build() } else { b.build() }
}

fn mem(n: u64) -> Multiaddr {
    Multiaddr::empty().with(Protocol::Memory(n))
}

pub fn setup(rng: &mut Rng, n: usize, chunking: bool) -> Setup {
    let mut net: Net<B> = Net::new(rng.next_u64(), chunking);
    let mut ctl = vec![];
    let mut listen = vec![];
    let reversed = if n >= 3 && rng.chance(1, 4) { Some(n - 1) } else { None };
    for i in 0..n {
        let (probe, c) = Probe::new(i as u8);
        let key = vnet::keypair(rng.next_u64());
        if reversed == Some(i) {
            net.add_node_reversed(key, move |_, _| Recorder::new(probe), |c| c.with_idle_connection_timeout(std::time::Duration::from_secs(3600)));
        } else {
            net.add_node(key, move |_, _| Recorder::new(probe), |c| c.with_idle_connection_timeout(std::time::Duration::from_secs(3600)));
        }
        ctl.push(c);
        let mut ls = vec![];
        for k in 0..(1 + rng.usize(2)) {
            let a = mem(100 + (i as u64) * 10 + k as u64);
            let id = net.swarm(i).listen_on(a.clone()).expect("listen");
            ls.push((id, a));
        }
        listen.push(ls);
    }
    // special routes
    net.board.set_route(&mem(9002), Route::Unsupported);
    for i in 0..n {
        let (id, a) = listen[i][0].clone();
        net.board.alias(&mem(7000 + i as u64), &a);
        net.board.set_route(&mem(8000 + i as u64), Route::Cut { node: i, id, after: rng.below(70) });
        net.board.set_route(&mem(9100 + i as u64), Route::Manual);
        net.board.set_route(&mem(9200 + i as u64), Route::Manual);
    }
    Setup { net, ctl, listen, mon: Mon::new(n), reversed }
}

impl Setup {
    pub fn run_steps(&mut self, k: u64) {
        let mon = &mut self.mon;
        let mut sink = |net: &mut Net<B>, i: usize, ev: SwarmEvent<ProbeEvent>| mon.on_event(net, i, ev);
        for _ in 0..k {
            if self.net.step(&mut sink).is_none() {
                break;
            }
        }
    }
    pub fn quiesce(&mut self, max: u64) -> bool {
        let mon = &mut self.mon;
        let mut sink = |net: &mut Net<B>, i: usize, ev: SwarmEvent<ProbeEvent>| mon.on_event(net, i, ev);
        self.net.run(max, &mut sink)
    }

    fn app_dial(&mut self, i: usize, opts: DialOpts, kind: &'static str) {
        if !self.net.nodes[i].alive() {
            return;
        }
        self.mon.op(kind);
        let id = opts.connection_id();
        let res = self.net.swarm(i).dial(opts);
        self.net.touch(i);
        match res {
            Ok(()) => {
                self.mon.dial_ok[i].insert(id);
                self.mon.refs[i].pending_out.insert(id);
            }
            Err(e) => {
                self.mon.dial_err[i].insert(id, dial_error_kind(&e));
            }
        }
        self.mon.compare_views(&mut self.net, i, &format!("after dial() [{kind}]"));
    }

    fn good_addr(&self, rng: &mut Rng, j: usize) -> Multiaddr {
        let ls = &self.listen[j];
        ls[rng.usize(ls.len())].1.clone()
    }

    fn established(&self, i: usize) -> Vec<(PeerId, ConnectionId)> {
        self.mon.refs[i].est.iter().flat_map(|(p, s)| s.iter().map(|c| (*p, *c))).collect()
    }

    /// one random op
    pub fn random_op(&mut self, rng: &mut Rng) {
        let n = self.net.nodes.len();
        let i = rng.usize(n);
        let mut j = rng.usize(n);
        if j == i {
            j = (j + 1) % n;
        }
        let pj = self.net.peer(j);
        let (ovj, ovi) = (self.reversed == Some(j), self.reversed == Some(i));
        let w = [14u32, 12, 5, 5, 3, 4, 4, 6, 5, 6, 8, 6, 7, 7, 5, 8, 3, 1, 1, 6, 30];
        match rng.weighted(&w) {
            0 => {
                let a = self.good_addr(rng, j);
                self.app_dial(i, d_addr(a, ovj), "dial_addr");
            }
            1 => {
                let a = self.good_addr(rng, j);
                self.app_dial(i, d_peer(pj, vec![a], PeerCondition::Always, ovj), "dial_peer_addr");
            }
            2 => {
                // wrong peer: expect k but address of j
                let k = (j + 1 + rng.usize(n.max(2) - 1)) % n;
                let pk = if k == j { PeerId::random() } else { self.net.peer(k) };
                let a = self.good_addr(rng, j);
                self.app_dial(i, d_peer(pk, vec![a], PeerCondition::Always, ovj), "dial_wrong_peer");
            }
            3 => self.app_dial(i, DialOpts::unknown_peer_id().address(mem(9001)).build(), "dial_refused"),
            4 => self.app_dial(i, DialOpts::unknown_peer_id().address(mem(9002)).build(), "dial_unsupported"),
            5 => {
                // self via alias (with or without expected peer)
                let a = mem(7000 + i as u64);
                let o = if rng.bool() { d_addr(a, ovi) } else { d_peer(self.net.peer(i), vec![a], PeerCondition::Always, ovi) };
                self.app_dial(i, o, "dial_self");
            }
            6 => self.app_dial(i, DialOpts::peer_id(pj).condition(PeerCondition::Always).build(), "dial_no_addresses"),
            7 => {
                let a = self.good_addr(rng, j);
                let mut v = vec![mem(9001), a, mem(9003)];
                rng.shuffle(&mut v);
                self.app_dial(i, d_peer(pj, v, PeerCondition::Always, ovj), "dial_multi");
            }
            8 => {
                let a = mem(8000 + j as u64);
                let o = if rng.bool() { d_addr(a, ovj) } else { d_peer(pj, vec![a], PeerCondition::Always, ovj) };
                self.app_dial(i, o, "dial_handshake_cut");
            }
            9 => {
                let a = mem(9100 + rng.below(n as u64) + if rng.bool() { 100 } else { 0 });
                let o = if rng.bool() { DialOpts::unknown_peer_id().address(a).build() } else { DialOpts::peer_id(pj).addresses(vec![a]).condition(PeerCondition::Always).build() };
                self.app_dial(i, o, "dial_manual");
            }
            10 => {
                let a = self.good_addr(rng, j);
                let c = *rng.pick(&[PeerCondition::Disconnected, PeerCondition::NotDialing, PeerCondition::DisconnectedAndNotDialing]);
                self.app_dial(i, d_peer(pj, vec![a], c, ovj), "dial_conditional");
            }
            11 => {
                // behaviour-initiated dial
                if !self.net.nodes[i].alive() {
                    return;
                }
                self.mon.op("behaviour_dial");
                let o = match rng.usize(4) {
                    0 => d_peer(pj, vec![self.good_addr(rng, j)], PeerCondition::Always, ovj),
                    1 => DialOpts::unknown_peer_id().address(mem(9001)).build(),
                    2 => DialOpts::peer_id(pj).condition(PeerCondition::Always).build(),
                    _ => d_peer(pj, vec![self.good_addr(rng, j)], PeerCondition::DisconnectedAndNotDialing, ovj),
                };
                self.ctl[i].push(ToSwarm::Dial { opts: o });
            }
            12 => {
                // resolve a manual dial
                let p = self.net.board.pending_manual();
                if !p.is_empty() {
                    self.mon.op("resolve_manual");
                    let d = p[rng.usize(p.len())];
                    // manual dials were built without override_role: never connect them to the role-reversed node
                    let o = if rng.bool() || ovj { Outcome::Fail } else { Outcome::ConnectTo(self.good_addr(rng, j)) };
                    self.net.board.resolve(d, o);
                }
            }
            13 => {
                let e = self.established(i);
                if !e.is_empty() && self.net.nodes[i].alive() {
                    self.mon.op("close_connection");
                    let (_, c) = e[rng.usize(e.len())];
                    self.net.swarm(i).close_connection(c);
                    self.net.touch(i);
                }
            }
            14 => {
                if self.net.nodes[i].alive() {
                    self.mon.op("disconnect_peer_id");
                    let _ = self.net.swarm(i).disconnect_peer_id(pj);
                    self.net.touch(i);
                    self.mon.compare_views(&mut self.net, i, "after disconnect_peer_id");
                }
            }
            15 => {
                // toggle a denial script
                if !self.net.nodes[i].alive() {
                    return;
                }
                self.mon.op("set_deny");
                let mut r = Rng::new(rng.next_u64());
                let pts = [Point::PendingInbound, Point::PendingOutbound, Point::EstablishedInbound, Point::EstablishedOutbound];
                let pt = *rng.pick(&pts);
                let prob = rng.range(1, 3);
                let f: Option<vnet::recorder::DenyFn> = if rng.chance(1, 4) { None } else { Some(Box::new(move |d| d.point == pt && r.chance(prob, 3))) };
                self.net.swarm(i).behaviour().set_deny(f);
            }
            16 => {
                let e = self.established(i);
                if !e.is_empty() && self.net.nodes[i].alive() {
                    self.mon.op("behaviour_close");
                    let (p, c) = e[rng.usize(e.len())];
                    let connection = if rng.bool() { CloseConnection::One(c) } else { CloseConnection::All };
                    self.ctl[i].push(ToSwarm::CloseConnection { peer_id: p, connection });
                }
            }
            17 => {
                if self.net.nodes.iter().filter(|n| n.alive()).count() > 2 && self.net.nodes[i].alive() {
                    self.mon.op(if rng.bool() { "drop_swarm" } else { "kill_node" });
                    if rng.bool() { self.net.drop_swarm(i) } else { self.net.kill_node(i) }
                }
            }
            18 => {
                if self.net.nodes[i].alive() && self.listen[i].len() > 1 {
                    self.mon.op("remove_listener");
                    let (id, _) = self.listen[i].pop().unwrap();
                    self.net.swarm(i).remove_listener(id);
                    self.net.touch(i);
                }
            }
            19 => {
                // behaviour notifies / closes towards peers it may not be connected to (or a connection id that does
                // not exist): none of this may change any view
                if !self.net.nodes[i].alive() {
                    return;
                }
                self.mon.op("behaviour_notify_or_close_unconnected");
                let peer = if rng.chance(1, 4) { PeerId::random() } else { pj };
                let bogus = ConnectionId::new_unchecked(rng.range(900_000_000, 900_000_100) as usize);
                let ev = match rng.usize(4) {
                    0 => ToSwarm::NotifyHandler { peer_id: peer, handler: libp2p_swarm::NotifyHandler::Any, event: vnet::ProbeIn { emitter: i as u8, seq: rng.next_u64() } },
                    1 => ToSwarm::NotifyHandler { peer_id: peer, handler: libp2p_swarm::NotifyHandler::One(bogus), event: vnet::ProbeIn { emitter: i as u8, seq: rng.next_u64() } },
                    2 => ToSwarm::CloseConnection { peer_id: peer, connection: CloseConnection::One(bogus) },
                    _ => ToSwarm::CloseConnection { peer_id: PeerId::random(), connection: CloseConnection::All },
                };
                self.ctl[i].push(ev);
                self.run_steps(rng.range(1, 6));
                self.mon.compare_views(&mut self.net, i, "after behaviour NotifyHandler/CloseConnection towards an unconnected peer");
            }
            _ => {
                let k = rng.range(1, 25);
                self.run_steps(k);
            }
        }
    }

    /// resolve everything, close everything, run to quiescence
    pub fn finish(&mut self, rng: &mut Rng) -> bool {
        for round in 0..6 {
            if !self.quiesce(200_000) {
                return false;
            }
            for d in self.net.board.pending_manual() {
                self.net.board.resolve(d, Outcome::Fail);
            }
            if round >= 1 {
                for i in 0..self.net.nodes.len() {
                    if !self.net.nodes[i].alive() {
                        continue;
                    }
                    self.net.swarm(i).behaviour().set_deny(None);
                    let peers: Vec<PeerId> = self.net.swarm(i).connected_peers().copied().collect();
                    for p in peers {
                        if rng.bool() {
                            let _ = self.net.swarm(i).disconnect_peer_id(p);
                        } else {
                            for (q, c) in self.established(i) {
                                if q == p {
                                    self.net.swarm(i).close_connection(c);
                                }
                            }
                        }
                    }
                    self.net.touch(i);
                }
            }
        }
        self.quiesce(200_000) && self.net.board.pending_manual().is_empty()
    }
}

#[derive(PartialEq, Eq, Clone, Copy, Debug)]
enum St {
    Issued,
    Established,
    Failed,
    Closed,
}

/// C01 offline checker over one node's logs. Returns (signature, what) list.
pub fn check_c01(i: usize, sev: &[SEv], bev: &[BEv], dial_ok: &HashSet<ConnectionId>, dial_err: &HashMap<ConnectionId, String>, complete: bool) -> Vec<(String, String)> {
    let mut out = vec![];
    let mut st: HashMap<ConnectionId, St> = HashMap::new();
    let mut outbound: HashMap<ConnectionId, bool> = HashMap::new();
    for c in dial_ok {
        st.insert(*c, St::Issued);
        outbound.insert(*c, true);
    }
    // ids denied at the pending-inbound point are issued there
    let denied_pending_in: HashSet<ConnectionId> = bev.iter().filter_map(|e| if let BEv::PendingInbound { conn, denied: true, .. } = e { Some(*conn) } else { None }).collect();
    let denied_pending_out: HashSet<ConnectionId> = bev.iter().filter_map(|e| if let BEv::PendingOutbound { conn, denied: true, .. } = e { Some(*conn) } else { None }).collect();
    // ids whose dial failed synchronously (application dial() Err, or behaviour dial failing inside Swarm::dial)
    let mut sync_failed: HashSet<ConnectionId> = dial_err.keys().copied().collect();
    for e in bev {
        if let BEv::DialFailure { conn, error, .. } = e {
            if error == "DialPeerConditionFalse" || error == "NoAddresses" || (error == "Denied" && denied_pending_out.contains(conn)) {
                sync_failed.insert(*conn);
            }
        }
    }
    for (k, e) in sev.iter().enumerate() {
        let conn = match e {
            SEv::Dialing { conn, .. } | SEv::Incoming { conn } | SEv::Est { conn, .. } | SEv::Closed { conn, .. } | SEv::OutErr { conn, .. } | SEv::InErr { conn, .. } => *conn,
        };
        if sync_failed.contains(&conn) {
            out.push(("event-for-sync-failed-dial".to_string(), format!("node {i}: event #{k} {:?} for a dial that failed synchronously", sev_json(e))));
            continue;
        }
        let cur = st.get(&conn).copied();
        match e {
            SEv::Dialing { .. } => match cur {
                None => {
                    st.insert(conn, St::Issued);
                    outbound.insert(conn, true);
                }
                Some(_) => out.push(("dialing-duplicate".into(), format!("node {i}: Dialing for already known id {conn}"))),
            },
            SEv::Incoming { .. } => match cur {
                None => {
                    st.insert(conn, St::Issued);
                    outbound.insert(conn, false);
                }
                Some(_) => out.push(("incoming-duplicate".into(), format!("node {i}: IncomingConnection for already known id {conn}"))),
            },
            SEv::Est { outbound: ob, .. } => match cur {
                Some(St::Issued) => {
                    if outbound.get(&conn) != Some(ob) {
                        out.push(("established-wrong-direction".into(), format!("node {i}: {conn} established with direction outbound={ob}")));
                    }
                    st.insert(conn, St::Established);
                }
                None => out.push(("established-unissued".into(), format!("node {i}: ConnectionEstablished for id {conn} that was never handed out"))),
                Some(s) => out.push((format!("established-after-{s:?}").to_lowercase(), format!("node {i}: ConnectionEstablished for {conn} in state {s:?}"))),
            },
            SEv::Closed { .. } => match cur {
                Some(St::Established) => {
                    st.insert(conn, St::Closed);
                }
                None => out.push(("closed-unissued".into(), format!("node {i}: ConnectionClosed for unknown id {conn}"))),
                Some(s) => out.push((format!("closed-after-{s:?}").to_lowercase(), format!("node {i}: ConnectionClosed for {conn} in state {s:?}"))),
            },
            SEv::OutErr { .. } => match cur {
                Some(St::Issued) if outbound.get(&conn) == Some(&true) => {
                    st.insert(conn, St::Failed);
                }
                Some(St::Issued) => out.push(("outerr-for-inbound".into(), format!("node {i}: OutgoingConnectionError for inbound id {conn}"))),
                None => out.push(("outerr-unissued".into(), format!("node {i}: OutgoingConnectionError for id {conn} never handed out"))),
                Some(s) => out.push((format!("outerr-after-{s:?}").to_lowercase(), format!("node {i}: OutgoingConnectionError for {conn} in state {s:?}"))),
            },
            SEv::InErr { .. } => match cur {
                Some(St::Issued) if outbound.get(&conn) == Some(&false) => {
                    st.insert(conn, St::Failed);
                }
                Some(St::Issued) => out.push(("inerr-for-outbound".into(), format!("node {i}: IncomingConnectionError for outbound id {conn}"))),
                None if denied_pending_in.contains(&conn) => {
                    st.insert(conn, St::Failed);
                    outbound.insert(conn, false);
                }
                None => out.push(("inerr-unissued".into(), format!("node {i}: IncomingConnectionError for id {conn} never handed out"))),
                Some(s) => out.push((format!("inerr-after-{s:?}").to_lowercase(), format!("node {i}: IncomingConnectionError for {conn} in state {s:?}"))),
            },
        }
    }
    if complete {
        for (c, s) in &st {
            match s {
                St::Issued => out.push(("id-never-resolved".into(), format!("node {i}: id {c} handed out but never established nor failed by the end of the history"))),
                St::Established => out.push(("established-never-closed".into(), format!("node {i}: id {c} established but no ConnectionClosed after everything was closed"))),
                _ => {}
            }
        }
        for c in &denied_pending_in {
            if !st.contains_key(c) {
                out.push(("denied-inbound-no-error-event".into(), format!("node {i}: id {c} denied at pending-inbound but no IncomingConnectionError")));
            }
        }
    }
    // sync-failed dials: exactly one DialFailure each
    for c in &sync_failed {
        let n = bev.iter().filter(|e| matches!(e, BEv::DialFailure { conn, .. } if conn == c)).count();
        if n != 1 {
            out.push(("sync-failed-dial-failure-count".into(), format!("node {i}: dial {c} failed synchronously but behaviour saw {n} DialFailure")));
        }
    }
    // same lifecycle, same order: projection of FromSwarm == projection of SwarmEvents
    let a: Vec<String> = bev
        .iter()
        .filter_map(|e| match e {
            BEv::ConnectionEstablished { conn, peer, outbound, .. } => Some(format!("E:{conn}:{peer}:{outbound}")),
            BEv::ConnectionClosed { conn, peer, remaining, .. } => Some(format!("C:{conn}:{peer}:{remaining}")),
            BEv::DialFailure { conn, peer, error } if !sync_failed.contains(conn) => Some(format!("D:{conn}:{peer:?}:{error}")),
            BEv::ListenFailure { conn, peer, error, .. } => Some(format!("L:{conn}:{peer:?}:{error}")),
            _ => None,
        })
        .collect();
    let b: Vec<String> = sev
        .iter()
        .filter_map(|e| match e {
            SEv::Est { conn, peer, outbound, .. } => Some(format!("E:{conn}:{peer}:{outbound}")),
            SEv::Closed { conn, peer, num } => Some(format!("C:{conn}:{peer}:{num}")),
            SEv::OutErr { conn, peer, kind } => Some(format!("D:{conn}:{peer:?}:{kind}")),
            SEv::InErr { conn, peer, kind } => Some(format!("L:{conn}:{peer:?}:{kind}")),
            _ => None,
        })
        .collect();
    // the behaviour may be ahead of the application by the events still queued inside the swarm only if
    // the history is incomplete; at the end (complete) they must be equal; otherwise `b` must be a prefix of `a`
    let prefix_ok = b.len() <= a.len() && a[..b.len()] == b[..];
    if (complete && a != b) || !prefix_ok {
        let k = a.iter().zip(b.iter()).position(|(x, y)| x != y).unwrap_or(a.len().min(b.len()));
        out.push((
            "behaviour-app-lifecycle-differ".into(),
            format!("node {i}: FromSwarm lifecycle and SwarmEvent lifecycle differ at position {k}: behaviour {:?} vs application {:?}", a.get(k), b.get(k)),
        ));
    }
    out
}

pub struct CaseOut {
    pub sig: u64,
    pub interleaving: u64,
    pub events: u64,
    pub established: u64,
    pub closed: u64,
    pub errors: u64,
    pub c01: Vec<(String, String, Value)>,
    pub c02: Vec<(String, String, Value)>,
    pub c02_checks: u64,
    pub ops: BTreeMap<&'static str, u64>,
    pub quiescent: bool,
    pub sample: Value,
}

pub fn run_case(rng: &mut Rng, max_ops: usize) -> CaseOut {
    let n = 2 + rng.usize(4);
    let chunking = rng.chance(1, 3);
    let mut s = setup(rng, n, chunking);
    s.run_steps(rng.range(0, 30));
    let ops = rng.range(max_ops as u64 / 2, max_ops as u64);
    for _ in 0..ops {
        s.random_op(rng);
    }
    let quiescent = s.finish(rng);
    let mut c01 = vec![];
    let mut sig = Sig::new();
    let (mut est, mut closed, mut errors, mut events) = (0, 0, 0, 0);
    for i in 0..n {
        // take the behaviour log; for dropped swarms the Recorder is gone: use what the probe field logged
        let bev: Vec<BEv> = match s.net.nodes[i].swarm.as_ref() {
            Some(sw) => sw.behaviour().log.lock().unwrap().clone(),
            None => continue,
        };
        for e in &s.mon.sev[i] {
            events += 1;
            match e {
                SEv::Est { outbound, .. } => {
                    est += 1;
                    sig.push_u64(if *outbound { 11 } else { 12 });
                }
                SEv::Closed { .. } => {
                    closed += 1;
                    sig.push_u64(13);
                }
                SEv::OutErr { kind, .. } | SEv::InErr { kind, .. } => {
                    errors += 1;
                    sig.push_str(kind);
                }
                SEv::Dialing { .. } => sig.push_u64(14),
                SEv::Incoming { .. } => sig.push_u64(15),
            }
        }
        sig.push_u64(99);
        for (k, what) in check_c01(i, &s.mon.sev[i], &bev, &s.mon.dial_ok[i], &s.mon.dial_err[i], quiescent) {
            let tail: Vec<Value> = s.mon.sev[i].iter().map(sev_json).collect();
            let btail: Vec<String> = bev.iter().filter(|e| e.is_lifecycle() || matches!(e, BEv::PendingInbound { .. } | BEv::PendingOutbound { .. } | BEv::EstablishedInbound { .. } | BEv::EstablishedOutbound { .. })).map(|e| format!("{e:?}").chars().take(160).collect()).collect();
            c01.push((k, what, json!({"node": i, "swarm_events": tail, "behaviour_events": btail})));
        }
    }
    let sample = json!({
        "nodes": n, "chunking": chunking, "ops": s.mon.ops,
        "node0_events": s.mon.sev[0].iter().take(30).map(sev_json).collect::<Vec<_>>(),
    });
    CaseOut {
        sig: sig.0,
        interleaving: s.net.trace.0,
        events,
        established: est,
        closed,
        errors,
        c01,
        c02: std::mem::take(&mut s.mon.c02),
        c02_checks: s.mon.c02_checks,
        ops: s.mon.ops.clone(),
        quiescent,
        sample,
    }
}

fn run_common(args: &Args, which: &str) -> i32 {
    let check = Check::new(
        args,
        "exploration",
        "PRNG histories over 2-5 real swarms (dials of 12 kinds, denials at 4 points, closes, drops, listener removal) under a PRNG task/swarm \
         scheduler with optional byte-level chunking; non-trivial = history with >= 1 established, >= 1 closed and >= 1 failed connection; \
         distinct by the sequence of lifecycle event kinds per node",
    );
    let cases = if args.extra.get("budget").map(|s| s == "tiny").unwrap_or(false) { 150 } else { args.tier.pick(4_000, 400_000) };
    let max_ops = args.tier.pick(40, 60);
    // second mode: real threads (swarm threads + ThreadPool executor) instead of the PRNG scheduler
    let mt_cases = if args.extra.get("budget").map(|s| s == "tiny").unwrap_or(false) { 4 } else { args.tier.pick(40u64, 3_000) };
    if check.only_case.is_none() {
        crate::mt::run_into(&check, which, mt_cases, 3);
    }
    vmon::par_cases_timed(&check, cases, args.threads, args.tier.pick(30.0, 420.0), |_, rng| {
        let o = run_case(rng, max_ops);
        check.case(o.sig, o.established > 0 && o.closed > 0 && o.errors > 0);
        check.distinct("distinct_interleavings", o.interleaving);
        check.count("events_observed", o.events);
        check.count("connections_established", o.established);
        check.count("connections_closed", o.closed);
        check.count("connection_errors", o.errors);
        check.count("view_comparisons", o.c02_checks);
        for (k, v) in &o.ops {
            check.count(&format!("op_{k}"), *v);
        }
        if !o.quiescent {
            check.inconclusive("history did not reach quiescence within the step budget");
        }
        let v = if which == "C01" { &o.c01 } else { &o.c02 };
        for (sig, what, wit) in v {
            check.violation(sig.clone(), what.clone(), wit.clone());
        }
        if check.want_sample() && o.established > 0 {
            check.sample(o.sample);
        }
    });
    check.finish()
}

pub fn run_c01(args: &Args) -> i32 {
    run_common(args, "C01")
}
pub fn run_c02(args: &Args) -> i32 {
    run_common(args, "C02")
}
