//! C10 — idle connections close only when truly idle.
//!
//! Node 0 (Probe handlers, keep-alive off unless commanded) with `with_idle_connection_timeout(T)`,
//! T in {0, 30 ms, 80 ms}; node 1 never closes on its own (keep-alive on, 1 h timeout). The harness
//! drives node 0's handlers with commands that are consumed *inside* `ConnectionHandler::poll` (open
//! stream, drop stream, mark stream ignore_for_keep_alive, flip keep-alive) and lets node 1 open streams
//! towards node 0, one scheduler step at a time.
//!
//! Safety oracle (logical order, no clocks): before every scheduler step the monitor computes, from the
//! handler's shared state, whether connection c is *busy* (keep-alive flag set, or a held stream that is
//! neither ignored nor about to be dropped/ignored, or an outstanding outbound request, or an Open
//! command waiting to be polled). If the step in which the connection task starts closing (the
//! handler's `poll_close` is reached) began with c busy and the close is reported as KeepAliveTimeout,
//! that is a violation.
//! Timing oracle (one-sided stamps): `t_idle_before` is taken before issuing the action after which the
//! busy ledger is empty; `t_close_after` after observing ConnectionClosed{KeepAliveTimeout};
//! `t_close_after - t_idle_before < T` is a violation (delays can only hide, never create one).
//! Bounded progress (few cases): after the ledger is empty and the net has been quiescent without any
//! timer wake-up for 2T + 2 s, the connection must have been closed; otherwise it is a violation
//! ("idle connection never closed"); this uses the wake-hub, not a deadline on the close itself.
use std::{
    collections::HashMap,
    time::{Duration, Instant},
};

use libp2p_core::{Multiaddr, multiaddr::Protocol};
use libp2p_swarm::{ConnectionId, SwarmEvent, dial_opts::DialOpts};
use vmon::{Args, Check, Rng, Sig, json};
use vnet::{HCmd, HEv, HandlerCtl, Net, Pick, Probe, ProbeEvent};

fn mem(n: u64) -> Multiaddr {
    Multiaddr::empty().with(Protocol::Memory(n))
}

fn busy(h: &HandlerCtl) -> bool {
    h.with(|x| {
        if x.dropped {
            return false;
        }
        let mut to_release: Vec<u64> = vec![];
        let mut keep = x.keep_alive;
        let mut open_cmd = false;
        for c in &x.cmds {
            match c {
                HCmd::DropStream(t) | HCmd::IgnoreStream(t) => to_release.push(*t),
                HCmd::SetKeepAlive(k) => keep = *k, // conservative: a pending flip to false makes it non-busy
                HCmd::Open { .. } => open_cmd = true,
                _ => {}
            }
        }
        // a pending SetKeepAlive(true) followed by nothing else keeps it busy; pending false => not counted
        keep || open_cmd || !x.outstanding_opens.is_empty() || x.streams.keys().any(|t| !x.ignored.contains(t) && !to_release.contains(t))
    })
}

/// busy as the connection task itself sees it at the end of a poll (no pending commands considered)
fn busy_actual(h: &HandlerCtl) -> bool {
    h.with(|x| !x.dropped && (x.keep_alive || !x.outstanding_opens.is_empty() || x.streams.keys().any(|t| !x.ignored.contains(t))))
}

pub fn run(args: &Args) -> i32 {
    let check = Check::new(
        args,
        "exploration",
        "PRNG histories of handler commands (open/drop/ignore stream, keep-alive flips, remote-opened streams) against idle timeouts 0/30/80 ms, \
         one scheduler step at a time; non-trivial = history in which the connection was busy at least once and later closed with \
         KeepAliveTimeout; distinct by (T, op sequence hash)",
    );
    let cases = args.tier.pick(600u64, 30_000);
    let progress_every = args.tier.pick(100u64, 400);
    let only: Option<u64> = args.extra.get("case").and_then(|s| s.parse().ok());
    vmon::par_cases_timed(&check, cases, args.threads, args.tier.pick(35.0, 420.0), |case_idx, rng: &mut Rng| {
        if only.is_some() && only != Some(case_idx) {
            return;
        }
        let t0 = Instant::now();
        let dbg = only.is_some();
        let t = [Duration::ZERO, Duration::from_millis(30), Duration::from_millis(80)][rng.usize(3)];
        let mut net: Net<Probe> = Net::new(rng.next_u64(), false);
        let mut ctls = vec![];
        for i in 0..2 {
            let (p, c) = Probe::new(i as u8);
            c.with(|s| s.default_keep_alive = i == 1);
            ctls.push(c);
            let to = if i == 0 { t } else { Duration::from_secs(3600) };
            net.add_node(vnet::keypair(rng.next_u64()), move |_, _| p, move |c| c.with_idle_connection_timeout(to));
            net.swarm(i).listen_on(mem(100 + i as u64)).unwrap();
        }
        // node 0 starts with keep-alive ON so that the connection survives until the script decides
        ctls[0].with(|s| s.default_keep_alive = true);
        let mut closed: HashMap<ConnectionId, (String, Instant)> = HashMap::new();
        let mut est: Vec<ConnectionId> = vec![];
        macro_rules! sink {
            () => {
                &mut |_: &mut Net<Probe>, i: usize, ev: SwarmEvent<ProbeEvent>| {
                    if i == 0 {
                        match ev {
                            SwarmEvent::ConnectionEstablished { connection_id, .. } => est.push(connection_id),
                            SwarmEvent::ConnectionClosed { connection_id, cause, .. } => {
                                closed.insert(connection_id, (format!("{cause:?}"), Instant::now()));
                            }
                            _ => {}
                        }
                    }
                }
            };
        }
        net.swarm(0).dial(DialOpts::unknown_peer_id().address(mem(101)).build()).unwrap();
        net.touch(0);
        net.run(100_000, sink!());
        let Some(conn) = est.first().copied() else {
            check.inconclusive("setup: no connection");
            return;
        };
        let h0 = ctls[0].handler(conn).expect("handler 0");
        let peer0 = net.peer(0);
        let h1 = ctls[1].with(|p| p.handlers.values().find(|h| h.with(|x| x.peer == peer0)).cloned());
        let Some(h1) = h1 else {
            check.inconclusive("setup: no remote handler");
            return;
        };
        // ledger of what the harness commanded (the "busy set" by its own actions)
        let mut ledger_keep = true;
        let mut ledger_streams: Vec<u64> = vec![]; // non-ignored held streams we know of
        let mut ledger_opens = 0u64; // opens commanded and not yet seen resolved
        let mut half_closes = 0u64;
        let mut idle_stamp: Option<Instant> = None;
        let mut was_busy_then_idle = false;
        let mut sig = Sig::new().u64(t.as_millis() as u64);
        let mut tag = 10u64;
        let mut busy_close = false;
        let mut saw_pollclose = false;
        let n_ops = rng.range(6, 30);
        let mut ops_log: Vec<String> = vec![];
        let mut step_guard = |net: &mut Net<Probe>, k: u64, est: &mut Vec<ConnectionId>, closed: &mut HashMap<ConnectionId, (String, Instant)>, saw_pollclose: &mut bool, busy_close: &mut bool, idle_stamp: &mut Option<Instant>| {
            for _ in 0..k {
                let b = busy(&h0);
                let polls_before = h0.with(|x| x.polls);
                let mut sink = |_: &mut Net<Probe>, i: usize, ev: SwarmEvent<ProbeEvent>| {
                    if i == 0 {
                        match ev {
                            SwarmEvent::ConnectionEstablished { connection_id, .. } => est.push(connection_id),
                            SwarmEvent::ConnectionClosed { connection_id, cause, .. } => {
                                closed.insert(connection_id, (format!("{cause:?}"), Instant::now()));
                            }
                            _ => {}
                        }
                    }
                };
                let pick = net.step(&mut sink);
                if !*saw_pollclose && h0.with(|x| x.log.iter().any(|e| matches!(e, HEv::PollClose))) {
                    *saw_pollclose = true;
                    if b && matches!(pick, Some(Pick::Task(0, _))) {
                        *busy_close = true;
                    }
                }
                // the stamp is only discarded once the connection task itself has *observed* the busy state
                // (the handler was polled in this step and the poll ended with the connection busy): flips that the task never saw
                // do not restart its idle timer.
                if dbg && h0.with(|x| x.polls) != polls_before {
                    eprintln!("[{:?}] conn task polled: busy_actual={} log_tail={:?}", t0.elapsed(), busy_actual(&h0), h0.with(|x| x.log.iter().rev().take(2).map(|e| format!("{e:?}")).collect::<Vec<_>>()));
                }
                if h0.with(|x| x.polls) != polls_before && busy_actual(&h0) {
                    *idle_stamp = None;
                }
                if pick.is_none() {
                    break;
                }
            }
        };
        for _ in 0..n_ops {
            if closed.contains_key(&conn) {
                break;
            }
            // refresh ledger from handler log (streams that arrived / opens that resolved)
            let (held, outstanding): (Vec<u64>, usize) = h0.with(|x| (x.streams.keys().filter(|t| !x.ignored.contains(t)).copied().collect(), x.outstanding_opens.len()));
            ledger_streams = held;
            ledger_opens = outstanding as u64 + h0.with(|x| x.cmds.iter().filter(|c| matches!(c, HCmd::Open { .. })).count() as u64);
            let op = rng.weighted(&[10, 10, 6, 8, 8, 8, 6, 30]);
            sig.push_u64(op as u64);
            let before = Instant::now();
            let busy_before_op = busy(&h0);
            match op {
                0 => {
                    tag += 1;
                    ops_log.push(format!("open({tag})"));
                    h0.cmd(HCmd::Open { proto: "/probe/1".into(), tag });
                    ledger_opens += 1;
                }
                1 => {
                    if let Some(tg) = ledger_streams.first().copied() {
                        ops_log.push(format!("drop({tg})"));
                        h0.cmd(HCmd::DropStream(tg));
                        ledger_streams.retain(|x| *x != tg);
                    }
                }
                2 => {
                    if let Some(tg) = ledger_streams.last().copied() {
                        ops_log.push(format!("ignore({tg})"));
                        h0.cmd(HCmd::IgnoreStream(tg));
                        ledger_streams.retain(|x| *x != tg);
                    }
                }
                3 => {
                    ops_log.push("keep_alive(false)".into());
                    h0.cmd(HCmd::SetKeepAlive(false));
                    ledger_keep = false;
                }
                4 => {
                    ops_log.push("keep_alive(true)".into());
                    h0.cmd(HCmd::SetKeepAlive(true));
                    ledger_keep = true;
                }
                5 => {
                    // remote opens a stream towards node 0 (arrives asynchronously: makes node 0 busier, never less busy)
                    tag += 1;
                    ops_log.push(format!("remote_open({tag})"));
                    h1.cmd(HCmd::Open { proto: "/probe/0".into(), tag });
                    // arrival time unknown: not part of the ledger; if it arrives the task observes busy and the stamp is discarded
                }
                6 => {
                    // the handler closes the write half of a stream it keeps holding (request sent, response awaited):
                    // the stream stays active, the ledger does not change
                    if let Some(tg) = ledger_streams.first().copied() {
                        ops_log.push(format!("half_close({tg})"));
                        h0.cmd(HCmd::HalfClose(tg));
                        half_closes += 1;
                    }
                }
                _ => {
                    let k = rng.range(1, 30);
                    step_guard(&mut net, k, &mut est, &mut closed, &mut saw_pollclose, &mut busy_close, &mut idle_stamp);
                    if rng.chance(1, 4) && !t.is_zero() {
                        // let real time pass so that timers can fire between ops
                        std::thread::sleep(Duration::from_millis(rng.range(1, 2 * t.as_millis() as u64 + 5)));
                    }
                    continue;
                }
            }
            // the monitor's busy ledger = handler state + commands already queued (they are all consumed by the
            // next handler poll). A stamp is taken only when *this* action empties the ledger: if it was already
            // empty (e.g. an outstanding request failed asynchronously) the idle start is unknown -> no timing verdict.
            let ledger_busy = busy(&h0);
            if dbg {
                eprintln!("[{:?}] op {:?} busy_before={busy_before_op} ledger_busy={ledger_busy} stamp={:?}", t0.elapsed(), ops_log.last(), idle_stamp.map(|s| s.duration_since(t0)));
            }
            if busy_before_op && !ledger_busy && idle_stamp.is_none() {
                idle_stamp = Some(before);
                was_busy_then_idle = true;
            }
            let _ = (ledger_keep, &ledger_streams, ledger_opens);
        }
        // finish: make it idle for sure, then let it close
        if !closed.contains_key(&conn) {
            let before = Instant::now();
            let busy_before_final = busy(&h0);
            let held: Vec<u64> = h0.with(|x| x.streams.keys().copied().collect());
            for tg in held {
                h0.cmd(HCmd::DropStream(tg));
            }
            h0.cmd(HCmd::SetKeepAlive(false));
            ops_log.push("final: drop all, keep_alive(false)".into());
            if busy_before_final && !busy(&h0) && idle_stamp.is_none() {
                idle_stamp = Some(before);
                was_busy_then_idle = true;
            }
        }
        let progress_case = case_idx % progress_every == 0;
        let idle_window = if progress_case { 2 * t + Duration::from_secs(2) } else { 2 * t + Duration::from_millis(40) };
        // step-wise settle so that the busy-at-close monitor keeps watching
        let mut quiet_rounds = 0;
        let mut steps = 0u64;
        loop {
            step_guard(&mut net, 5_000, &mut est, &mut closed, &mut saw_pollclose, &mut busy_close, &mut idle_stamp);
            steps += 1;
            if closed.contains_key(&conn) || steps > 200 {
                break;
            }
            // inbound streams opened by the remote may arrive late and are held by node 0: drop them again
            let late: Vec<u64> = h0.with(|x| x.streams.keys().copied().collect());
            if !late.is_empty() {
                let before = Instant::now();
                let was = busy(&h0);
                for tg in late {
                    h0.cmd(HCmd::DropStream(tg));
                }
                if was && !busy(&h0) && idle_stamp.is_none() {
                    idle_stamp = Some(before);
                }
                continue;
            }
            let seen = net.hub.epoch();
            if net.is_quiescent() && !net.hub.wait_past(seen, idle_window) {
                quiet_rounds += 1;
                if quiet_rounds >= 1 {
                    break;
                }
            }
        }
        let wit = json!({"idle_timeout_ms": t.as_millis() as u64, "ops": ops_log, "closed": closed.get(&conn).map(|c| c.0.clone()), "case": case_idx,
            "handler0": h0.with(|x| format!("keep_alive={} streams={:?} ignored={:?} outstanding={:?} polls={}", x.keep_alive, x.streams.keys().collect::<Vec<_>>(), x.ignored, x.outstanding_opens, x.polls))});
        let keepalive_close = closed.get(&conn).map(|(c, _)| c.contains("KeepAliveTimeout")).unwrap_or(false);
        if keepalive_close && busy_close {
            check.violation("keepalive-timeout-while-busy", "connection closed with KeepAliveTimeout in a step that began with the connection busy".to_string(), wit.clone());
        }
        if keepalive_close
            && let (Some(s), Some((_, at))) = (idle_stamp, closed.get(&conn))
            && at.duration_since(s) < t
        {
            check.violation(
                "keepalive-timeout-too-early",
                format!("closed {} ms after the busy set emptied, idle timeout is {} ms", at.duration_since(s).as_millis(), t.as_millis()),
                wit.clone(),
            );
        }
        if !closed.contains_key(&conn) {
            let still_busy = busy(&h0) || h0.with(|x| !x.streams.is_empty());
            if progress_case && !still_busy && net.is_quiescent() {
                check.violation("idle-connection-never-closed", format!("connection idle, net quiescent and no timer wake-up for {} ms, but the connection is still open", idle_window.as_millis()), wit.clone());
            } else if !progress_case {
                check.count("cases_not_waited_for_close", 1);
            }
        }
        check.case(sig.0, was_busy_then_idle && keepalive_close);
        check.count("keepalive_timeout_closes_observed", keepalive_close as u64);
        check.count("bounded_progress_cases", progress_case as u64);
        check.count("half_closed_streams_still_held", half_closes);
        check.distinct("distinct_interleavings", net.trace.0);
        if check.want_sample() && keepalive_close && was_busy_then_idle {
            check.sample(wit);
        }
    });
    check.finish()
}
