//! Independent mini protobuf / unsigned-varint codec (reference side of differential oracles and
//! the hand-speaking RawPeer). Written from the protobuf wire spec, not from the crates under test.

pub fn put_uvarint(out: &mut Vec<u8>, mut v: u64) {
    loop {
        let b = (v & 0x7f) as u8;
        v >>= 7;
        if v == 0 {
            out.push(b);
            return;
        }
        out.push(b | 0x80);
    }
}
pub fn uvarint(v: u64) -> Vec<u8> {
    let mut o = vec![];
    put_uvarint(&mut o, v);
    o
}
/// returns (value, bytes consumed)
pub fn get_uvarint(b: &[u8]) -> Option<(u64, usize)> {
    let mut v = 0u64;
    for (i, x) in b.iter().enumerate() {
        if i >= 10 {
            return None;
        }
        v |= ((*x & 0x7f) as u64) << (7 * i);
        if x & 0x80 == 0 {
            return Some((v, i + 1));
        }
    }
    None
}

/// length-delimited frame: uvarint(len) ++ body
pub fn frame(body: &[u8]) -> Vec<u8> {
    let mut o = uvarint(body.len() as u64);
    o.extend_from_slice(body);
    o
}
/// split a byte stream into complete uvarint-prefixed frames; returns (frames, rest)
pub fn unframe(mut b: &[u8]) -> (Vec<Vec<u8>>, Vec<u8>) {
    let mut out = vec![];
    loop {
        match get_uvarint(b) {
            Some((n, k)) if b.len() >= k + n as usize => {
                out.push(b[k..k + n as usize].to_vec());
                b = &b[k + n as usize..];
            }
            _ => return (out, b.to_vec()),
        }
    }
}

#[derive(Clone, Debug, PartialEq, Eq)]
pub enum Val {
    Varint(u64),
    Bytes(Vec<u8>),
    Fixed64(u64),
    Fixed32(u32),
}

#[derive(Clone, Debug, PartialEq, Eq, Default)]
pub struct Msg {
    pub fields: Vec<(u32, Val)>,
}

impl Msg {
    pub fn new() -> Msg {
        Msg::default()
    }
    pub fn varint(mut self, f: u32, v: u64) -> Msg {
        self.fields.push((f, Val::Varint(v)));
        self
    }
    pub fn bytes(mut self, f: u32, v: impl AsRef<[u8]>) -> Msg {
        self.fields.push((f, Val::Bytes(v.as_ref().to_vec())));
        self
    }
    pub fn msg(mut self, f: u32, m: &Msg) -> Msg {
        self.fields.push((f, Val::Bytes(m.encode())));
        self
    }
    pub fn opt_bytes(self, f: u32, v: Option<&[u8]>) -> Msg {
        match v {
            Some(v) => self.bytes(f, v),
            None => self,
        }
    }
    pub fn encode(&self) -> Vec<u8> {
        let mut o = vec![];
        for (f, v) in &self.fields {
            match v {
                Val::Varint(x) => {
                    put_uvarint(&mut o, ((*f as u64) << 3) | 0);
                    put_uvarint(&mut o, *x);
                }
                Val::Fixed64(x) => {
                    put_uvarint(&mut o, ((*f as u64) << 3) | 1);
                    o.extend_from_slice(&x.to_le_bytes());
                }
                Val::Bytes(b) => {
                    put_uvarint(&mut o, ((*f as u64) << 3) | 2);
                    put_uvarint(&mut o, b.len() as u64);
                    o.extend_from_slice(b);
                }
                Val::Fixed32(x) => {
                    put_uvarint(&mut o, ((*f as u64) << 3) | 5);
                    o.extend_from_slice(&x.to_le_bytes());
                }
            }
        }
        o
    }
    pub fn decode(mut b: &[u8]) -> Option<Msg> {
        let mut m = Msg::new();
        while !b.is_empty() {
            let (key, k) = get_uvarint(b)?;
            b = &b[k..];
            let f = (key >> 3) as u32;
            if f == 0 {
                return None;
            }
            match key & 7 {
                0 => {
                    let (v, k) = get_uvarint(b)?;
                    b = &b[k..];
                    m.fields.push((f, Val::Varint(v)));
                }
                1 => {
                    if b.len() < 8 {
                        return None;
                    }
                    m.fields.push((f, Val::Fixed64(u64::from_le_bytes(b[..8].try_into().unwrap()))));
                    b = &b[8..];
                }
                2 => {
                    let (n, k) = get_uvarint(b)?;
                    b = &b[k..];
                    if (b.len() as u64) < n {
                        return None;
                    }
                    m.fields.push((f, Val::Bytes(b[..n as usize].to_vec())));
                    b = &b[n as usize..];
                }
                5 => {
                    if b.len() < 4 {
                        return None;
                    }
                    m.fields.push((f, Val::Fixed32(u32::from_le_bytes(b[..4].try_into().unwrap()))));
                    b = &b[4..];
                }
                _ => return None,
            }
        }
        Some(m)
    }
    pub fn get_all(&self, f: u32) -> Vec<&Val> {
        self.fields.iter().filter(|(g, _)| *g == f).map(|(_, v)| v).collect()
    }
    /// last occurrence (protobuf "last one wins" for scalars)
    pub fn get(&self, f: u32) -> Option<&Val> {
        self.fields.iter().rev().find(|(g, _)| *g == f).map(|(_, v)| v)
    }
    pub fn get_bytes(&self, f: u32) -> Option<&[u8]> {
        match self.get(f) {
            Some(Val::Bytes(b)) => Some(b),
            _ => None,
        }
    }
    pub fn get_varint(&self, f: u32) -> Option<u64> {
        match self.get(f) {
            Some(Val::Varint(v)) => Some(*v),
            _ => None,
        }
    }
    pub fn all_bytes(&self, f: u32) -> Vec<Vec<u8>> {
        self.fields
            .iter()
            .filter_map(|(g, v)| match v {
                Val::Bytes(b) if *g == f => Some(b.clone()),
                _ => None,
            })
            .collect()
    }
    pub fn all_msgs(&self, f: u32) -> Vec<Msg> {
        self.all_bytes(f).iter().filter_map(|b| Msg::decode(b)).collect()
    }
}
