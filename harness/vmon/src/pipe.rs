//! In-memory byte duplex whose every poll consults a schedule (DESIGN W4).
//!
//! * chunking: each read/write moves 1..=max bytes (PRNG) — partial reads and partial writes
//! * spurious `Pending` with self-wake (readiness storms)
//! * gating: a direction can be limited to an absolute byte offset; the harness releases more
//! * tamper: a closure sees every written chunk with its absolute offset (flip / drop / truncate)
//! * recording: every direction keeps the full byte log
//! * close/EOF, reader-gone (BrokenPipe)
use std::{
    collections::VecDeque,
    io,
    pin::Pin,
    sync::{Arc, Mutex},
    task::{Context, Poll, Waker},
};

use futures::io::{AsyncRead, AsyncWrite};

use crate::Rng;

pub type Tamper = Box<dyn FnMut(u64, &mut Vec<u8>) -> TamperAction + Send>;

#[derive(Clone, Copy, PartialEq, Eq, Debug)]
pub enum TamperAction {
    /// deliver the (possibly modified) chunk
    Deliver,
    /// deliver the chunk and then close the direction (truncate after it)
    DeliverThenClose,
}

pub struct Dir {
    buf: VecDeque<u8>,
    /// writer closed (EOF after drain)
    closed: bool,
    /// reader dropped
    reader_gone: bool,
    reader: Option<Waker>,
    writer: Option<Waker>,
    /// total bytes accepted from the writer (before tamper)
    pub written: u64,
    /// total bytes handed to the reader
    pub read: u64,
    /// total bytes put in the buffer (after tamper)
    pub delivered: u64,
    /// full log of bytes as written by the writer
    pub log: Vec<u8>,
    pub record: bool,
    /// reader may only consume up to this absolute offset (of `delivered` stream)
    limit: Option<u64>,
    /// back-pressure: max buffered bytes (None = unbounded)
    capacity: Option<usize>,
    tamper: Option<Tamper>,
    /// inject an error on the next read
    read_err: Option<io::ErrorKind>,
    pub reads: u64,
    pub writes: u64,
    pub flushes: u64,
}

impl Dir {
    fn new() -> Dir {
        Dir {
            buf: VecDeque::new(),
            closed: false,
            reader_gone: false,
            reader: None,
            writer: None,
            written: 0,
            read: 0,
            delivered: 0,
            log: vec![],
            record: true,
            limit: None,
            capacity: None,
            tamper: None,
            read_err: None,
            reads: 0,
            writes: 0,
            flushes: 0,
        }
    }
    fn wake_reader(&mut self) {
        if let Some(w) = self.reader.take() {
            w.wake();
        }
    }
    fn wake_writer(&mut self) {
        if let Some(w) = self.writer.take() {
            w.wake();
        }
    }
    fn push(&mut self, data: &[u8]) {
        let mut chunk = data.to_vec();
        let off = self.written;
        self.written += data.len() as u64;
        if self.record {
            self.log.extend_from_slice(data);
        }
        let mut act = TamperAction::Deliver;
        if let Some(t) = self.tamper.as_mut() {
            act = t(off, &mut chunk);
        }
        self.delivered += chunk.len() as u64;
        self.buf.extend(chunk);
        if act == TamperAction::DeliverThenClose {
            self.closed = true;
        }
        self.wake_reader();
    }
}

/// Handle on one direction, for the harness.
#[derive(Clone)]
pub struct DirCtl(Arc<Mutex<Dir>>);
impl DirCtl {
    pub fn with<R>(&self, f: impl FnOnce(&mut Dir) -> R) -> R {
        f(&mut self.0.lock().unwrap())
    }
    pub fn written(&self) -> u64 {
        self.with(|d| d.written)
    }
    pub fn read(&self) -> u64 {
        self.with(|d| d.read)
    }
    pub fn buffered(&self) -> usize {
        self.with(|d| d.buf.len())
    }
    pub fn log(&self) -> Vec<u8> {
        self.with(|d| d.log.clone())
    }
    pub fn is_closed(&self) -> bool {
        self.with(|d| d.closed)
    }
    /// reader may consume only up to absolute offset `n`
    pub fn set_limit(&self, n: Option<u64>) {
        self.with(|d| {
            d.limit = n;
            d.wake_reader();
        })
    }
    pub fn release(&self, more: u64) {
        self.with(|d| {
            d.limit = Some(d.limit.unwrap_or(d.read) + more);
            d.wake_reader();
        })
    }
    pub fn set_capacity(&self, c: Option<usize>) {
        self.with(|d| {
            d.capacity = c;
            d.wake_writer();
        })
    }
    pub fn set_tamper(&self, t: Option<Tamper>) {
        self.with(|d| d.tamper = t)
    }
    /// flip bit(s) `mask` of the byte at absolute written offset `at`
    pub fn flip_at(&self, at: u64, mask: u8) {
        self.set_tamper(Some(Box::new(move |off, chunk| {
            if at >= off && at < off + chunk.len() as u64 {
                chunk[(at - off) as usize] ^= mask;
            }
            TamperAction::Deliver
        })));
    }
    /// deliver only the first `at` bytes, then EOF
    pub fn truncate_at(&self, at: u64) {
        self.set_tamper(Some(Box::new(move |off, chunk| {
            if off + chunk.len() as u64 >= at {
                chunk.truncate(at.saturating_sub(off) as usize);
                TamperAction::DeliverThenClose
            } else {
                TamperAction::Deliver
            }
        })));
    }
    /// inject bytes as if the writer had written them (bypasses tamper)
    pub fn inject(&self, data: &[u8]) {
        self.with(|d| {
            d.delivered += data.len() as u64;
            d.buf.extend(data.iter().copied());
            d.wake_reader();
        })
    }
    pub fn close(&self) {
        self.with(|d| {
            d.closed = true;
            d.wake_reader();
        })
    }
    pub fn fail_next_read(&self, k: io::ErrorKind) {
        self.with(|d| {
            d.read_err = Some(k);
            d.wake_reader();
        })
    }
    /// take everything currently buffered (harness acts as the reader)
    pub fn drain(&self) -> Vec<u8> {
        self.with(|d| {
            let v: Vec<u8> = d.buf.drain(..).collect();
            d.read += v.len() as u64;
            d.wake_writer();
            v
        })
    }
}

/// Per-end schedule.
#[derive(Clone, Debug)]
pub struct Sched {
    pub rng: Rng,
    /// max bytes per poll_read (>=1); usize::MAX = as much as fits
    pub max_read: usize,
    /// max bytes accepted per poll_write (>=1)
    pub max_write: usize,
    /// probability (x/256) of a spurious Pending (self-wake) on read / write / flush
    pub pend_read: u8,
    pub pend_write: u8,
    pub pend_flush: u8,
}
impl Sched {
    /// no chunking, no spurious Pending
    pub fn smooth() -> Sched {
        Sched { rng: Rng::new(0), max_read: usize::MAX, max_write: usize::MAX, pend_read: 0, pend_write: 0, pend_flush: 0 }
    }
    /// PRNG schedule drawn from `rng`: mixes 1-byte, small and large chunks and Pending storms
    pub fn random(rng: &mut Rng) -> Sched {
        let sizes = [1usize, 1, 2, 3, 5, 8, 17, 64, 300, 4096, usize::MAX, usize::MAX];
        let pends = [0u8, 0, 0, 20, 60, 128, 200];
        Sched {
            rng: Rng::new(rng.next_u64()),
            max_read: *rng.pick(&sizes),
            max_write: *rng.pick(&sizes),
            pend_read: *rng.pick(&pends),
            pend_write: *rng.pick(&pends),
            pend_flush: *rng.pick(&pends),
        }
    }
    pub fn describe(&self) -> String {
        format!(
            "r{}w{}p{}/{}/{}",
            if self.max_read == usize::MAX { 0 } else { self.max_read },
            if self.max_write == usize::MAX { 0 } else { self.max_write },
            self.pend_read,
            self.pend_write,
            self.pend_flush
        )
    }
    fn spurious(&mut self, p: u8, cx: &mut Context<'_>) -> bool {
        if p > 0 && (self.rng.next_u32() & 0xff) < p as u32 {
            cx.waker().wake_by_ref();
            true
        } else {
            false
        }
    }
    fn chunk(&mut self, max: usize, avail: usize) -> usize {
        if max == usize::MAX {
            avail
        } else {
            let m = max.min(avail).max(1);
            1 + self.rng.usize(m)
        }
    }
}

pub struct End {
    rx: Arc<Mutex<Dir>>,
    tx: Arc<Mutex<Dir>>,
    pub sched: Sched,
}

/// `(a, b, a_to_b, b_to_a)`
pub fn pipe(sa: Sched, sb: Sched) -> (End, End, DirCtl, DirCtl) {
    let ab = Arc::new(Mutex::new(Dir::new()));
    let ba = Arc::new(Mutex::new(Dir::new()));
    (
        End { rx: ba.clone(), tx: ab.clone(), sched: sa },
        End { rx: ab.clone(), tx: ba.clone(), sched: sb },
        DirCtl(ab),
        DirCtl(ba),
    )
}

pub fn smooth_pipe() -> (End, End, DirCtl, DirCtl) {
    pipe(Sched::smooth(), Sched::smooth())
}

impl End {
    pub fn tx_ctl(&self) -> DirCtl {
        DirCtl(self.tx.clone())
    }
    pub fn rx_ctl(&self) -> DirCtl {
        DirCtl(self.rx.clone())
    }
}

impl AsyncRead for End {
    fn poll_read(mut self: Pin<&mut Self>, cx: &mut Context<'_>, out: &mut [u8]) -> Poll<io::Result<usize>> {
        let this = &mut *self;
        if out.is_empty() {
            return Poll::Ready(Ok(0));
        }
        if this.sched.spurious(this.sched.pend_read, cx) {
            return Poll::Pending;
        }
        let mut d = this.rx.lock().unwrap();
        d.reads += 1;
        if let Some(k) = d.read_err.take() {
            return Poll::Ready(Err(io::Error::new(k, "injected read error")));
        }
        let mut avail = d.buf.len();
        if let Some(l) = d.limit {
            avail = avail.min(l.saturating_sub(d.read) as usize);
        }
        if avail == 0 {
            if d.closed && d.buf.is_empty() {
                return Poll::Ready(Ok(0));
            }
            d.reader = Some(cx.waker().clone());
            return Poll::Pending;
        }
        let n = this.sched.chunk(this.sched.max_read, avail.min(out.len()));
        for slot in out.iter_mut().take(n) {
            *slot = d.buf.pop_front().unwrap();
        }
        d.read += n as u64;
        d.wake_writer();
        Poll::Ready(Ok(n))
    }
}

impl AsyncWrite for End {
    fn poll_write(mut self: Pin<&mut Self>, cx: &mut Context<'_>, data: &[u8]) -> Poll<io::Result<usize>> {
        let this = &mut *self;
        if this.sched.spurious(this.sched.pend_write, cx) {
            return Poll::Pending;
        }
        let mut d = this.tx.lock().unwrap();
        d.writes += 1;
        if d.closed {
            return Poll::Ready(Err(io::Error::new(io::ErrorKind::BrokenPipe, "write after close")));
        }
        if d.reader_gone {
            return Poll::Ready(Err(io::Error::new(io::ErrorKind::BrokenPipe, "peer dropped")));
        }
        if data.is_empty() {
            return Poll::Ready(Ok(0));
        }
        let mut room = data.len();
        if let Some(c) = d.capacity {
            room = room.min(c.saturating_sub(d.buf.len()));
            if room == 0 {
                d.writer = Some(cx.waker().clone());
                return Poll::Pending;
            }
        }
        let n = this.sched.chunk(this.sched.max_write, room);
        d.push(&data[..n]);
        Poll::Ready(Ok(n))
    }
    fn poll_flush(mut self: Pin<&mut Self>, cx: &mut Context<'_>) -> Poll<io::Result<()>> {
        let this = &mut *self;
        if this.sched.spurious(this.sched.pend_flush, cx) {
            return Poll::Pending;
        }
        this.tx.lock().unwrap().flushes += 1;
        Poll::Ready(Ok(()))
    }
    fn poll_close(mut self: Pin<&mut Self>, cx: &mut Context<'_>) -> Poll<io::Result<()>> {
        let this = &mut *self;
        if this.sched.spurious(this.sched.pend_flush, cx) {
            return Poll::Pending;
        }
        let mut d = this.tx.lock().unwrap();
        d.closed = true;
        d.wake_reader();
        Poll::Ready(Ok(()))
    }
}

impl Drop for End {
    fn drop(&mut self) {
        {
            let mut d = self.tx.lock().unwrap();
            d.closed = true;
            d.wake_reader();
        }
        {
            let mut d = self.rx.lock().unwrap();
            d.reader_gone = true;
            d.wake_writer();
        }
    }
}
