//! vmon — shared runtime-monitoring workbench (DESIGN §3).
//!
//! * `Rng`        deterministic PRNG (xoshiro256**), seeded from VERIF_SEED and case index
//! * `Check`      verdict/evidence aggregator: cases, distinct signatures, samples, violations,
//!   known findings, inconclusive cases; writes /verif/evidence/<id>.json and exits
//! * `catch`      per-case panic capture with location
//! * `par_cases`  run cases on N worker threads
//! * `pipe`       in-memory byte duplex with scripted chunking / readiness / faults
//! * `exec`       tiny single-thread executor helpers (`block_on`, `poll_once`, `noop/flag` wakers)
pub mod exec;
pub mod pipe;
pub mod pb;

use std::{
    collections::{BTreeMap, HashSet},
    fmt::Write as _,
    panic::{AssertUnwindSafe, catch_unwind},
    path::PathBuf,
    sync::{
        Mutex,
        atomic::{AtomicU64, Ordering},
    },
    time::Instant,
};

pub use serde_json::{Value, json};

// ---------------------------------------------------------------------------------------------
// PRNG
// ---------------------------------------------------------------------------------------------

#[derive(Clone, Debug)]
pub struct Rng {
    s: [u64; 4],
}

fn splitmix(x: &mut u64) -> u64 {
    *x = x.wrapping_add(0x9E3779B97F4A7C15);
    let mut z = *x;
    z = (z ^ (z >> 30)).wrapping_mul(0xBF58476D1CE4E5B9);
    z = (z ^ (z >> 27)).wrapping_mul(0x94D049BB133111EB);
    z ^ (z >> 31)
}

impl Rng {
    pub fn new(seed: u64) -> Self {
        let mut x = seed ^ 0xD1B54A32D192ED03;
        let s = [
            splitmix(&mut x),
            splitmix(&mut x),
            splitmix(&mut x),
            splitmix(&mut x),
        ];
        Rng { s }
    }
    /// Independent stream for (seed, case).
    pub fn for_case(seed: u64, case: u64) -> Self {
        Rng::new(seed.wrapping_mul(0x2545F4914F6CDD1D) ^ case.wrapping_mul(0x9E3779B97F4A7C15) ^ 0x5851F42D4C957F2D)
    }
    pub fn next_u64(&mut self) -> u64 {
        let r = self.s[1].wrapping_mul(5).rotate_left(7).wrapping_mul(9);
        let t = self.s[1] << 17;
        self.s[2] ^= self.s[0];
        self.s[3] ^= self.s[1];
        self.s[1] ^= self.s[2];
        self.s[0] ^= self.s[3];
        self.s[2] ^= t;
        self.s[3] = self.s[3].rotate_left(45);
        r
    }
    pub fn next_u32(&mut self) -> u32 {
        (self.next_u64() >> 32) as u32
    }
    /// uniform in [0, n) (n > 0)
    pub fn below(&mut self, n: u64) -> u64 {
        debug_assert!(n > 0);
        ((self.next_u64() as u128 * n as u128) >> 64) as u64
    }
    pub fn usize(&mut self, n: usize) -> usize {
        self.below(n as u64) as usize
    }
    /// uniform in [lo, hi] inclusive
    pub fn range(&mut self, lo: u64, hi: u64) -> u64 {
        lo + self.below(hi - lo + 1)
    }
    pub fn bool(&mut self) -> bool {
        self.next_u64() & 1 == 1
    }
    /// true with probability num/den
    pub fn chance(&mut self, num: u64, den: u64) -> bool {
        self.below(den) < num
    }
    pub fn pick<'a, T>(&mut self, xs: &'a [T]) -> &'a T {
        &xs[self.usize(xs.len())]
    }
    pub fn bytes(&mut self, n: usize) -> Vec<u8> {
        let mut v = Vec::with_capacity(n);
        while v.len() < n {
            let x = self.next_u64().to_le_bytes();
            let k = (n - v.len()).min(8);
            v.extend_from_slice(&x[..k]);
        }
        v
    }
    pub fn fill(&mut self, buf: &mut [u8]) {
        let b = self.bytes(buf.len());
        buf.copy_from_slice(&b);
    }
    pub fn shuffle<T>(&mut self, xs: &mut [T]) {
        for i in (1..xs.len()).rev() {
            let j = self.usize(i + 1);
            xs.swap(i, j);
        }
    }
    /// weighted choice: returns index
    pub fn weighted(&mut self, w: &[u32]) -> usize {
        let total: u64 = w.iter().map(|x| *x as u64).sum();
        let mut r = self.below(total.max(1));
        for (i, x) in w.iter().enumerate() {
            if r < *x as u64 {
                return i;
            }
            r -= *x as u64;
        }
        w.len() - 1
    }
}

// ---------------------------------------------------------------------------------------------
// FNV signature hashing
// ---------------------------------------------------------------------------------------------

#[derive(Clone, Copy)]
pub struct Sig(pub u64);
impl Default for Sig {
    fn default() -> Self {
        Sig(0xcbf29ce484222325)
    }
}
impl Sig {
    pub fn new() -> Self {
        Self::default()
    }
    pub fn bytes(mut self, b: &[u8]) -> Self {
        for x in b {
            self.0 ^= *x as u64;
            self.0 = self.0.wrapping_mul(0x100000001b3);
        }
        self
    }
    pub fn u64(self, x: u64) -> Self {
        self.bytes(&x.to_le_bytes())
    }
    pub fn str(self, s: &str) -> Self {
        self.bytes(s.as_bytes()).bytes(&[0xff])
    }
    pub fn push(&mut self, b: &[u8]) {
        *self = self.bytes(b);
    }
    pub fn push_u64(&mut self, x: u64) {
        *self = self.u64(x);
    }
    pub fn push_str(&mut self, s: &str) {
        *self = self.str(s);
    }
}
pub fn sig_of(s: &str) -> u64 {
    Sig::new().str(s).0
}

pub fn hex(b: &[u8]) -> String {
    let mut s = String::with_capacity(b.len() * 2);
    for x in b {
        let _ = write!(s, "{:02x}", x);
    }
    s
}
pub fn unhex(s: &str) -> Vec<u8> {
    (0..s.len() / 2).map(|i| u8::from_str_radix(&s[2 * i..2 * i + 2], 16).unwrap_or(0)).collect()
}

// ---------------------------------------------------------------------------------------------
// Args
// ---------------------------------------------------------------------------------------------

#[derive(Clone, Copy, PartialEq, Eq, Debug)]
pub enum Tier {
    Quick,
    Thorough,
}
impl Tier {
    pub fn name(self) -> &'static str {
        match self {
            Tier::Quick => "quick",
            Tier::Thorough => "thorough",
        }
    }
    /// pick quick or thorough budget
    pub fn pick<T>(self, q: T, t: T) -> T {
        match self {
            Tier::Quick => q,
            Tier::Thorough => t,
        }
    }
}

#[derive(Clone, Debug)]
pub struct Args {
    pub id: String,
    pub tier: Tier,
    pub seed: u64,
    pub replay: Option<PathBuf>,
    pub threads: usize,
    /// extra free-form flags (`--key value`)
    pub extra: BTreeMap<String, String>,
}

impl Args {
    /// `<bin> <ID> [--tier quick|thorough] [--seed N] [--replay F] [--threads N]`
    pub fn parse() -> Args {
        let mut it = std::env::args().skip(1);
        let id = it.next().unwrap_or_else(|| {
            eprintln!("usage: <bin> <ID> [--tier quick|thorough] [--seed N] [--replay F]");
            std::process::exit(2)
        });
        let mut a = Args {
            id,
            tier: match std::env::var("VERIF_TIER").ok().as_deref() {
                Some("thorough") => Tier::Thorough,
                _ => Tier::Quick,
            },
            seed: std::env::var("VERIF_SEED").ok().and_then(|s| s.parse().ok()).unwrap_or(1),
            replay: None,
            threads: std::env::var("VERIF_THREADS").ok().and_then(|s| s.parse().ok()).unwrap_or(16),
            extra: BTreeMap::new(),
        };
        while let Some(k) = it.next() {
            let v = it.next().unwrap_or_default();
            match k.as_str() {
                "--tier" => a.tier = if v == "thorough" { Tier::Thorough } else { Tier::Quick },
                "--seed" => a.seed = v.parse().unwrap_or(1),
                "--replay" => a.replay = Some(PathBuf::from(v)),
                "--threads" => a.threads = v.parse().unwrap_or(16),
                other => {
                    a.extra.insert(other.trim_start_matches("--").to_string(), v);
                }
            }
        }
        a
    }
}

pub fn verif_root() -> PathBuf {
    std::env::var("VERIF_ROOT").map(PathBuf::from).unwrap_or_else(|_| PathBuf::from("/verif"))
}

// ---------------------------------------------------------------------------------------------
// Panic capture
// ---------------------------------------------------------------------------------------------

thread_local! {
    static LAST_PANIC: std::cell::RefCell<Option<PanicInfo>> = const { std::cell::RefCell::new(None) };
    static QUIET: std::cell::Cell<bool> = const { std::cell::Cell::new(false) };
    static CURRENT_CASE: std::cell::Cell<Option<u64>> = const { std::cell::Cell::new(None) };
}

#[derive(Clone, Debug)]
pub struct PanicInfo {
    pub msg: String,
    /// file:line of the panic
    pub location: String,
}
impl PanicInfo {
    /// location with the /repo prefix stripped and without column (stable signature)
    pub fn site(&self) -> String {
        match self.location.find("/repo/") {
            Some(i) => self.location[i + 6..].to_string(),
            None => self.location.clone(),
        }
    }
    /// panic raised from a file of the repository under test (not from the harness or a dependency)
    pub fn in_repo(&self) -> bool {
        self.location.contains("/repo/")
    }
}

static HOOK: std::sync::Once = std::sync::Once::new();

pub fn install_panic_hook() {
    HOOK.call_once(|| {
        let prev = std::panic::take_hook();
        std::panic::set_hook(Box::new(move |info| {
            let msg = if let Some(s) = info.payload().downcast_ref::<&str>() {
                s.to_string()
            } else if let Some(s) = info.payload().downcast_ref::<String>() {
                s.clone()
            } else {
                "<non-string panic>".to_string()
            };
            let location = info.location().map(|l| format!("{}:{}", l.file(), l.line())).unwrap_or_default();
            let quiet = QUIET.with(|q| q.get());
            LAST_PANIC.with(|p| *p.borrow_mut() = Some(PanicInfo { msg, location }));
            if !quiet {
                prev(info);
            }
        }));
    });
}

/// Run `f`, capturing a panic (message + location). The default panic message is suppressed while
/// inside `catch`.
pub fn catch<T>(f: impl FnOnce() -> T) -> Result<T, PanicInfo> {
    install_panic_hook();
    let was = QUIET.with(|q| q.replace(true));
    LAST_PANIC.with(|p| *p.borrow_mut() = None);
    let r = catch_unwind(AssertUnwindSafe(f));
    QUIET.with(|q| q.set(was));
    match r {
        Ok(v) => Ok(v),
        Err(_) => Err(LAST_PANIC.with(|p| p.borrow_mut().take()).unwrap_or(PanicInfo {
            msg: "<unknown>".into(),
            location: String::new(),
        })),
    }
}

// ---------------------------------------------------------------------------------------------
// Known findings
// ---------------------------------------------------------------------------------------------

#[derive(Clone, Debug)]
pub struct KnownFinding {
    pub property: String,
    pub signature: String,
    pub kind: String, // "finding" | "fixed"
    pub what: String,
}

pub fn load_known_findings() -> Vec<KnownFinding> {
    let p = verif_root().join("known_findings.json");
    let Ok(s) = std::fs::read_to_string(&p) else { return vec![] };
    let Ok(v) = serde_json::from_str::<Value>(&s) else {
        eprintln!("warning: known_findings.json does not parse; ignoring (nothing is suppressed)");
        return vec![];
    };
    let mut out = vec![];
    if let Some(a) = v.get("findings").and_then(|x| x.as_array()) {
        for e in a {
            out.push(KnownFinding {
                property: e["property"].as_str().unwrap_or("").to_string(),
                signature: e["signature"].as_str().unwrap_or("").to_string(),
                kind: e["kind"].as_str().unwrap_or("").to_string(),
                what: e["what"].as_str().unwrap_or("").to_string(),
            });
        }
    }
    out
}

// ---------------------------------------------------------------------------------------------
// Check aggregator
// ---------------------------------------------------------------------------------------------

#[derive(Clone, Debug)]
pub struct Violation {
    /// stable signature (class of failing input / call site); matched against known_findings.json
    pub signature: String,
    pub what: String,
    pub witness: Value,
}

struct Inner {
    evaluations: u64,
    sigs: HashSet<u64>,
    samples: Vec<Value>,
    counters: BTreeMap<String, u64>,
    sets: BTreeMap<String, HashSet<u64>>,
    notes: BTreeMap<String, Value>,
    violations: Vec<Violation>,
    violation_count: u64,
    inconclusive: Vec<String>,
    inconclusive_count: u64,
    assumptions: Vec<String>,
}

pub struct Check {
    pub id: String,
    pub tier: Tier,
    pub seed: u64,
    pub level: &'static str,
    rule: String,
    start: Instant,
    inner: Mutex<Inner>,
    max_samples: usize,
    /// a run must see at least this many distinct non-trivial cases, else it is inconclusive
    pub min_nontrivial: u64,
    /// `--case N` / `--replay`: run only this PRNG case
    pub only_case: Option<u64>,
}

pub const EXIT_OK: i32 = 0;
pub const EXIT_VIOLATION: i32 = 1;
pub const EXIT_INCONCLUSIVE: i32 = 2;

impl Check {
    pub fn new(args: &Args, level: &'static str, rule: &str) -> Check {
        install_panic_hook();
        Check {
            id: args.id.clone(),
            tier: args.tier,
            seed: args.seed,
            level,
            rule: rule.to_string(),
            start: Instant::now(),
            inner: Mutex::new(Inner {
                evaluations: 0,
                sigs: HashSet::new(),
                samples: vec![],
                counters: BTreeMap::new(),
                sets: BTreeMap::new(),
                notes: BTreeMap::new(),
                violations: vec![],
                violation_count: 0,
                inconclusive: vec![],
                inconclusive_count: 0,
                assumptions: vec![],
            }),
            max_samples: 5,
            min_nontrivial: if args.extra.contains_key("case") { 0 } else { 2 },
            only_case: args.extra.get("case").and_then(|s| s.parse().ok()),
        }
    }
    fn lock(&self) -> std::sync::MutexGuard<'_, Inner> {
        self.inner.lock().unwrap_or_else(|e| e.into_inner())
    }
    /// One evaluated case. `sig` abstracts the case (history/input); `nontrivial` per the check's rule.
    pub fn case(&self, sig: u64, nontrivial: bool) {
        let mut g = self.lock();
        g.evaluations += 1;
        if nontrivial {
            g.sigs.insert(sig);
        }
    }
    pub fn cases(&self, n: u64) {
        self.lock().evaluations += n;
    }
    pub fn nontrivial(&self, sig: u64) {
        self.lock().sigs.insert(sig);
    }
    /// Keep an example case (first `max_samples` are kept).
    pub fn sample(&self, v: Value) {
        let mut g = self.lock();
        if g.samples.len() < self.max_samples {
            g.samples.push(v);
        }
    }
    pub fn want_sample(&self) -> bool {
        self.lock().samples.len() < self.max_samples
    }
    pub fn count(&self, key: &str, n: u64) {
        *self.lock().counters.entry(key.to_string()).or_insert(0) += n;
    }
    /// count distinct values under `key` (e.g. distinct interleavings, states seen)
    pub fn distinct(&self, key: &str, v: u64) {
        self.lock().sets.entry(key.to_string()).or_default().insert(v);
    }
    pub fn note(&self, key: &str, v: Value) {
        self.lock().notes.insert(key.to_string(), v);
    }
    pub fn assume(&self, s: &str) {
        let mut g = self.lock();
        if !g.assumptions.iter().any(|x| x == s) {
            g.assumptions.push(s.to_string());
        }
    }
    pub fn violation(&self, signature: impl Into<String>, what: impl Into<String>, witness: Value) {
        // remember which PRNG case produced it (for --replay)
        let mut witness = witness;
        if let (Some(c), Some(o)) = (CURRENT_CASE.with(|c| c.get()), witness.as_object_mut())
            && !o.contains_key("case")
        {
            o.insert("case".into(), json!(c));
        }
        let mut g = self.lock();
        g.violation_count += 1;
        let signature = signature.into();
        // keep first witness per signature, at most 50 signatures
        if g.violations.len() < 50 && !g.violations.iter().any(|v| v.signature == signature) {
            g.violations.push(Violation { signature, what: what.into(), witness });
        }
    }
    pub fn inconclusive(&self, why: impl Into<String>) {
        let mut g = self.lock();
        g.inconclusive_count += 1;
        if g.inconclusive.len() < 10 {
            g.inconclusive.push(why.into());
        }
    }
    pub fn violation_count(&self) -> u64 {
        self.lock().violation_count
    }
    pub fn evaluations(&self) -> u64 {
        self.lock().evaluations
    }
    pub fn elapsed(&self) -> f64 {
        self.start.elapsed().as_secs_f64()
    }
    pub fn counter(&self, key: &str) -> u64 {
        self.lock().counters.get(key).copied().unwrap_or(0)
    }

    /// Write evidence + replay files, print verdict lines, return exit code.
    pub fn finish(&self) -> i32 {
        let g = self.lock();
        let root = verif_root();
        let known = load_known_findings();
        let mut new_violations: Vec<&Violation> = vec![];
        let mut known_hits: Vec<(&Violation, &KnownFinding)> = vec![];
        for v in &g.violations {
            match known.iter().find(|k| k.kind == "finding" && k.property == self.id && k.signature == v.signature) {
                Some(k) => known_hits.push((v, k)),
                None => new_violations.push(v),
            }
        }
        let distinct = g.sigs.len() as u64;
        let mut coverage = serde_json::Map::new();
        coverage.insert("evaluations".into(), json!(g.evaluations));
        coverage.insert("distinct_nontrivial".into(), json!(distinct));
        coverage.insert("rule".into(), json!(self.rule));
        coverage.insert("samples".into(), Value::Array(g.samples.clone()));
        for (k, v) in &g.counters {
            coverage.insert(k.clone(), json!(v));
        }
        for (k, v) in &g.sets {
            coverage.insert(k.clone(), json!(v.len()));
        }
        for (k, v) in &g.notes {
            if k == "exhaustive" && !v.is_boolean() {
                // the evidence schema wants a boolean; keep the description next to it
                let overall = v.get("overall").and_then(|b| b.as_bool()).unwrap_or(false);
                coverage.insert("exhaustive".into(), json!(overall));
                coverage.insert("exhaustive_detail".into(), v.clone());
            } else {
                coverage.insert(k.clone(), v.clone());
            }
        }
        coverage.insert("inconclusive_cases".into(), json!(g.inconclusive_count));
        if !g.inconclusive.is_empty() {
            coverage.insert("inconclusive_reasons".into(), json!(g.inconclusive));
        }
        coverage.insert(
            "known_findings_reproduced".into(),
            json!(known_hits.iter().map(|(v, _)| v.signature.clone()).collect::<Vec<_>>()),
        );
        let verdict;
        let code;
        if !new_violations.is_empty() {
            verdict = "violated";
            code = EXIT_VIOLATION;
        } else if g.evaluations == 0 || distinct < self.min_nontrivial {
            verdict = "inconclusive";
            code = EXIT_INCONCLUSIVE;
        } else {
            verdict = "held_on_observed";
            code = EXIT_OK;
        }
        coverage.insert("verdict".into(), json!(verdict));
        let ev = json!({
            "property_id": self.id,
            "tier": self.tier.name(),
            "seed": self.seed,
            "level": self.level,
            "coverage": Value::Object(coverage),
            "assumptions": g.assumptions,
            "wall_s": (self.start.elapsed().as_secs_f64() * 1000.0).round() / 1000.0,
            "violations": new_violations.len(),
        });
        let evdir = root.join("evidence");
        let _ = std::fs::create_dir_all(&evdir);
        let evpath = evdir.join(format!("{}.json", self.id));
        if self.only_case.is_some() {
            // single-case replay: do not overwrite the evidence of the last full run
        } else if let Err(e) = std::fs::write(&evpath, serde_json::to_string_pretty(&ev).unwrap() + "\n") {
            eprintln!("cannot write evidence {}: {e}", evpath.display());
        }
        for (v, k) in &known_hits {
            println!("KNOWN-FINDING: property={} {} [{}]", self.id, k.what, v.signature);
        }
        if !new_violations.is_empty() {
            let dir = root.join("runs").join(&self.id);
            let _ = std::fs::create_dir_all(&dir);
            for (i, v) in new_violations.iter().enumerate() {
                let p = dir.join(format!("violation-{}-seed{}-{}.json", self.tier.name(), self.seed, i));
                let body = json!({
                    "property": self.id, "signature": v.signature, "what": v.what,
                    "seed": self.seed, "tier": self.tier.name(), "witness": v.witness,
                });
                let _ = std::fs::write(&p, serde_json::to_string_pretty(&body).unwrap() + "\n");
                println!("  violation[{}]: {} :: {}", i, v.signature, v.what);
                println!("VIOLATION property={} replay={}", self.id, p.display());
            }
        }
        println!(
            "{} {} tier={} seed={} evaluations={} distinct_nontrivial={} violations={} known={} inconclusive_cases={} wall={:.1}s",
            match code {
                EXIT_OK => "HELD",
                EXIT_VIOLATION => "VIOLATED",
                _ => "INCONCLUSIVE",
            },
            self.id,
            self.tier.name(),
            self.seed,
            g.evaluations,
            distinct,
            new_violations.len(),
            known_hits.len(),
            g.inconclusive_count,
            self.start.elapsed().as_secs_f64()
        );
        if code == EXIT_INCONCLUSIVE {
            println!("INCONCLUSIVE property={} reasons={:?}", self.id, g.inconclusive);
        }
        code
    }
}

// ---------------------------------------------------------------------------------------------
// Parallel case runner
// ---------------------------------------------------------------------------------------------

/// Run `n` cases on up to `threads` workers. `f(case_index, rng)`; panics inside `f` that are not
/// caught by the check itself are reported as harness errors (inconclusive), not as violations.
pub fn par_cases<F>(check: &Check, n: u64, threads: usize, f: F)
where
    F: Fn(u64, &mut Rng) + Sync,
{
    let next = AtomicU64::new(0);
    let threads = threads.max(1).min(n.max(1) as usize);
    std::thread::scope(|s| {
        for _ in 0..threads {
            s.spawn(|| {
                loop {
                    let i = next.fetch_add(1, Ordering::Relaxed);
                    if i >= n {
                        break;
                    }
                    if check.only_case.is_some() && check.only_case != Some(i) {
                        continue;
                    }
                    CURRENT_CASE.with(|c| c.set(Some(i)));
                    let mut rng = Rng::for_case(check.seed, i);
                    if let Err(p) = catch(|| f(i, &mut rng)) {
                        check.inconclusive(format!("harness panic in case {i}: {} at {}", p.msg, p.location));
                    }
                }
            });
        }
    });
}

/// Run until `deadline_s` wall seconds or `max` cases, whichever first (budget guard, never a verdict).
pub fn par_cases_timed<F>(check: &Check, max: u64, threads: usize, deadline_s: f64, f: F)
where
    F: Fn(u64, &mut Rng) + Sync,
{
    let next = AtomicU64::new(0);
    let start = Instant::now();
    let threads = threads.max(1);
    std::thread::scope(|s| {
        for _ in 0..threads {
            s.spawn(|| {
                loop {
                    if start.elapsed().as_secs_f64() > deadline_s {
                        break;
                    }
                    let i = next.fetch_add(1, Ordering::Relaxed);
                    if i >= max {
                        break;
                    }
                    if check.only_case.is_some() && check.only_case != Some(i) {
                        continue;
                    }
                    CURRENT_CASE.with(|c| c.set(Some(i)));
                    let mut rng = Rng::for_case(check.seed, i);
                    if let Err(p) = catch(|| f(i, &mut rng)) {
                        check.inconclusive(format!("harness panic in case {i}: {} at {}", p.msg, p.location));
                    }
                }
            });
        }
    });
}

/// Standard main: dispatch `id` to a check function, write evidence, exit.
pub fn run_main(checks: &[(&str, fn(&Args) -> i32)]) -> ! {
    let mut args = Args::parse();
    // --replay <violation file>: show the stored witness and, when it names the PRNG case that produced it,
    // re-run exactly that case (same seed, same tier) so the violation is reproduced against the current tree.
    if let Some(path) = args.replay.clone() {
        match std::fs::read_to_string(&path).ok().and_then(|s| serde_json::from_str::<Value>(&s).ok()) {
            Some(v) => {
                println!("REPLAY {}: property={} signature={}", path.display(), v["property"], v["signature"]);
                println!("  what: {}", v["what"]);
                if let Some(seed) = v["seed"].as_u64() {
                    args.seed = seed;
                }
                if v["tier"].as_str() == Some("thorough") {
                    args.tier = Tier::Thorough;
                }
                match v["witness"]["case"].as_u64() {
                    Some(c) => {
                        println!("  re-running case {c} of seed {} ({})", args.seed, args.tier.name());
                        args.extra.insert("case".into(), c.to_string());
                    }
                    None => println!("  witness is self-contained (no PRNG case index); re-running the whole check at seed {}", args.seed),
                }
            }
            None => {
                eprintln!("cannot read replay file {}", path.display());
                std::process::exit(2);
            }
        }
    }
    for (id, f) in checks {
        if *id == args.id {
            let code = f(&args);
            std::process::exit(code);
        }
    }
    eprintln!("unknown check id {} (this binary serves: {:?})", args.id, checks.iter().map(|c| c.0).collect::<Vec<_>>());
    std::process::exit(2)
}
