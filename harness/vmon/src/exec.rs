//! Small executor helpers: deterministic, harness-driven polling.
use std::{
    future::Future,
    pin::Pin,
    sync::{
        Arc, Condvar, Mutex,
        atomic::{AtomicBool, AtomicU64, Ordering},
    },
    task::{Context, Poll, Wake, Waker},
    time::{Duration, Instant},
};

pub struct Flag {
    pub woken: AtomicBool,
    pub wakes: AtomicU64,
    cv: Condvar,
    m: Mutex<()>,
}
impl Flag {
    pub fn new() -> Arc<Flag> {
        Arc::new(Flag { woken: AtomicBool::new(true), wakes: AtomicU64::new(0), cv: Condvar::new(), m: Mutex::new(()) })
    }
    pub fn take(&self) -> bool {
        self.woken.swap(false, Ordering::SeqCst)
    }
    pub fn is_set(&self) -> bool {
        self.woken.load(Ordering::SeqCst)
    }
    /// wait until woken or timeout; returns whether woken
    pub fn wait(&self, d: Duration) -> bool {
        let deadline = Instant::now() + d;
        let mut g = self.m.lock().unwrap();
        while !self.woken.load(Ordering::SeqCst) {
            let now = Instant::now();
            if now >= deadline {
                return false;
            }
            let (ng, _) = self.cv.wait_timeout(g, deadline - now).unwrap();
            g = ng;
        }
        true
    }
}
impl Wake for Flag {
    fn wake(self: Arc<Self>) {
        self.wake_by_ref()
    }
    fn wake_by_ref(self: &Arc<Self>) {
        self.wakes.fetch_add(1, Ordering::SeqCst);
        let _g = self.m.lock().unwrap();
        self.woken.store(true, Ordering::SeqCst);
        self.cv.notify_all();
    }
}

pub fn flag_waker() -> (Arc<Flag>, Waker) {
    let f = Flag::new();
    let w = Waker::from(f.clone());
    (f, w)
}

pub fn noop_waker() -> Waker {
    Waker::noop().clone()
}

/// Poll a future exactly once with a no-op waker.
pub fn poll_once<F: Future + Unpin>(f: &mut F) -> Poll<F::Output> {
    let w = noop_waker();
    let mut cx = Context::from_waker(&w);
    Pin::new(f).poll(&mut cx)
}

/// Drive a future to completion on this thread. Returns None if `timeout` (wall clock watchdog;
/// callers treat None as *inconclusive*, never as a violation) passes first.
pub fn block_on_timeout<F: Future>(f: F, timeout: Duration) -> Option<F::Output> {
    let mut f = std::pin::pin!(f);
    let (flag, w) = flag_waker();
    let mut cx = Context::from_waker(&w);
    let deadline = Instant::now() + timeout;
    loop {
        flag.take();
        if let Poll::Ready(v) = f.as_mut().poll(&mut cx) {
            return Some(v);
        }
        let now = Instant::now();
        if now >= deadline {
            return None;
        }
        flag.wait(deadline - now);
    }
}

pub fn block_on<F: Future>(f: F) -> F::Output {
    block_on_timeout(f, Duration::from_secs(3600)).expect("block_on watchdog")
}

/// Poll `f` until it is ready or it returns Pending without having been woken (i.e. it is stuck
/// waiting for something external). Returns Some(output) or None if stalled.
pub fn run_until_stalled<F: Future + Unpin>(f: &mut F, max_polls: usize) -> Option<F::Output> {
    let (flag, w) = flag_waker();
    let mut cx = Context::from_waker(&w);
    for _ in 0..max_polls {
        flag.take();
        if let Poll::Ready(v) = Pin::new(&mut *f).poll(&mut cx) {
            return Some(v);
        }
        if !flag.is_set() {
            return None;
        }
    }
    None
}

// ------------------------------------------------------------------------------------------
// Task set: harness-scheduled single-thread executor
// ------------------------------------------------------------------------------------------

pub type BoxFut = Pin<Box<dyn Future<Output = ()> + Send>>;

struct Task {
    fut: Option<BoxFut>,
    flag: Arc<Flag>,
    waker: Waker,
    polls: u64,
}

/// Tasks are spawned from anywhere (thread-safe inbox) and polled only when the harness says so.
#[derive(Clone)]
pub struct Spawner {
    inbox: Arc<Mutex<Vec<BoxFut>>>,
}
impl Spawner {
    pub fn spawn(&self, f: BoxFut) {
        self.inbox.lock().unwrap().push(f);
    }
}

pub struct Tasks {
    inbox: Arc<Mutex<Vec<BoxFut>>>,
    tasks: Vec<Task>,
    pub completed: u64,
    pub spawned: u64,
}

impl Default for Tasks {
    fn default() -> Self {
        Self::new()
    }
}

impl Tasks {
    pub fn new() -> Tasks {
        Tasks { inbox: Arc::new(Mutex::new(vec![])), tasks: vec![], completed: 0, spawned: 0 }
    }
    pub fn spawner(&self) -> Spawner {
        Spawner { inbox: self.inbox.clone() }
    }
    fn absorb(&mut self) {
        let new: Vec<BoxFut> = std::mem::take(&mut *self.inbox.lock().unwrap());
        for f in new {
            let (flag, waker) = flag_waker();
            self.spawned += 1;
            self.tasks.push(Task { fut: Some(f), flag, waker, polls: 0 });
        }
    }
    /// indices of live tasks whose waker fired since their last poll
    pub fn runnable(&mut self) -> Vec<usize> {
        self.absorb();
        self.tasks.iter().enumerate().filter(|(_, t)| t.fut.is_some() && t.flag.is_set()).map(|(i, _)| i).collect()
    }
    pub fn live(&mut self) -> usize {
        self.absorb();
        self.tasks.iter().filter(|t| t.fut.is_some()).count()
    }
    /// poll task `i` once; returns true if it completed
    pub fn poll(&mut self, i: usize) -> bool {
        let t = &mut self.tasks[i];
        let Some(f) = t.fut.as_mut() else { return true };
        t.flag.take();
        t.polls += 1;
        let mut cx = Context::from_waker(&t.waker);
        if f.as_mut().poll(&mut cx).is_ready() {
            t.fut = None;
            self.completed += 1;
            true
        } else {
            false
        }
    }
    /// run every runnable task until none is runnable (FIFO); returns number of polls
    pub fn run_until_stalled(&mut self, max_polls: usize) -> usize {
        let mut n = 0;
        loop {
            let r = self.runnable();
            if r.is_empty() || n >= max_polls {
                return n;
            }
            for i in r {
                self.poll(i);
                n += 1;
            }
        }
    }
    /// drop all tasks (their futures are dropped)
    pub fn clear(&mut self) {
        self.absorb();
        self.tasks.clear();
    }
}
