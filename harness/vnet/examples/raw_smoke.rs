//! Smoke test / usage example for `vnet::Raw`: two real swarms whose behaviour hands negotiated
//! streams to the harness. Run: `cargo run --offline --profile vrel -p vnet --example raw_smoke`
use libp2p_core::{Multiaddr, multiaddr::Protocol};
use libp2p_swarm::{SwarmEvent, dial_opts::DialOpts};
use vnet::{Net, Raw, RawEvent};

fn main() {
    let mut net: Net<Raw> = Net::new(7, true);
    let mut ctl = vec![];
    for i in 0..2u64 {
        // the behaviour closure receives the node's harness executor: Raw needs it for its pump tasks
        let mut c = None;
        net.add_node(
            vnet::keypair(i + 1),
            |_key, exec| {
                let (raw, rc) = Raw::new(vec!["/echo/1".to_string()], exec);
                c = Some(rc);
                raw
            },
            |cfg| cfg.with_idle_connection_timeout(std::time::Duration::from_secs(3600)),
        );
        ctl.push(c.unwrap());
        net.swarm(i as usize).listen_on(Multiaddr::empty().with(Protocol::Memory(100 + i))).unwrap();
    }
    let mut sink = |_: &mut Net<Raw>, i: usize, ev: SwarmEvent<RawEvent>| {
        if let SwarmEvent::Behaviour(e) = ev {
            println!("node {i}: {e:?}");
        }
    };
    net.swarm(0).dial(DialOpts::unknown_peer_id().address(Multiaddr::empty().with(Protocol::Memory(101))).build()).unwrap();
    net.touch(0); // always touch a swarm after calling a method on it from the harness
    assert!(net.run(100_000, &mut sink), "quiescent");
    let p1 = net.peer(1);
    ctl[0].open(p1, None, "/echo/1", 42);
    net.run(100_000, &mut sink);
    let out = ctl[0].by_tag(42).expect("outbound stream");
    out.write(vmon::pb::frame(b"hello"));
    net.run(100_000, &mut sink);
    let p0 = net.peer(0);
    let inb = ctl[1].find(&p0, "/echo/1", true).expect("inbound stream at node 1");
    let frames = inb.take_frames();
    println!("node 1 received frames: {frames:?}");
    assert_eq!(frames, vec![b"hello".to_vec()]);
    inb.write(vmon::pb::frame(b"world"));
    inb.close();
    net.run(100_000, &mut sink);
    println!("node 0 received: {:?} eof={}", out.take_frames(), out.state().read_eof);
    println!("OK steps={} interleaving={:x}", net.steps, net.trace.0);
}
