//! vnet — swarm network simulator (DESIGN W2/W3/W5/W6/W7): real `libp2p_swarm::Swarm`s over an
//! in-memory scripted transport (real plaintext + yamux on top), driven by a deterministic,
//! PRNG-seeded scheduler that decides which swarm or background task makes progress next.
pub mod hub;
pub mod net;
pub mod probe;
pub mod raw;
pub mod recorder;
pub mod transport;

pub use hub::{Hub, SimExec, TaskSet};
pub use net::{Net, Node, Pick};
pub use probe::{HCmd, HEv, HandlerCtl, Probe, ProbeCtl, ProbeEvent, ProbeIn, ProbeOut};
pub use raw::{Raw, RawCtl, RawEvent, RawStream};
pub use recorder::{BEv, Decision, Point, Recorder, dial_error_kind, listen_error_kind};
pub use transport::{Board, DialRec, Outcome, Route, strip_p2p};

pub fn keypair(seed: u64) -> libp2p_identity::Keypair {
    let mut b = [0u8; 32];
    let mut r = vmon::Rng::new(seed ^ 0x4B45_5950);
    r.fill(&mut b);
    libp2p_identity::Keypair::ed25519_from_bytes(b).expect("32 bytes")
}
