//! Net simulator (DESIGN W2/W3/W5/W6/W7)
