//! `Probe`: scriptable `NetworkBehaviour` + `ConnectionHandler` (DESIGN W6).
//!
//! The harness holds `ProbeCtl` (behaviour side) and, per connection, `HandlerCtl` (handler side):
//! shared state that the real swarm / connection task read when they poll the probe. Everything the
//! swarm tells the probe is logged.
use std::{
    collections::{HashMap, HashSet, VecDeque},
    convert::Infallible,
    sync::{Arc, Mutex},
    task::{Context, Poll, Waker},
};

use futures::future::{Ready, ready};
use libp2p_core::{
    Endpoint, Multiaddr,
    transport::PortUse,
    upgrade::{InboundUpgrade, OutboundUpgrade, UpgradeInfo},
};
use libp2p_identity::PeerId;
use libp2p_swarm::{
    ConnectionDenied, ConnectionHandler, ConnectionHandlerEvent, ConnectionId, FromSwarm, NetworkBehaviour, Stream, StreamProtocol,
    SubstreamProtocol, THandler, THandlerInEvent, THandlerOutEvent, ToSwarm,
    handler::{ConnectionEvent, ProtocolSupport},
};

use crate::recorder::{BEv, Point, dial_error_kind, listen_error_kind};

// ------------------------------------------------------------------------------------------------
// upgrade: a list of protocol names (may contain duplicates and invalid names), yields (name, stream)
// ------------------------------------------------------------------------------------------------

#[derive(Clone, Debug, Default)]
pub struct ProbeUpgrade {
    pub protocols: Vec<String>,
}
impl UpgradeInfo for ProbeUpgrade {
    type Info = String;
    type InfoIter = std::vec::IntoIter<String>;
    fn protocol_info(&self) -> Self::InfoIter {
        self.protocols.clone().into_iter()
    }
}
impl InboundUpgrade<Stream> for ProbeUpgrade {
    type Output = (String, Stream);
    type Error = Infallible;
    type Future = Ready<Result<Self::Output, Infallible>>;
    fn upgrade_inbound(self, s: Stream, info: String) -> Self::Future {
        ready(Ok((info, s)))
    }
}
impl OutboundUpgrade<Stream> for ProbeUpgrade {
    type Output = (String, Stream);
    type Error = Infallible;
    type Future = Ready<Result<Self::Output, Infallible>>;
    fn upgrade_outbound(self, s: Stream, info: String) -> Self::Future {
        ready(Ok((info, s)))
    }
}

// ------------------------------------------------------------------------------------------------
// messages
// ------------------------------------------------------------------------------------------------

/// behaviour -> handler
#[derive(Clone, Debug, PartialEq, Eq, Hash)]
pub struct ProbeIn {
    /// tag of the emitting probe field
    pub emitter: u8,
    pub seq: u64,
}
/// handler -> behaviour
#[derive(Clone, Debug, PartialEq, Eq, Hash)]
pub struct ProbeOut {
    /// tag of the probe field whose handler produced this
    pub origin: u8,
    pub seq: u64,
}
/// behaviour -> swarm (application event)
#[derive(Clone, Debug, PartialEq, Eq)]
pub enum ProbeEvent {
    FromHandler { tag: u8, peer: PeerId, conn: ConnectionId, ev: ProbeOut },
    App { tag: u8, n: u64 },
}

// ------------------------------------------------------------------------------------------------
// handler
// ------------------------------------------------------------------------------------------------

#[derive(Clone, Debug, PartialEq, Eq)]
pub enum HEv {
    Received(ProbeIn),
    Inbound { proto: String, tag: u64 },
    Outbound { proto: String, tag: u64 },
    DialUpgradeError { tag: u64, error: String },
    ListenUpgradeError,
    LocalAdded(Vec<String>),
    LocalRemoved(Vec<String>),
    RemoteAdded(Vec<String>),
    RemoteRemoved(Vec<String>),
    AddressChange,
    PollClose,
}

pub enum HCmd {
    Open { proto: String, tag: u64 },
    /// drop a held stream
    DropStream(u64),
    /// mark a held stream ignore_for_keep_alive
    IgnoreStream(u64),
    /// close the write half of a held stream and keep holding it (request sent, response awaited)
    HalfClose(u64),
    Emit(ProbeOut),
    /// flip the keep-alive flag from inside `poll` (like a real handler would)
    SetKeepAlive(bool),
    SetProtocols(Vec<String>),
    ReportRemote { added: bool, protocols: Vec<String> },
}

pub struct HandlerShared {
    pub tag: u8,
    pub conn: ConnectionId,
    pub peer: PeerId,
    pub protocols: Vec<String>,
    pub keep_alive: bool,
    pub cmds: VecDeque<HCmd>,
    pub log: Vec<HEv>,
    pub streams: HashMap<u64, Stream>,
    pub next_inbound_tag: u64,
    pub polls: u64,
    pub dropped: bool,
    pub outstanding_opens: HashSet<u64>,
    /// tags of held streams marked ignore_for_keep_alive
    pub ignored: HashSet<u64>,
    /// held streams whose write half is being closed (kept in `streams` all along)
    pub half_closing: Vec<u64>,
    pub half_closed: Vec<u64>,
    /// graceful-close script: `poll_close` first returns Pending (waking itself) this many times ...
    pub close_pending_left: u32,
    /// ... then emits this many final events (seq = close_seq_base + k), then `Ready(None)`
    pub close_events_left: u32,
    pub close_seq_base: u64,
    /// seqs of the final events `poll_close` has handed out so far
    pub close_emitted: Vec<u64>,
    /// 0 = poll_close never called, 1 = last call returned Pending/an event (more to come), 2 = returned Ready(None)
    pub close_state: u8,
    waker: Option<Waker>,
}

#[derive(Clone)]
pub struct HandlerCtl(pub Arc<Mutex<HandlerShared>>);
impl HandlerCtl {
    pub fn with<R>(&self, f: impl FnOnce(&mut HandlerShared) -> R) -> R {
        f(&mut self.0.lock().unwrap())
    }
    pub fn wake(&self) {
        if let Some(w) = self.with(|h| h.waker.take()) {
            w.wake();
        }
    }
    pub fn cmd(&self, c: HCmd) {
        self.with(|h| h.cmds.push_back(c));
        self.wake();
    }
    pub fn set_protocols(&self, p: Vec<String>) {
        self.with(|h| h.protocols = p);
        self.wake();
    }
    pub fn set_keep_alive(&self, k: bool) {
        self.with(|h| h.keep_alive = k);
        self.wake();
    }
    pub fn log(&self) -> Vec<HEv> {
        self.with(|h| h.log.clone())
    }
    pub fn received(&self) -> Vec<ProbeIn> {
        self.with(|h| h.log.iter().filter_map(|e| if let HEv::Received(x) = e { Some(x.clone()) } else { None }).collect())
    }
}

pub struct ProbeHandler {
    shared: Arc<Mutex<HandlerShared>>,
}

impl Drop for ProbeHandler {
    fn drop(&mut self) {
        let mut h = self.shared.lock().unwrap();
        h.dropped = true;
        h.streams.clear();
    }
}

fn names<'a>(it: impl Iterator<Item = &'a StreamProtocol>) -> Vec<String> {
    let mut v: Vec<String> = it.map(|p| p.as_ref().to_string()).collect();
    v.sort();
    v
}

impl ConnectionHandler for ProbeHandler {
    type FromBehaviour = ProbeIn;
    type ToBehaviour = ProbeOut;
    type InboundProtocol = ProbeUpgrade;
    type OutboundProtocol = ProbeUpgrade;
    type InboundOpenInfo = ();
    type OutboundOpenInfo = u64;

    fn listen_protocol(&self) -> SubstreamProtocol<ProbeUpgrade, ()> {
        let h = self.shared.lock().unwrap();
        SubstreamProtocol::new(ProbeUpgrade { protocols: h.protocols.clone() }, ())
    }

    fn connection_keep_alive(&self) -> bool {
        self.shared.lock().unwrap().keep_alive
    }

    fn poll(&mut self, cx: &mut Context<'_>) -> Poll<ConnectionHandlerEvent<ProbeUpgrade, u64, ProbeOut>> {
        let mut h = self.shared.lock().unwrap();
        h.polls += 1;
        while let Some(c) = h.cmds.pop_front() {
            match c {
                HCmd::Open { proto, tag } => {
                    h.outstanding_opens.insert(tag);
                    return Poll::Ready(ConnectionHandlerEvent::OutboundSubstreamRequest {
                        protocol: SubstreamProtocol::new(ProbeUpgrade { protocols: vec![proto] }, tag),
                    });
                }
                HCmd::DropStream(t) => {
                    h.streams.remove(&t);
                }
                HCmd::IgnoreStream(t) => {
                    if let Some(s) = h.streams.get_mut(&t) {
                        s.ignore_for_keep_alive();
                        h.ignored.insert(t);
                    }
                }
                HCmd::HalfClose(t) => {
                    if h.streams.contains_key(&t) && !h.half_closing.contains(&t) {
                        h.half_closing.push(t);
                    }
                }
                HCmd::SetKeepAlive(k) => h.keep_alive = k,
                HCmd::SetProtocols(p) => h.protocols = p,
                HCmd::Emit(o) => return Poll::Ready(ConnectionHandlerEvent::NotifyBehaviour(o)),
                HCmd::ReportRemote { added, protocols } => {
                    let set: HashSet<StreamProtocol> = protocols.into_iter().filter_map(|p| StreamProtocol::try_from_owned(p).ok()).collect();
                    return Poll::Ready(ConnectionHandlerEvent::ReportRemoteProtocols(if added {
                        ProtocolSupport::Added(set)
                    } else {
                        ProtocolSupport::Removed(set)
                    }));
                }
            }
        }
        // drive pending half-closes (the stream stays in `streams`)
        let pending: Vec<u64> = std::mem::take(&mut h.half_closing);
        for t in pending {
            let done = match h.streams.get_mut(&t) {
                Some(st) => futures::AsyncWrite::poll_close(std::pin::Pin::new(st), cx).is_ready(),
                None => true,
            };
            if done {
                h.half_closed.push(t);
            } else {
                h.half_closing.push(t);
            }
        }
        h.waker = Some(cx.waker().clone());
        Poll::Pending
    }

    fn poll_close(&mut self, cx: &mut Context<'_>) -> Poll<Option<ProbeOut>> {
        let mut h = self.shared.lock().unwrap();
        h.log.push(HEv::PollClose);
        if h.close_pending_left > 0 {
            h.close_pending_left -= 1;
            h.close_state = 1;
            cx.waker().wake_by_ref();
            return Poll::Pending;
        }
        if h.close_events_left > 0 {
            h.close_events_left -= 1;
            h.close_state = 1;
            let seq = h.close_seq_base + h.close_emitted.len() as u64;
            h.close_emitted.push(seq);
            return Poll::Ready(Some(ProbeOut { origin: h.tag, seq }));
        }
        h.close_state = 2;
        Poll::Ready(None)
    }

    fn on_behaviour_event(&mut self, ev: ProbeIn) {
        self.shared.lock().unwrap().log.push(HEv::Received(ev));
    }

    fn on_connection_event(&mut self, event: ConnectionEvent<ProbeUpgrade, ProbeUpgrade, (), u64>) {
        let mut h = self.shared.lock().unwrap();
        match event {
            ConnectionEvent::FullyNegotiatedInbound(i) => {
                let (proto, s) = i.protocol;
                let tag = 1_000_000 + h.next_inbound_tag;
                h.next_inbound_tag += 1;
                h.streams.insert(tag, s);
                h.log.push(HEv::Inbound { proto, tag });
            }
            ConnectionEvent::FullyNegotiatedOutbound(o) => {
                let (proto, s) = o.protocol;
                h.outstanding_opens.remove(&o.info);
                h.streams.insert(o.info, s);
                h.log.push(HEv::Outbound { proto, tag: o.info });
            }
            ConnectionEvent::DialUpgradeError(e) => {
                h.outstanding_opens.remove(&e.info);
                let kind = match e.error {
                    libp2p_swarm::StreamUpgradeError::Timeout => "Timeout",
                    libp2p_swarm::StreamUpgradeError::Apply(_) => "Apply",
                    libp2p_swarm::StreamUpgradeError::NegotiationFailed => "NegotiationFailed",
                    libp2p_swarm::StreamUpgradeError::Io(_) => "Io",
                };
                h.log.push(HEv::DialUpgradeError { tag: e.info, error: kind.into() });
            }
            ConnectionEvent::ListenUpgradeError(_) => h.log.push(HEv::ListenUpgradeError),
            ConnectionEvent::LocalProtocolsChange(c) => match c {
                libp2p_swarm::handler::ProtocolsChange::Added(a) => h.log.push(HEv::LocalAdded(names(a))),
                libp2p_swarm::handler::ProtocolsChange::Removed(r) => h.log.push(HEv::LocalRemoved(names(r))),
            },
            ConnectionEvent::RemoteProtocolsChange(c) => match c {
                libp2p_swarm::handler::ProtocolsChange::Added(a) => h.log.push(HEv::RemoteAdded(names(a))),
                libp2p_swarm::handler::ProtocolsChange::Removed(r) => h.log.push(HEv::RemoteRemoved(names(r))),
            },
            ConnectionEvent::AddressChange(_) => h.log.push(HEv::AddressChange),
            _ => {}
        }
    }
}

// ------------------------------------------------------------------------------------------------
// behaviour
// ------------------------------------------------------------------------------------------------

pub struct ProbeShared {
    pub tag: u8,
    pub log: Vec<BEv>,
    /// handler events received: (peer, conn, event)
    pub handler_events: Vec<(PeerId, ConnectionId, ProbeOut)>,
    pub queue: VecDeque<ToSwarm<ProbeEvent, ProbeIn>>,
    /// addresses returned from handle_pending_outbound_connection, by target peer
    pub addresses: HashMap<Option<PeerId>, Vec<Multiaddr>>,
    /// deny at these points (all connections) ...
    pub deny_points: HashSet<Point>,
    /// ... or decide per call
    pub deny_fn: Option<Box<dyn FnMut(Point, ConnectionId, Option<PeerId>) -> bool + Send>>,
    pub handlers: HashMap<ConnectionId, HandlerCtl>,
    /// config for handlers created from now on
    pub default_protocols: Vec<String>,
    pub default_keep_alive: bool,
    /// graceful-close script of handlers created from now on: (Pending returns, final events) of `poll_close`
    pub default_close_plan: (u32, u32),
    /// established connections as the behaviour was told (for emission-time snapshots)
    pub established: HashMap<PeerId, Vec<ConnectionId>>,
    /// snapshot of `established[peer]` taken at the instant each NotifyHandler left `poll`
    pub emitted: Vec<(ProbeIn, PeerId, Option<ConnectionId>, Vec<ConnectionId>)>,
    /// per emitted notification (same index as `emitted`): members of the snapshot whose handler had already
    /// started closing (poll_close reached => command channel closed) at emission time
    pub emitted_already_closing: Vec<Vec<ConnectionId>>,
    /// remote-protocol reports every new handler makes in its very first poll: (added, names)
    pub initial_remote_reports: Vec<(bool, Vec<String>)>,
    waker: Option<Waker>,
}

#[derive(Clone)]
pub struct ProbeCtl(pub Arc<Mutex<ProbeShared>>);
impl ProbeCtl {
    pub fn with<R>(&self, f: impl FnOnce(&mut ProbeShared) -> R) -> R {
        f(&mut self.0.lock().unwrap())
    }
    /// queue something for the behaviour's next `poll`
    pub fn push(&self, ev: ToSwarm<ProbeEvent, ProbeIn>) {
        let w = self.with(|p| {
            p.queue.push_back(ev);
            p.waker.take()
        });
        if let Some(w) = w {
            w.wake();
        }
    }
    pub fn handler(&self, c: ConnectionId) -> Option<HandlerCtl> {
        self.with(|p| p.handlers.get(&c).cloned())
    }
    pub fn log(&self) -> Vec<BEv> {
        self.with(|p| p.log.clone())
    }
}

pub struct Probe {
    shared: Arc<Mutex<ProbeShared>>,
}

#[derive(Debug)]
struct ProbeDenied(u8);
impl std::fmt::Display for ProbeDenied {
    fn fmt(&self, f: &mut std::fmt::Formatter<'_>) -> std::fmt::Result {
        write!(f, "denied by probe {}", self.0)
    }
}
impl std::error::Error for ProbeDenied {}

impl Probe {
    pub fn new(tag: u8) -> (Probe, ProbeCtl) {
        let shared = Arc::new(Mutex::new(ProbeShared {
            tag,
            log: vec![],
            handler_events: vec![],
            queue: VecDeque::new(),
            addresses: HashMap::new(),
            deny_points: HashSet::new(),
            deny_fn: None,
            handlers: HashMap::new(),
            default_protocols: vec![format!("/probe/{tag}")],
            default_keep_alive: true,
            default_close_plan: (0, 0),
            established: HashMap::new(),
            emitted: vec![],
            emitted_already_closing: vec![],
            initial_remote_reports: vec![],
            waker: None,
        }));
        (Probe { shared: shared.clone() }, ProbeCtl(shared))
    }
    fn deny(&self, p: Point, c: ConnectionId, peer: Option<PeerId>) -> bool {
        let mut s = self.shared.lock().unwrap();
        if s.deny_points.contains(&p) {
            return true;
        }
        match s.deny_fn.as_mut() {
            Some(f) => f(p, c, peer),
            None => false,
        }
    }
    fn new_handler(&self, conn: ConnectionId, peer: PeerId) -> ProbeHandler {
        let mut s = self.shared.lock().unwrap();
        let h = Arc::new(Mutex::new(HandlerShared {
            tag: s.tag,
            conn,
            peer,
            protocols: s.default_protocols.clone(),
            keep_alive: s.default_keep_alive,
            cmds: s.initial_remote_reports.iter().map(|(a, p)| HCmd::ReportRemote { added: *a, protocols: p.clone() }).collect(),
            log: vec![],
            streams: HashMap::new(),
            next_inbound_tag: 0,
            polls: 0,
            dropped: false,
            outstanding_opens: HashSet::new(),
            ignored: HashSet::new(),
            half_closing: vec![],
            half_closed: vec![],
            close_pending_left: s.default_close_plan.0,
            close_events_left: s.default_close_plan.1,
            close_seq_base: 1_000_000_000 + (s.handlers.len() as u64) * 64 + (s.tag as u64) * 100_000_000,
            close_emitted: vec![],
            close_state: 0,
            waker: None,
        }));
        s.handlers.insert(conn, HandlerCtl(h.clone()));
        ProbeHandler { shared: h }
    }
    fn tag(&self) -> u8 {
        self.shared.lock().unwrap().tag
    }
}

impl NetworkBehaviour for Probe {
    type ConnectionHandler = ProbeHandler;
    type ToSwarm = ProbeEvent;

    fn handle_pending_inbound_connection(&mut self, conn: ConnectionId, local: &Multiaddr, remote: &Multiaddr) -> Result<(), ConnectionDenied> {
        let denied = self.deny(Point::PendingInbound, conn, None);
        self.shared.lock().unwrap().log.push(BEv::PendingInbound { conn, local: local.clone(), remote: remote.clone(), denied });
        if denied { Err(ConnectionDenied::new(ProbeDenied(self.tag()))) } else { Ok(()) }
    }

    fn handle_established_inbound_connection(&mut self, conn: ConnectionId, peer: PeerId, local: &Multiaddr, remote: &Multiaddr) -> Result<THandler<Self>, ConnectionDenied> {
        let denied = self.deny(Point::EstablishedInbound, conn, Some(peer));
        self.shared.lock().unwrap().log.push(BEv::EstablishedInbound { conn, peer, local: local.clone(), remote: remote.clone(), denied });
        if denied { Err(ConnectionDenied::new(ProbeDenied(self.tag()))) } else { Ok(self.new_handler(conn, peer)) }
    }

    fn handle_pending_outbound_connection(&mut self, conn: ConnectionId, peer: Option<PeerId>, addrs: &[Multiaddr], _role: Endpoint) -> Result<Vec<Multiaddr>, ConnectionDenied> {
        let denied = self.deny(Point::PendingOutbound, conn, peer);
        let mut s = self.shared.lock().unwrap();
        let returned = if denied { vec![] } else { s.addresses.get(&peer).cloned().unwrap_or_default() };
        s.log.push(BEv::PendingOutbound { conn, peer, addrs: addrs.to_vec(), returned: returned.clone(), denied });
        if denied { Err(ConnectionDenied::new(ProbeDenied(s.tag))) } else { Ok(returned) }
    }

    fn handle_established_outbound_connection(&mut self, conn: ConnectionId, peer: PeerId, addr: &Multiaddr, _role: Endpoint, _p: PortUse) -> Result<THandler<Self>, ConnectionDenied> {
        let denied = self.deny(Point::EstablishedOutbound, conn, Some(peer));
        self.shared.lock().unwrap().log.push(BEv::EstablishedOutbound { conn, peer, addr: addr.clone(), denied });
        if denied { Err(ConnectionDenied::new(ProbeDenied(self.tag()))) } else { Ok(self.new_handler(conn, peer)) }
    }

    fn on_swarm_event(&mut self, event: FromSwarm) {
        let mut s = self.shared.lock().unwrap();
        let e = match &event {
            FromSwarm::ConnectionEstablished(c) => {
                s.established.entry(c.peer_id).or_default().push(c.connection_id);
                BEv::ConnectionEstablished {
                    conn: c.connection_id,
                    peer: c.peer_id,
                    outbound: c.endpoint.is_dialer(),
                    other_established: c.other_established,
                    failed_addresses: c.failed_addresses.to_vec(),
                }
            }
            FromSwarm::ConnectionClosed(c) => {
                if let Some(v) = s.established.get_mut(&c.peer_id) {
                    v.retain(|x| *x != c.connection_id);
                    if v.is_empty() {
                        s.established.remove(&c.peer_id);
                    }
                }
                BEv::ConnectionClosed { conn: c.connection_id, peer: c.peer_id, remaining: c.remaining_established, cause: c.cause.map(|e| format!("{e:?}")) }
            }
            FromSwarm::DialFailure(d) => BEv::DialFailure { conn: d.connection_id, peer: d.peer_id, error: dial_error_kind(d.error) },
            FromSwarm::ListenFailure(l) => BEv::ListenFailure {
                conn: l.connection_id,
                peer: l.peer_id,
                error: listen_error_kind(l.error),
                local: l.local_addr.clone(),
                send_back: l.send_back_addr.clone(),
            },
            FromSwarm::NewListener(l) => BEv::NewListener(l.listener_id),
            FromSwarm::NewListenAddr(l) => BEv::NewListenAddr(l.listener_id, l.addr.clone()),
            FromSwarm::ExpiredListenAddr(l) => BEv::ExpiredListenAddr(l.listener_id, l.addr.clone()),
            FromSwarm::ListenerError(l) => BEv::ListenerError(l.listener_id),
            FromSwarm::ListenerClosed(l) => BEv::ListenerClosed(l.listener_id, l.reason.is_ok()),
            FromSwarm::NewExternalAddrCandidate(a) => BEv::NewExternalAddrCandidate(a.addr.clone()),
            FromSwarm::ExternalAddrConfirmed(a) => BEv::ExternalAddrConfirmed(a.addr.clone()),
            FromSwarm::ExternalAddrExpired(a) => BEv::ExternalAddrExpired(a.addr.clone()),
            FromSwarm::NewExternalAddrOfPeer(a) => BEv::NewExternalAddrOfPeer(a.peer_id, a.addr.clone()),
            FromSwarm::AddressChange(a) => BEv::AddressChange { conn: a.connection_id, peer: a.peer_id },
            other => BEv::Other(format!("{other:?}").chars().take(40).collect()),
        };
        s.log.push(e);
    }

    fn on_connection_handler_event(&mut self, peer: PeerId, conn: ConnectionId, ev: THandlerOutEvent<Self>) {
        let mut s = self.shared.lock().unwrap();
        s.log.push(BEv::HandlerEvent { conn, peer });
        s.handler_events.push((peer, conn, ev.clone()));
        let tag = s.tag;
        s.queue.push_back(ToSwarm::GenerateEvent(ProbeEvent::FromHandler { tag, peer, conn, ev }));
    }

    fn poll(&mut self, cx: &mut Context<'_>) -> Poll<ToSwarm<ProbeEvent, THandlerInEvent<Self>>> {
        let mut s = self.shared.lock().unwrap();
        if let Some(ev) = s.queue.pop_front() {
            if let ToSwarm::NotifyHandler { peer_id, handler, event } = &ev {
                let snap = s.established.get(peer_id).cloned().unwrap_or_default();
                let one = match handler {
                    libp2p_swarm::NotifyHandler::One(c) => Some(*c),
                    libp2p_swarm::NotifyHandler::Any => None,
                };
                let closing: Vec<ConnectionId> = snap.iter().filter(|c| s.handlers.get(c).map(|h| h.with(|x| x.log.iter().any(|e| matches!(e, HEv::PollClose)))).unwrap_or(false)).copied().collect();
                s.emitted_already_closing.push(closing);
                s.emitted.push((event.clone(), *peer_id, one, snap));
            }
            return Poll::Ready(ev);
        }
        s.waker = Some(cx.waker().clone());
        Poll::Pending
    }
}
