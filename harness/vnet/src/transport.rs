//! `SimTransport` + switchboard (DESIGN W3): an in-memory transport whose dials are scripted per
//! address and whose raw connections are `vmon::pipe` duplexes. Security and multiplexing on top
//! are the *real* plaintext + yamux upgrades, so pending-connection tasks, muxer close and substream
//! negotiation run the real code.
use std::{
    collections::{HashMap, VecDeque},
    future::Future,
    io,
    pin::Pin,
    sync::{Arc, Mutex},
    task::{Context, Poll, Waker},
};

use libp2p_core::{
    Multiaddr, Transport,
    multiaddr::Protocol,
    muxing::StreamMuxerBox,
    transport::{DialOpts, ListenerId, TransportError, TransportEvent},
    upgrade::Version,
};
use libp2p_identity::{Keypair, PeerId};
use vmon::{
    Rng,
    pipe::{DirCtl, End, Sched, pipe},
};

#[derive(Clone, Debug, PartialEq, Eq)]
pub enum Route {
    /// connects to listener `id` of `node`
    Listener { node: usize, id: ListenerId },
    /// dial future resolves to an error
    Refuse,
    /// `Transport::dial` itself returns MultiaddrNotSupported
    Unsupported,
    /// dial future stays pending until the harness resolves it (`Board::resolve`)
    Manual,
    /// connects to the listener but the raw connection is cut after `after` bytes written by the
    /// dialer (handshake failure on both sides)
    Cut { node: usize, id: ListenerId, after: u64 },
}

#[derive(Clone, Debug, PartialEq, Eq)]
pub enum Outcome {
    Fail,
    /// connect to whatever listener is registered under this address
    ConnectTo(Multiaddr),
}

#[derive(Clone, Debug)]
pub struct DialRec {
    pub node: usize,
    /// full address as handed to `Transport::dial`
    pub addr: Multiaddr,
    pub route: Option<Route>,
    /// future polled at least once
    pub started: bool,
    /// future resolved (Some(true) = Ok)
    pub done: Option<bool>,
    /// future dropped before resolving
    pub dropped: bool,
    /// harness decision for Manual routes
    pub decision: Option<Outcome>,
    pub seq_started: u64,
}

pub struct ConnRec {
    pub dialer: usize,
    pub listener: usize,
    pub addr: Multiaddr,
    pub d2l: DirCtl,
    pub l2d: DirCtl,
}

enum LEv {
    NewAddress(Multiaddr),
    AddressExpired(Multiaddr),
    Incoming { end: End, local: Multiaddr, send_back: Multiaddr },
    Closed(Result<(), io::Error>),
    Error(io::Error),
}

struct ListenerState {
    queue: VecDeque<LEv>,
    closed: bool,
}

pub struct BoardInner {
    pub routes: HashMap<Multiaddr, Route>,
    listeners: HashMap<(usize, ListenerId), ListenerState>,
    /// listener ids per node in creation order
    order: HashMap<usize, Vec<ListenerId>>,
    wakers: HashMap<usize, Waker>,
    manual_wakers: HashMap<usize, Waker>,
    pub dials: Vec<DialRec>,
    pub conns: Vec<ConnRec>,
    next_port: u64,
    rng: Rng,
    /// PRNG chunking / spurious Pending on raw connections
    pub chunking: bool,
    seq: u64,
    /// number of dial futures currently started and unfinished, per node
    pub in_flight: HashMap<usize, i64>,
    pub max_in_flight: HashMap<usize, i64>,
    /// source address base per node (send_back_addr = base + unique port)
    pub src: HashMap<usize, Multiaddr>,
    /// fault injection: number of outbound substreams node `n` opens next that fail with an I/O error on first use
    /// (the connection itself survives; the remote sees the stream reset)
    pub stream_faults: HashMap<usize, u32>,
    pub stream_faults_injected: u64,
    /// muxer-level address changes waiting to be reported by (any) one connection of node `n`
    pub address_changes: HashMap<usize, VecDeque<Multiaddr>>,
    pub address_changes_reported: u64,
    muxer_wakers: HashMap<usize, Vec<Waker>>,
}

#[derive(Clone)]
pub struct Board(pub Arc<Mutex<BoardInner>>);

pub fn strip_p2p(a: &Multiaddr) -> Multiaddr {
    let mut a = a.clone();
    while matches!(a.iter().last(), Some(Protocol::P2p(_))) {
        a.pop();
    }
    a
}

impl Board {
    pub fn new(seed: u64, chunking: bool) -> Board {
        Board(Arc::new(Mutex::new(BoardInner {
            routes: HashMap::new(),
            listeners: HashMap::new(),
            order: HashMap::new(),
            wakers: HashMap::new(),
            manual_wakers: HashMap::new(),
            dials: vec![],
            conns: vec![],
            next_port: 1,
            rng: Rng::new(seed ^ 0xB0A4D),
            chunking,
            seq: 0,
            in_flight: HashMap::new(),
            max_in_flight: HashMap::new(),
            src: HashMap::new(),
            stream_faults: HashMap::new(),
            stream_faults_injected: 0,
            address_changes: HashMap::new(),
            address_changes_reported: 0,
            muxer_wakers: HashMap::new(),
        })))
    }
    pub fn with<R>(&self, f: impl FnOnce(&mut BoardInner) -> R) -> R {
        f(&mut self.0.lock().unwrap())
    }
    pub fn set_route(&self, addr: &Multiaddr, r: Route) {
        self.with(|b| {
            b.routes.insert(strip_p2p(addr), r);
        })
    }
    pub fn remove_route(&self, addr: &Multiaddr) {
        self.with(|b| {
            b.routes.remove(&strip_p2p(addr));
        })
    }
    /// make `alias` reach the same listener as `target` currently does
    pub fn alias(&self, alias: &Multiaddr, target: &Multiaddr) -> bool {
        self.with(|b| match b.routes.get(&strip_p2p(target)).cloned() {
            Some(r) => {
                b.routes.insert(strip_p2p(alias), r);
                true
            }
            None => false,
        })
    }
    /// the next `k` outbound substreams opened by `node` (on any connection) break on first use
    pub fn fail_next_outbound_streams(&self, node: usize, k: u32) {
        self.with(|b| {
            b.stream_faults.insert(node, k);
        })
    }
    /// the next connection of `node` whose muxer is polled reports `StreamMuxerEvent::AddressChange(addr)`
    pub fn inject_address_change(&self, node: usize, addr: Multiaddr) {
        let wakers = self.with(|b| {
            b.address_changes.entry(node).or_default().push_back(addr);
            b.muxer_wakers.remove(&node).unwrap_or_default()
        });
        for w in wakers {
            w.wake();
        }
    }
    pub fn dial_log(&self) -> Vec<DialRec> {
        self.with(|b| b.dials.clone())
    }
    /// indices of Manual dials that were started and are still undecided
    pub fn pending_manual(&self) -> Vec<usize> {
        self.with(|b| {
            b.dials
                .iter()
                .enumerate()
                .filter(|(_, d)| d.route == Some(Route::Manual) && d.started && d.done.is_none() && !d.dropped && d.decision.is_none())
                .map(|(i, _)| i)
                .collect()
        })
    }
    pub fn resolve(&self, dial: usize, o: Outcome) {
        self.with(|b| {
            b.dials[dial].decision = Some(o);
            if let Some(w) = b.manual_wakers.remove(&dial) {
                w.wake();
            }
        })
    }
    /// scripted listener events (C12)
    pub fn push_new_address(&self, node: usize, id: ListenerId, a: Multiaddr) {
        self.push(node, id, LEv::NewAddress(a))
    }
    pub fn push_address_expired(&self, node: usize, id: ListenerId, a: Multiaddr) {
        self.push(node, id, LEv::AddressExpired(a))
    }
    pub fn push_listener_error(&self, node: usize, id: ListenerId, msg: &str) {
        self.push(node, id, LEv::Error(io::Error::other(msg.to_string())))
    }
    pub fn push_listener_closed(&self, node: usize, id: ListenerId, err: Option<&str>) {
        self.push(node, id, LEv::Closed(match err {
            None => Ok(()),
            Some(m) => Err(io::Error::other(m.to_string())),
        }))
    }
    fn push(&self, node: usize, id: ListenerId, ev: LEv) {
        self.with(|b| {
            if let Some(l) = b.listeners.get_mut(&(node, id)) {
                l.queue.push_back(ev);
            }
            if let Some(w) = b.wakers.remove(&node) {
                w.wake();
            }
        })
    }
    /// The node is gone: its listeners vanish, queued (never accepted) raw connections are dropped so
    /// that their dialers see EOF, later dials are refused.
    pub fn node_gone(&self, node: usize) {
        self.with(|b| {
            b.listeners.retain(|(n, _), _| *n != node);
            b.order.remove(&node);
            b.wakers.remove(&node);
        })
    }
    pub fn has_listener(&self, node: usize, id: ListenerId) -> bool {
        self.with(|b| b.listeners.contains_key(&(node, id)))
    }
    pub fn set_src(&self, node: usize, base: Multiaddr) {
        self.with(|b| {
            b.src.insert(node, base);
        })
    }
}

impl BoardInner {
    fn sched(&mut self) -> Sched {
        if self.chunking { Sched::random(&mut self.rng) } else { Sched::smooth() }
    }
    fn send_back(&mut self, node: usize) -> Multiaddr {
        let p = self.next_port;
        self.next_port += 1;
        match self.src.get(&node) {
            Some(base) => base.clone().with(Protocol::Tcp(10000 + (p % 50000) as u16)),
            None => Multiaddr::empty().with(Protocol::Memory(1_000_000 + p)),
        }
    }
    /// create the raw connection; returns the dialer end
    fn connect(&mut self, dialer: usize, addr: &Multiaddr, node: usize, id: ListenerId, cut: Option<u64>) -> io::Result<End> {
        let Some(l) = self.listeners.get(&(node, id)) else {
            return Err(io::Error::new(io::ErrorKind::ConnectionRefused, "listener gone"));
        };
        if l.closed {
            return Err(io::Error::new(io::ErrorKind::ConnectionRefused, "listener closed"));
        }
        let (sa, sb) = (self.sched(), self.sched());
        let (a, b, d2l, l2d) = pipe(sa, sb);
        if let Some(n) = cut {
            d2l.truncate_at(n);
        }
        let send_back = self.send_back(dialer);
        self.conns.push(ConnRec { dialer, listener: node, addr: addr.clone(), d2l, l2d });
        let l = self.listeners.get_mut(&(node, id)).unwrap();
        l.queue.push_back(LEv::Incoming { end: b, local: strip_p2p(addr), send_back });
        if let Some(w) = self.wakers.remove(&node) {
            w.wake();
        }
        Ok(a)
    }
}

pub struct SimTransport {
    node: usize,
    board: Board,
}

impl SimTransport {
    pub fn new(node: usize, board: Board) -> SimTransport {
        SimTransport { node, board }
    }
}

pub struct DialFut {
    board: Board,
    idx: usize,
}

impl Future for DialFut {
    type Output = io::Result<End>;
    fn poll(self: Pin<&mut Self>, cx: &mut Context<'_>) -> Poll<Self::Output> {
        let mut b = self.board.0.lock().unwrap();
        let idx = self.idx;
        let node = b.dials[idx].node;
        if !b.dials[idx].started {
            b.dials[idx].started = true;
            b.seq += 1;
            b.dials[idx].seq_started = b.seq;
            let n = b.in_flight.entry(node).or_insert(0);
            *n += 1;
            let n = *n;
            let m = b.max_in_flight.entry(node).or_insert(0);
            *m = (*m).max(n);
        }
        let addr = b.dials[idx].addr.clone();
        let key = strip_p2p(&addr);
        let route = b.dials[idx].route.clone();
        let res: Poll<io::Result<End>> = match route {
            None | Some(Route::Refuse) => Poll::Ready(Err(io::Error::new(io::ErrorKind::ConnectionRefused, "no route"))),
            Some(Route::Unsupported) => Poll::Ready(Err(io::Error::other("unsupported"))),
            Some(Route::Listener { node: n, id }) => Poll::Ready(b.connect(node, &key, n, id, None)),
            Some(Route::Cut { node: n, id, after }) => Poll::Ready(b.connect(node, &key, n, id, Some(after))),
            Some(Route::Manual) => match b.dials[idx].decision.clone() {
                None => {
                    b.manual_wakers.insert(idx, cx.waker().clone());
                    Poll::Pending
                }
                Some(Outcome::Fail) => Poll::Ready(Err(io::Error::new(io::ErrorKind::ConnectionRefused, "scripted failure"))),
                Some(Outcome::ConnectTo(t)) => match b.routes.get(&strip_p2p(&t)).cloned() {
                    Some(Route::Listener { node: n, id }) => Poll::Ready(b.connect(node, &key, n, id, None)),
                    _ => Poll::Ready(Err(io::Error::new(io::ErrorKind::ConnectionRefused, "target gone"))),
                },
            },
        };
        if let Poll::Ready(r) = &res {
            b.dials[idx].done = Some(r.is_ok());
            *b.in_flight.entry(node).or_insert(0) -= 1;
        }
        res
    }
}

impl Drop for DialFut {
    fn drop(&mut self) {
        let mut b = self.board.0.lock().unwrap();
        let d = &mut b.dials[self.idx];
        if d.done.is_none() {
            d.dropped = true;
            if d.started {
                let node = d.node;
                *b.in_flight.entry(node).or_insert(0) -= 1;
            }
        }
    }
}

impl Transport for SimTransport {
    type Output = End;
    type Error = io::Error;
    type ListenerUpgrade = futures::future::Ready<io::Result<End>>;
    type Dial = DialFut;

    fn listen_on(&mut self, id: ListenerId, addr: Multiaddr) -> Result<(), TransportError<io::Error>> {
        let mut b = self.board.0.lock().unwrap();
        let key = strip_p2p(&addr);
        if key.iter().any(|p| matches!(p, Protocol::P2pCircuit)) || key.is_empty() {
            return Err(TransportError::MultiaddrNotSupported(addr));
        }
        if matches!(b.routes.get(&key), Some(Route::Listener { .. })) {
            return Err(TransportError::Other(io::Error::new(io::ErrorKind::AddrInUse, "address in use")));
        }
        b.routes.insert(key.clone(), Route::Listener { node: self.node, id });
        let mut q = VecDeque::new();
        q.push_back(LEv::NewAddress(key));
        b.listeners.insert((self.node, id), ListenerState { queue: q, closed: false });
        b.order.entry(self.node).or_default().push(id);
        if let Some(w) = b.wakers.remove(&self.node) {
            w.wake();
        }
        Ok(())
    }

    fn remove_listener(&mut self, id: ListenerId) -> bool {
        let mut b = self.board.0.lock().unwrap();
        let node = self.node;
        match b.listeners.get_mut(&(node, id)) {
            Some(l) if !l.closed => {
                l.closed = true;
                l.queue.push_back(LEv::Closed(Ok(())));
                if let Some(w) = b.wakers.remove(&node) {
                    w.wake();
                }
                true
            }
            _ => false,
        }
    }

    fn dial(&mut self, addr: Multiaddr, _opts: DialOpts) -> Result<DialFut, TransportError<io::Error>> {
        let mut b = self.board.0.lock().unwrap();
        let route = b.routes.get(&strip_p2p(&addr)).cloned();
        let rec = DialRec {
            node: self.node,
            addr: addr.clone(),
            route: route.clone(),
            started: false,
            done: None,
            dropped: false,
            decision: None,
            seq_started: 0,
        };
        if route == Some(Route::Unsupported) {
            let mut rec = rec;
            rec.done = Some(false);
            b.dials.push(rec);
            return Err(TransportError::MultiaddrNotSupported(addr));
        }
        b.dials.push(rec);
        let idx = b.dials.len() - 1;
        Ok(DialFut { board: self.board.clone(), idx })
    }

    fn poll(self: Pin<&mut Self>, cx: &mut Context<'_>) -> Poll<TransportEvent<Self::ListenerUpgrade, io::Error>> {
        let mut b = self.board.0.lock().unwrap();
        let node = self.node;
        let ids: Vec<ListenerId> = b.order.get(&node).cloned().unwrap_or_default();
        for id in ids {
            let Some(l) = b.listeners.get_mut(&(node, id)) else { continue };
            let Some(ev) = l.queue.pop_front() else { continue };
            return Poll::Ready(match ev {
                LEv::NewAddress(a) => TransportEvent::NewAddress { listener_id: id, listen_addr: a },
                LEv::AddressExpired(a) => TransportEvent::AddressExpired { listener_id: id, listen_addr: a },
                LEv::Incoming { end, local, send_back } => TransportEvent::Incoming {
                    listener_id: id,
                    upgrade: futures::future::ready(Ok(end)),
                    local_addr: local,
                    send_back_addr: send_back,
                },
                LEv::Error(e) => TransportEvent::ListenerError { listener_id: id, error: e },
                LEv::Closed(reason) => {
                    b.listeners.remove(&(node, id));
                    if let Some(o) = b.order.get_mut(&node) {
                        o.retain(|x| *x != id);
                    }
                    b.routes.retain(|_, r| !matches!(r, Route::Listener { node: n, id: i } | Route::Cut { node: n, id: i, .. } if *n == node && *i == id));
                    TransportEvent::ListenerClosed { listener_id: id, reason }
                }
            });
        }
        b.wakers.insert(node, cx.waker().clone());
        Poll::Pending
    }
}

/// SimTransport + real plaintext + real yamux (+ the substream fault-injection shim)
pub fn build_transport(node: usize, board: &Board, key: &Keypair) -> libp2p_core::transport::Boxed<(PeerId, StreamMuxerBox)> {
    let b = board.clone();
    Transport::boxed(
        SimTransport::new(node, board.clone())
            .upgrade(Version::V1)
            .authenticate(libp2p_plaintext::Config::new(key))
            .multiplex(libp2p_yamux::Config::default())
            .map(move |(p, m), _| (p, StreamMuxerBox::new(FaultMuxer { inner: m, node, board: b.clone() }))),
    )
}

/// Like [`build_transport`], but every connection — inbound ones included — is upgraded in the *dialer* role
/// (multistream-select dialer, outbound plaintext, yamux client). This is the peer of a dial made with
/// `DialOpts::override_role()` (hole punching: both ends dial, one of them takes the listener role for the upgrade).
pub fn build_transport_reversed(node: usize, board: &Board, key: &Keypair) -> libp2p_core::transport::Boxed<(PeerId, StreamMuxerBox)> {
    use libp2p_core::upgrade::{OutboundConnectionUpgrade, UpgradeInfo};
    let b = board.clone();
    let key = key.clone();
    Transport::boxed(SimTransport::new(node, board.clone()).and_then(move |io, _cp| {
        let key = key.clone();
        let b = b.clone();
        async move {
            let other = |e: String| io::Error::other(e);
            let pt = libp2p_plaintext::Config::new(&key);
            let (proto, io) = multistream_select::dialer_select_proto(io, pt.protocol_info(), Version::V1).await.map_err(|e| other(e.to_string()))?;
            let (peer, io) = pt.upgrade_outbound(io, proto).await.map_err(|e| other(e.to_string()))?;
            let ym = libp2p_yamux::Config::default();
            let (proto, io) = multistream_select::dialer_select_proto(io, ym.protocol_info(), Version::V1).await.map_err(|e| other(e.to_string()))?;
            let mux = ym.upgrade_outbound(io, proto).await.map_err(|e| other(e.to_string()))?;
            Ok::<_, io::Error>((peer, StreamMuxerBox::new(FaultMuxer { inner: mux, node, board: b })))
        }
    }))
}

/// Passes everything through to the real muxer; outbound substreams can be armed (by
/// `Board::fail_next_outbound_streams`) to fail with an I/O error on first use.
pub struct FaultMuxer<M> {
    inner: M,
    node: usize,
    board: Board,
}

pub struct FaultStream<S> {
    inner: Option<S>,
    broken: bool,
}

impl<S> FaultStream<S> {
    fn fault(&mut self) -> io::Error {
        // dropping the real stream resets it for the remote
        self.inner = None;
        io::Error::new(io::ErrorKind::ConnectionReset, "injected substream fault")
    }
}

impl<S: futures::AsyncRead + Unpin> futures::AsyncRead for FaultStream<S> {
    fn poll_read(mut self: Pin<&mut Self>, cx: &mut Context<'_>, buf: &mut [u8]) -> Poll<io::Result<usize>> {
        if self.broken {
            return Poll::Ready(Err(self.fault()));
        }
        match self.inner.as_mut() {
            Some(s) => Pin::new(s).poll_read(cx, buf),
            None => Poll::Ready(Err(io::ErrorKind::ConnectionReset.into())),
        }
    }
}

impl<S: futures::AsyncWrite + Unpin> futures::AsyncWrite for FaultStream<S> {
    fn poll_write(mut self: Pin<&mut Self>, cx: &mut Context<'_>, buf: &[u8]) -> Poll<io::Result<usize>> {
        if self.broken {
            return Poll::Ready(Err(self.fault()));
        }
        match self.inner.as_mut() {
            Some(s) => Pin::new(s).poll_write(cx, buf),
            None => Poll::Ready(Err(io::ErrorKind::ConnectionReset.into())),
        }
    }
    fn poll_flush(mut self: Pin<&mut Self>, cx: &mut Context<'_>) -> Poll<io::Result<()>> {
        if self.broken {
            return Poll::Ready(Err(self.fault()));
        }
        match self.inner.as_mut() {
            Some(s) => Pin::new(s).poll_flush(cx),
            None => Poll::Ready(Err(io::ErrorKind::ConnectionReset.into())),
        }
    }
    fn poll_close(mut self: Pin<&mut Self>, cx: &mut Context<'_>) -> Poll<io::Result<()>> {
        if self.broken {
            return Poll::Ready(Err(self.fault()));
        }
        match self.inner.as_mut() {
            Some(s) => Pin::new(s).poll_close(cx),
            None => Poll::Ready(Ok(())),
        }
    }
}

impl<M> libp2p_core::muxing::StreamMuxer for FaultMuxer<M>
where
    M: libp2p_core::muxing::StreamMuxer + Unpin,
    M::Substream: Unpin,
{
    type Substream = FaultStream<M::Substream>;
    type Error = M::Error;

    fn poll_inbound(mut self: Pin<&mut Self>, cx: &mut Context<'_>) -> Poll<Result<Self::Substream, Self::Error>> {
        Pin::new(&mut self.inner).poll_inbound(cx).map_ok(|s| FaultStream { inner: Some(s), broken: false })
    }
    fn poll_outbound(mut self: Pin<&mut Self>, cx: &mut Context<'_>) -> Poll<Result<Self::Substream, Self::Error>> {
        let node = self.node;
        let board = self.board.clone();
        Pin::new(&mut self.inner).poll_outbound(cx).map_ok(|s| {
            let broken = board.with(|b| match b.stream_faults.get_mut(&node) {
                Some(k) if *k > 0 => {
                    *k -= 1;
                    b.stream_faults_injected += 1;
                    true
                }
                _ => false,
            });
            FaultStream { inner: Some(s), broken }
        })
    }
    fn poll_close(mut self: Pin<&mut Self>, cx: &mut Context<'_>) -> Poll<Result<(), Self::Error>> {
        Pin::new(&mut self.inner).poll_close(cx)
    }
    fn poll(mut self: Pin<&mut Self>, cx: &mut Context<'_>) -> Poll<Result<libp2p_core::muxing::StreamMuxerEvent, Self::Error>> {
        let node = self.node;
        let change = self.board.with(|b| {
            let c = b.address_changes.get_mut(&node).and_then(|q| q.pop_front());
            if c.is_some() {
                b.address_changes_reported += 1;
            } else {
                let ws = b.muxer_wakers.entry(node).or_default();
                if ws.len() < 256 && !ws.iter().any(|w| w.will_wake(cx.waker())) {
                    ws.push(cx.waker().clone());
                }
            }
            c
        });
        if let Some(addr) = change {
            return Poll::Ready(Ok(libp2p_core::muxing::StreamMuxerEvent::AddressChange(addr)));
        }
        Pin::new(&mut self.inner).poll(cx)
    }
}
