//! `Net`: N real `Swarm`s on a deterministic, PRNG-driven scheduler (DESIGN W2).
use std::{
    collections::HashSet,
    pin::Pin,
    sync::Arc,
    task::{Context, Poll, Waker},
    time::Duration,
};

use futures::Stream;
use libp2p_identity::{Keypair, PeerId};
use libp2p_swarm::{Config, NetworkBehaviour, Swarm, SwarmEvent};
use vmon::{Rng, Sig};

use crate::{
    hub::{Hub, NetWaker, SimExec, TaskSet},
    transport::{Board, build_transport},
};

pub struct Node<B: NetworkBehaviour> {
    pub swarm: Option<Swarm<B>>,
    pub peer: PeerId,
    pub key: Keypair,
    pub tasks: TaskSet,
    flag: Arc<NetWaker>,
    waker: Waker,
    pub events: u64,
}

impl<B: NetworkBehaviour> Node<B> {
    pub fn swarm(&mut self) -> &mut Swarm<B> {
        self.swarm.as_mut().expect("swarm dropped")
    }
    pub fn alive(&self) -> bool {
        self.swarm.is_some()
    }
    pub fn exec(&self) -> SimExec {
        self.tasks.exec()
    }
}

#[derive(Clone, Copy, Debug, PartialEq, Eq)]
pub enum Pick {
    Swarm(usize),
    Task(usize, usize),
}

pub struct Net<B: NetworkBehaviour> {
    pub hub: Arc<Hub>,
    pub board: Board,
    pub nodes: Vec<Node<B>>,
    pub rng: Rng,
    /// hash of the scheduler decision string (distinct interleavings)
    pub trace: Sig,
    pub steps: u64,
    /// nodes whose swarm is not scheduled / whose tasks are not scheduled (starvation scenarios)
    pub frozen_swarms: HashSet<usize>,
    pub frozen_tasks: HashSet<usize>,
    /// relative weight of picking a swarm vs a task (default 1:1 per runnable entity)
    pub swarm_weight: u32,
    pub task_weight: u32,
}

impl<B: NetworkBehaviour> Net<B> {
    pub fn new(seed: u64, chunking: bool) -> Net<B> {
        Net {
            hub: Hub::new(),
            board: Board::new(seed, chunking),
            nodes: vec![],
            rng: Rng::new(seed ^ 0x5EED),
            trace: Sig::new(),
            steps: 0,
            frozen_swarms: HashSet::new(),
            frozen_tasks: HashSet::new(),
            swarm_weight: 1,
            task_weight: 1,
        }
    }

    /// Add a node: real `Swarm` over SimTransport + plaintext + yamux, harness executor.
    pub fn add_node(&mut self, key: Keypair, behaviour: impl FnOnce(&Keypair, SimExec) -> B, cfg: impl FnOnce(Config) -> Config) -> usize {
        let idx = self.nodes.len();
        let tasks = TaskSet::new(&self.hub);
        let peer = key.public().to_peer_id();
        let transport = build_transport(idx, &self.board, &key);
        let config = cfg(Config::with_executor(tasks.exec()));
        let swarm = Swarm::new(transport, behaviour(&key, tasks.exec()), peer, config);
        let (flag, waker) = NetWaker::new(&self.hub);
        self.nodes.push(Node { swarm: Some(swarm), peer, key, tasks, flag, waker, events: 0 });
        idx
    }

    /// a node whose transport upgrades every connection in the dialer role (see `build_transport_reversed`)
    pub fn add_node_reversed(&mut self, key: Keypair, behaviour: impl FnOnce(&Keypair, SimExec) -> B, cfg: impl FnOnce(Config) -> Config) -> usize {
        let idx = self.nodes.len();
        let tasks = TaskSet::new(&self.hub);
        let peer = key.public().to_peer_id();
        let transport = crate::transport::build_transport_reversed(idx, &self.board, &key);
        let config = cfg(Config::with_executor(tasks.exec()));
        let swarm = Swarm::new(transport, behaviour(&key, tasks.exec()), peer, config);
        let (flag, waker) = NetWaker::new(&self.hub);
        self.nodes.push(Node { swarm: Some(swarm), peer, key, tasks, flag, waker, events: 0 });
        idx
    }

    pub fn swarm(&mut self, i: usize) -> &mut Swarm<B> {
        self.nodes[i].swarm()
    }
    pub fn peer(&self, i: usize) -> PeerId {
        self.nodes[i].peer
    }
    /// mark swarm `i` runnable (call after invoking a method on it from the harness)
    pub fn touch(&mut self, i: usize) {
        self.nodes[i].flag.set();
    }
    pub fn touch_all(&mut self) {
        for n in &self.nodes {
            n.flag.set();
        }
    }

    /// Drop swarm `i` (its connection tasks keep running until they notice, like on a real executor).
    pub fn drop_swarm(&mut self, i: usize) {
        self.nodes[i].swarm = None;
        self.board.node_gone(i);
    }
    /// Kill node `i`: swarm and every task vanish at once (process death; remotes see EOF).
    pub fn kill_node(&mut self, i: usize) {
        self.nodes[i].swarm = None;
        self.board.node_gone(i);
        self.nodes[i].tasks.kill_all();
    }

    fn candidates(&mut self) -> Vec<Pick> {
        let mut c = vec![];
        let mut tmp = vec![];
        for (i, n) in self.nodes.iter_mut().enumerate() {
            if n.swarm.is_some() && n.flag.is_set() && !self.frozen_swarms.contains(&i) {
                for _ in 0..self.swarm_weight.max(1) {
                    c.push(Pick::Swarm(i));
                }
            }
            if !self.frozen_tasks.contains(&i) {
                tmp.clear();
                n.tasks.runnable(&mut tmp);
                for t in &tmp {
                    for _ in 0..self.task_weight.max(1) {
                        c.push(Pick::Task(i, *t));
                    }
                }
            }
        }
        c
    }

    /// Anything runnable (ignoring frozen entities)?
    pub fn is_quiescent(&mut self) -> bool {
        self.candidates().is_empty()
    }

    /// One scheduler step: PRNG-pick one runnable entity and poll it once. Returns the pick, or None if
    /// nothing is runnable. A swarm event, if produced, goes to `sink(node, event)`.
    pub fn step(&mut self, sink: &mut dyn FnMut(&mut Net<B>, usize, SwarmEvent<B::ToSwarm>)) -> Option<Pick> {
        let c = self.candidates();
        if c.is_empty() {
            return None;
        }
        let pick = c[self.rng.usize(c.len())];
        self.exec_pick(pick, sink);
        Some(pick)
    }

    pub fn exec_pick(&mut self, pick: Pick, sink: &mut dyn FnMut(&mut Net<B>, usize, SwarmEvent<B::ToSwarm>)) {
        self.steps += 1;
        match pick {
            Pick::Swarm(i) => {
                self.trace.push_u64(1 + i as u64);
                if let Some(ev) = self.poll_swarm(i) {
                    sink(self, i, ev);
                }
            }
            Pick::Task(i, t) => {
                self.trace.push_u64(1000 + (i as u64) * 100_000 + t as u64);
                self.nodes[i].tasks.poll(t);
            }
        }
    }

    /// Poll swarm `i` once. On `Ready` the swarm stays runnable.
    pub fn poll_swarm(&mut self, i: usize) -> Option<SwarmEvent<B::ToSwarm>> {
        let n = &mut self.nodes[i];
        let Some(sw) = n.swarm.as_mut() else { return None };
        n.flag.take();
        let mut cx = Context::from_waker(&n.waker);
        match Pin::new(sw).poll_next(&mut cx) {
            Poll::Ready(Some(ev)) => {
                n.flag.set();
                n.events += 1;
                Some(ev)
            }
            Poll::Ready(None) => None,
            Poll::Pending => None,
        }
    }

    /// Run until nothing is runnable or `max_steps` elapsed. Returns true if quiescent.
    pub fn run(&mut self, max_steps: u64, sink: &mut dyn FnMut(&mut Net<B>, usize, SwarmEvent<B::ToSwarm>)) -> bool {
        for _ in 0..max_steps {
            if self.step(sink).is_none() {
                return true;
            }
        }
        self.is_quiescent()
    }

    /// Run to quiescence, then wait (wall clock, watchdog only) up to `idle` for timer wake-ups and
    /// continue; stops when quiescent and no wake arrives within `idle`, or after `max_steps`.
    /// Returns true if it ended quiescent.
    pub fn settle(&mut self, max_steps: u64, idle: Duration, sink: &mut dyn FnMut(&mut Net<B>, usize, SwarmEvent<B::ToSwarm>)) -> bool {
        let mut left = max_steps;
        loop {
            let seen = self.hub.epoch();
            let before = self.steps;
            let q = self.run(left, sink);
            left = left.saturating_sub(self.steps - before);
            if !q {
                return false;
            }
            if left == 0 {
                return self.is_quiescent();
            }
            if self.hub.epoch() != seen && !self.is_quiescent() {
                continue;
            }
            if !self.hub.wait_past(self.hub.epoch(), idle) && self.is_quiescent() {
                return true;
            }
        }
    }
}
