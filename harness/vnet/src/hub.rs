//! Wake hub, wakers and the harness-scheduled task set (DESIGN W2).
use std::{
    future::Future,
    pin::Pin,
    sync::{
        Arc, Condvar, Mutex,
        atomic::{AtomicBool, AtomicU64, Ordering},
    },
    task::{Context, Wake, Waker},
    time::{Duration, Instant},
};

/// All wakers of one `Net` notify the hub, so the harness can sleep until *anything* was woken
/// (timers fire on the futures-timer helper thread).
pub struct Hub {
    epoch: Mutex<u64>,
    cv: Condvar,
    pub wakes: AtomicU64,
}
impl Hub {
    pub fn new() -> Arc<Hub> {
        Arc::new(Hub { epoch: Mutex::new(0), cv: Condvar::new(), wakes: AtomicU64::new(0) })
    }
    pub fn notify(&self) {
        self.wakes.fetch_add(1, Ordering::SeqCst);
        let mut g = self.epoch.lock().unwrap();
        *g += 1;
        self.cv.notify_all();
    }
    pub fn epoch(&self) -> u64 {
        *self.epoch.lock().unwrap()
    }
    /// wait until the epoch moves past `seen` or `d` elapses; returns true if it moved
    pub fn wait_past(&self, seen: u64, d: Duration) -> bool {
        let deadline = Instant::now() + d;
        let mut g = self.epoch.lock().unwrap();
        while *g == seen {
            let now = Instant::now();
            if now >= deadline {
                return false;
            }
            g = self.cv.wait_timeout(g, deadline - now).unwrap().0;
        }
        true
    }
}

pub struct NetWaker {
    pub flag: AtomicBool,
    hub: Arc<Hub>,
}
impl NetWaker {
    pub fn new(hub: &Arc<Hub>) -> (Arc<NetWaker>, Waker) {
        let w = Arc::new(NetWaker { flag: AtomicBool::new(true), hub: hub.clone() });
        (w.clone(), Waker::from(w))
    }
    pub fn take(&self) -> bool {
        self.flag.swap(false, Ordering::SeqCst)
    }
    pub fn is_set(&self) -> bool {
        self.flag.load(Ordering::SeqCst)
    }
    pub fn set(&self) {
        self.flag.store(true, Ordering::SeqCst);
    }
}
impl Wake for NetWaker {
    fn wake(self: Arc<Self>) {
        self.wake_by_ref()
    }
    fn wake_by_ref(self: &Arc<Self>) {
        self.flag.store(true, Ordering::SeqCst);
        self.hub.notify();
    }
}

pub type BoxFut = Pin<Box<dyn Future<Output = ()> + Send>>;

struct Slot {
    fut: Option<BoxFut>,
    flag: Arc<NetWaker>,
    waker: Waker,
}

/// `libp2p_swarm::Executor` handle: futures land in an inbox and are only ever polled when the
/// harness scheduler picks them.
#[derive(Clone)]
pub struct SimExec {
    inbox: Arc<Mutex<Vec<BoxFut>>>,
    hub: Arc<Hub>,
}
impl libp2p_swarm::Executor for SimExec {
    fn exec(&self, f: BoxFut) {
        self.inbox.lock().unwrap().push(f);
        self.hub.notify();
    }
}
impl SimExec {
    pub fn spawn(&self, f: impl Future<Output = ()> + Send + 'static) {
        self.inbox.lock().unwrap().push(Box::pin(f));
        self.hub.notify();
    }
}

pub struct TaskSet {
    inbox: Arc<Mutex<Vec<BoxFut>>>,
    hub: Arc<Hub>,
    slots: Vec<Slot>,
    pub spawned: u64,
    pub completed: u64,
    pub polls: u64,
}
impl TaskSet {
    pub fn new(hub: &Arc<Hub>) -> TaskSet {
        TaskSet { inbox: Arc::new(Mutex::new(vec![])), hub: hub.clone(), slots: vec![], spawned: 0, completed: 0, polls: 0 }
    }
    pub fn exec(&self) -> SimExec {
        SimExec { inbox: self.inbox.clone(), hub: self.hub.clone() }
    }
    fn absorb(&mut self) {
        let new: Vec<BoxFut> = std::mem::take(&mut *self.inbox.lock().unwrap());
        for f in new {
            let (flag, waker) = NetWaker::new(&self.hub);
            self.spawned += 1;
            self.slots.push(Slot { fut: Some(f), flag, waker });
        }
    }
    pub fn runnable(&mut self, out: &mut Vec<usize>) {
        self.absorb();
        for (i, s) in self.slots.iter().enumerate() {
            if s.fut.is_some() && s.flag.is_set() {
                out.push(i);
            }
        }
    }
    pub fn live(&mut self) -> usize {
        self.absorb();
        self.slots.iter().filter(|s| s.fut.is_some()).count()
    }
    /// poll task `i` once; true if it completed
    pub fn poll(&mut self, i: usize) -> bool {
        let s = &mut self.slots[i];
        let Some(f) = s.fut.as_mut() else { return true };
        s.flag.take();
        self.polls += 1;
        let mut cx = Context::from_waker(&s.waker);
        if f.as_mut().poll(&mut cx).is_ready() {
            s.fut = None;
            self.completed += 1;
            true
        } else {
            false
        }
    }
    /// drop every task now (models a process that dies: no orderly close)
    pub fn kill_all(&mut self) {
        self.absorb();
        for s in &mut self.slots {
            s.fut = None;
        }
    }
}
