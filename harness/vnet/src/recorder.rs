//! `Recorder<B>`: transparent `NetworkBehaviour` wrapper that logs every trait call (DESIGN W5),
//! can deny connections at any of the four decision points by script, and calls an `on_idle` hook
//! each time the inner behaviour's `poll` returns `Pending` ("after every behaviour step").
use std::{
    sync::{Arc, Mutex},
    task::{Context, Poll},
};

use libp2p_core::{Endpoint, Multiaddr, transport::{ListenerId, PortUse}};
use libp2p_identity::PeerId;
use libp2p_swarm::{
    ConnectionDenied, ConnectionId, FromSwarm, NetworkBehaviour, THandler, THandlerInEvent, THandlerOutEvent, ToSwarm,
};

#[derive(Clone, Debug, PartialEq, Eq)]
pub enum BEv {
    PendingInbound { conn: ConnectionId, local: Multiaddr, remote: Multiaddr, denied: bool },
    PendingOutbound { conn: ConnectionId, peer: Option<PeerId>, addrs: Vec<Multiaddr>, returned: Vec<Multiaddr>, denied: bool },
    EstablishedInbound { conn: ConnectionId, peer: PeerId, local: Multiaddr, remote: Multiaddr, denied: bool },
    EstablishedOutbound { conn: ConnectionId, peer: PeerId, addr: Multiaddr, denied: bool },
    ConnectionEstablished { conn: ConnectionId, peer: PeerId, outbound: bool, other_established: usize, failed_addresses: Vec<Multiaddr> },
    ConnectionClosed { conn: ConnectionId, peer: PeerId, remaining: usize, cause: Option<String> },
    DialFailure { conn: ConnectionId, peer: Option<PeerId>, error: String },
    ListenFailure { conn: ConnectionId, peer: Option<PeerId>, error: String, local: Multiaddr, send_back: Multiaddr },
    NewListener(ListenerId),
    NewListenAddr(ListenerId, Multiaddr),
    ExpiredListenAddr(ListenerId, Multiaddr),
    ListenerError(ListenerId),
    ListenerClosed(ListenerId, bool),
    NewExternalAddrCandidate(Multiaddr),
    ExternalAddrConfirmed(Multiaddr),
    ExternalAddrExpired(Multiaddr),
    NewExternalAddrOfPeer(PeerId, Multiaddr),
    AddressChange { conn: ConnectionId, peer: PeerId },
    HandlerEvent { conn: ConnectionId, peer: PeerId },
    /// what the inner behaviour asked the swarm to do (kind only)
    ToSwarm(&'static str),
    Other(String),
}

impl BEv {
    pub fn is_lifecycle(&self) -> bool {
        matches!(self, BEv::ConnectionEstablished { .. } | BEv::ConnectionClosed { .. } | BEv::DialFailure { .. } | BEv::ListenFailure { .. })
    }
}

#[derive(Clone, Copy, Debug, PartialEq, Eq, Hash)]
pub enum Point {
    PendingInbound,
    PendingOutbound,
    EstablishedInbound,
    EstablishedOutbound,
}

#[derive(Clone, Debug)]
pub struct Decision {
    pub point: Point,
    pub conn: ConnectionId,
    pub peer: Option<PeerId>,
}

pub type Log = Arc<Mutex<Vec<BEv>>>;
pub type DenyFn = Box<dyn FnMut(&Decision) -> bool + Send>;

/// classify errors by variant name only (stable, no payload)
pub fn dial_error_kind(e: &libp2p_swarm::DialError) -> String {
    use libp2p_swarm::DialError::*;
    match e {
        LocalPeerId { .. } => "LocalPeerId",
        NoAddresses => "NoAddresses",
        DialPeerConditionFalse(_) => "DialPeerConditionFalse",
        Aborted => "Aborted",
        WrongPeerId { .. } => "WrongPeerId",
        Denied { .. } => "Denied",
        Transport(_) => "Transport",
    }
    .to_string()
}
pub fn listen_error_kind(e: &libp2p_swarm::ListenError) -> String {
    use libp2p_swarm::ListenError::*;
    match e {
        Aborted => "Aborted",
        WrongPeerId { .. } => "WrongPeerId",
        LocalPeerId { .. } => "LocalPeerId",
        Denied { .. } => "Denied",
        Transport(_) => "Transport",
    }
    .to_string()
}

pub struct Recorder<B: NetworkBehaviour> {
    pub inner: B,
    pub log: Log,
    pub deny: Arc<Mutex<Option<DenyFn>>>,
    /// called with the inner behaviour whenever its poll returned Pending
    pub on_idle: Option<Box<dyn FnMut(&mut B)>>,
    /// called for every ToSwarm the inner behaviour emits, before it is handed to the swarm
    pub on_to_swarm: Option<Box<dyn FnMut(&mut B, &ToSwarm<B::ToSwarm, THandlerInEvent<B>>)>>,
    /// called for every handler event before it is forwarded
    /// called (with the inner behaviour) for every handler event *before* it is forwarded
    pub on_handler_event: Option<Box<dyn FnMut(&mut B, PeerId, ConnectionId, &THandlerOutEvent<B>)>>,
    /// called (with the inner behaviour) right after every FromSwarm event was forwarded
    pub after_swarm_event: Option<Box<dyn FnMut(&mut B)>>,
}

#[derive(Debug)]
struct Denied;
impl std::fmt::Display for Denied {
    fn fmt(&self, f: &mut std::fmt::Formatter<'_>) -> std::fmt::Result {
        write!(f, "denied by script")
    }
}
impl std::error::Error for Denied {}

impl<B: NetworkBehaviour> Recorder<B> {
    pub fn new(inner: B) -> Self {
        Recorder { inner, log: Arc::new(Mutex::new(vec![])), deny: Arc::new(Mutex::new(None)), on_idle: None, on_to_swarm: None, on_handler_event: None, after_swarm_event: None }
    }
    fn push(&self, e: BEv) {
        self.log.lock().unwrap().push(e);
    }
    fn denied(&self, d: Decision) -> bool {
        match self.deny.lock().unwrap().as_mut() {
            Some(f) => f(&d),
            None => false,
        }
    }
    pub fn take_log(&self) -> Vec<BEv> {
        std::mem::take(&mut *self.log.lock().unwrap())
    }
    pub fn set_deny(&self, f: Option<DenyFn>) {
        *self.deny.lock().unwrap() = f;
    }
}

impl<B: NetworkBehaviour> NetworkBehaviour for Recorder<B> {
    type ConnectionHandler = B::ConnectionHandler;
    type ToSwarm = B::ToSwarm;

    fn handle_pending_inbound_connection(&mut self, conn: ConnectionId, local: &Multiaddr, remote: &Multiaddr) -> Result<(), ConnectionDenied> {
        let mut denied = self.denied(Decision { point: Point::PendingInbound, conn, peer: None });
        let mut res = Ok(());
        if !denied {
            res = self.inner.handle_pending_inbound_connection(conn, local, remote);
            denied = res.is_err();
        } else {
            res = Err(ConnectionDenied::new(Denied));
        }
        self.push(BEv::PendingInbound { conn, local: local.clone(), remote: remote.clone(), denied });
        res
    }

    fn handle_established_inbound_connection(&mut self, conn: ConnectionId, peer: PeerId, local: &Multiaddr, remote: &Multiaddr) -> Result<THandler<Self>, ConnectionDenied> {
        let res = if self.denied(Decision { point: Point::EstablishedInbound, conn, peer: Some(peer) }) {
            Err(ConnectionDenied::new(Denied))
        } else {
            self.inner.handle_established_inbound_connection(conn, peer, local, remote)
        };
        self.push(BEv::EstablishedInbound { conn, peer, local: local.clone(), remote: remote.clone(), denied: res.is_err() });
        res
    }

    fn handle_pending_outbound_connection(&mut self, conn: ConnectionId, peer: Option<PeerId>, addrs: &[Multiaddr], role: Endpoint) -> Result<Vec<Multiaddr>, ConnectionDenied> {
        let res = if self.denied(Decision { point: Point::PendingOutbound, conn, peer }) {
            Err(ConnectionDenied::new(Denied))
        } else {
            self.inner.handle_pending_outbound_connection(conn, peer, addrs, role)
        };
        self.push(BEv::PendingOutbound {
            conn,
            peer,
            addrs: addrs.to_vec(),
            returned: res.as_ref().map(|v| v.clone()).unwrap_or_default(),
            denied: res.is_err(),
        });
        res
    }

    fn handle_established_outbound_connection(&mut self, conn: ConnectionId, peer: PeerId, addr: &Multiaddr, role: Endpoint, port_use: PortUse) -> Result<THandler<Self>, ConnectionDenied> {
        let res = if self.denied(Decision { point: Point::EstablishedOutbound, conn, peer: Some(peer) }) {
            Err(ConnectionDenied::new(Denied))
        } else {
            self.inner.handle_established_outbound_connection(conn, peer, addr, role, port_use)
        };
        self.push(BEv::EstablishedOutbound { conn, peer, addr: addr.clone(), denied: res.is_err() });
        res
    }

    fn on_swarm_event(&mut self, event: FromSwarm) {
        let e = match &event {
            FromSwarm::ConnectionEstablished(c) => BEv::ConnectionEstablished {
                conn: c.connection_id,
                peer: c.peer_id,
                outbound: c.endpoint.is_dialer(),
                other_established: c.other_established,
                failed_addresses: c.failed_addresses.to_vec(),
            },
            FromSwarm::ConnectionClosed(c) => BEv::ConnectionClosed {
                conn: c.connection_id,
                peer: c.peer_id,
                remaining: c.remaining_established,
                cause: c.cause.map(|e| format!("{e:?}")),
            },
            FromSwarm::DialFailure(d) => BEv::DialFailure { conn: d.connection_id, peer: d.peer_id, error: dial_error_kind(d.error) },
            FromSwarm::ListenFailure(l) => BEv::ListenFailure {
                conn: l.connection_id,
                peer: l.peer_id,
                error: listen_error_kind(l.error),
                local: l.local_addr.clone(),
                send_back: l.send_back_addr.clone(),
            },
            FromSwarm::NewListener(l) => BEv::NewListener(l.listener_id),
            FromSwarm::NewListenAddr(l) => BEv::NewListenAddr(l.listener_id, l.addr.clone()),
            FromSwarm::ExpiredListenAddr(l) => BEv::ExpiredListenAddr(l.listener_id, l.addr.clone()),
            FromSwarm::ListenerError(l) => BEv::ListenerError(l.listener_id),
            FromSwarm::ListenerClosed(l) => BEv::ListenerClosed(l.listener_id, l.reason.is_ok()),
            FromSwarm::NewExternalAddrCandidate(a) => BEv::NewExternalAddrCandidate(a.addr.clone()),
            FromSwarm::ExternalAddrConfirmed(a) => BEv::ExternalAddrConfirmed(a.addr.clone()),
            FromSwarm::ExternalAddrExpired(a) => BEv::ExternalAddrExpired(a.addr.clone()),
            FromSwarm::NewExternalAddrOfPeer(a) => BEv::NewExternalAddrOfPeer(a.peer_id, a.addr.clone()),
            FromSwarm::AddressChange(a) => BEv::AddressChange { conn: a.connection_id, peer: a.peer_id },
            other => BEv::Other(format!("{other:?}").chars().take(40).collect()),
        };
        self.push(e);
        self.inner.on_swarm_event(event);
        if let Some(f) = self.after_swarm_event.as_mut() {
            f(&mut self.inner);
        }
    }

    fn on_connection_handler_event(&mut self, peer: PeerId, conn: ConnectionId, event: THandlerOutEvent<Self>) {
        self.push(BEv::HandlerEvent { conn, peer });
        if let Some(mut f) = self.on_handler_event.take() {
            f(&mut self.inner, peer, conn, &event);
            self.on_handler_event = Some(f);
        }
        self.inner.on_connection_handler_event(peer, conn, event);
    }

    fn poll(&mut self, cx: &mut Context<'_>) -> Poll<ToSwarm<Self::ToSwarm, THandlerInEvent<Self>>> {
        match self.inner.poll(cx) {
            Poll::Ready(ev) => {
                let kind = match &ev {
                    ToSwarm::GenerateEvent(_) => "GenerateEvent",
                    ToSwarm::Dial { .. } => "Dial",
                    ToSwarm::ListenOn { .. } => "ListenOn",
                    ToSwarm::RemoveListener { .. } => "RemoveListener",
                    ToSwarm::NotifyHandler { .. } => "NotifyHandler",
                    ToSwarm::NewExternalAddrCandidate(_) => "NewExternalAddrCandidate",
                    ToSwarm::ExternalAddrConfirmed(_) => "ExternalAddrConfirmed",
                    ToSwarm::ExternalAddrExpired(_) => "ExternalAddrExpired",
                    ToSwarm::CloseConnection { .. } => "CloseConnection",
                    ToSwarm::NewExternalAddrOfPeer { .. } => "NewExternalAddrOfPeer",
                    _ => "Other",
                };
                self.push(BEv::ToSwarm(kind));
                if let Some(mut f) = self.on_to_swarm.take() {
                    f(&mut self.inner, &ev);
                    self.on_to_swarm = Some(f);
                }
                Poll::Ready(ev)
            }
            Poll::Pending => {
                if let Some(f) = self.on_idle.as_mut() {
                    f(&mut self.inner);
                }
                Poll::Pending
            }
        }
    }
}
