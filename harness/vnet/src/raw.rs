//! `Raw`: a behaviour that hands negotiated substreams to the harness (DESIGN W7). Each stream is
//! serviced by a pump task on the node's harness executor: bytes the harness queues are written and
//! flushed, everything readable is appended to a buffer the harness inspects at quiescent points.
//! With `vmon::pb` the harness speaks gossipsub / kad / identify / relay / ... by hand.
use std::{
    collections::{HashMap, VecDeque},
    sync::{Arc, Mutex},
    task::{Context, Poll, Waker},
};

use futures::{AsyncReadExt, AsyncWriteExt, StreamExt, channel::mpsc};
use libp2p_core::{Endpoint, Multiaddr, transport::PortUse};
use libp2p_identity::PeerId;
use libp2p_swarm::{
    ConnectionDenied, ConnectionHandler, ConnectionHandlerEvent, ConnectionId, FromSwarm, NetworkBehaviour, NotifyHandler, Stream,
    SubstreamProtocol, THandler, THandlerInEvent, THandlerOutEvent, ToSwarm, handler::ConnectionEvent,
};

use crate::{hub::SimExec, probe::ProbeUpgrade};

#[derive(Debug)]
pub enum RawIn {
    Open { proto: String, tag: u64 },
    SetProtocols(Vec<String>),
}
#[derive(Debug)]
pub enum RawOut {
    Inbound { proto: String, stream: Stream },
    Outbound { proto: String, tag: u64, stream: Stream },
    OpenFailed { tag: u64, error: String },
}

pub struct RawHandler {
    protocols: Vec<String>,
    keep_alive: bool,
    out: VecDeque<ConnectionHandlerEvent<ProbeUpgrade, u64, RawOut>>,
    waker: Option<Waker>,
}

impl ConnectionHandler for RawHandler {
    type FromBehaviour = RawIn;
    type ToBehaviour = RawOut;
    type InboundProtocol = ProbeUpgrade;
    type OutboundProtocol = ProbeUpgrade;
    type InboundOpenInfo = ();
    type OutboundOpenInfo = u64;

    fn listen_protocol(&self) -> SubstreamProtocol<ProbeUpgrade, ()> {
        SubstreamProtocol::new(ProbeUpgrade { protocols: self.protocols.clone() }, ())
    }
    fn connection_keep_alive(&self) -> bool {
        self.keep_alive
    }
    fn poll(&mut self, cx: &mut Context<'_>) -> Poll<ConnectionHandlerEvent<ProbeUpgrade, u64, RawOut>> {
        if let Some(e) = self.out.pop_front() {
            return Poll::Ready(e);
        }
        self.waker = Some(cx.waker().clone());
        Poll::Pending
    }
    fn on_behaviour_event(&mut self, ev: RawIn) {
        match ev {
            RawIn::Open { proto, tag } => self
                .out
                .push_back(ConnectionHandlerEvent::OutboundSubstreamRequest { protocol: SubstreamProtocol::new(ProbeUpgrade { protocols: vec![proto] }, tag) }),
            RawIn::SetProtocols(p) => self.protocols = p,
        }
        if let Some(w) = self.waker.take() {
            w.wake();
        }
    }
    fn on_connection_event(&mut self, event: ConnectionEvent<ProbeUpgrade, ProbeUpgrade, (), u64>) {
        match event {
            ConnectionEvent::FullyNegotiatedInbound(i) => {
                let (proto, stream) = i.protocol;
                self.out.push_back(ConnectionHandlerEvent::NotifyBehaviour(RawOut::Inbound { proto, stream }));
            }
            ConnectionEvent::FullyNegotiatedOutbound(o) => {
                let (proto, stream) = o.protocol;
                self.out.push_back(ConnectionHandlerEvent::NotifyBehaviour(RawOut::Outbound { proto, tag: o.info, stream }));
            }
            ConnectionEvent::DialUpgradeError(e) => {
                let kind = match e.error {
                    libp2p_swarm::StreamUpgradeError::Timeout => "Timeout",
                    libp2p_swarm::StreamUpgradeError::Apply(_) => "Apply",
                    libp2p_swarm::StreamUpgradeError::NegotiationFailed => "NegotiationFailed",
                    libp2p_swarm::StreamUpgradeError::Io(_) => "Io",
                };
                self.out.push_back(ConnectionHandlerEvent::NotifyBehaviour(RawOut::OpenFailed { tag: e.info, error: kind.into() }));
            }
            _ => {}
        }
        if let Some(w) = self.waker.take() {
            w.wake();
        }
    }
}

enum Tx {
    Write(Vec<u8>),
    Close,
}

#[derive(Default, Debug, Clone)]
pub struct StreamState {
    pub rx: Vec<u8>,
    pub rx_total: u64,
    pub read_eof: bool,
    pub read_err: Option<String>,
    pub write_err: Option<String>,
    pub write_closed: bool,
    pub written: u64,
}

/// Harness handle on one raw stream.
#[derive(Clone)]
pub struct RawStream {
    pub peer: PeerId,
    pub conn: ConnectionId,
    pub proto: String,
    pub inbound: bool,
    pub tag: u64,
    pub id: usize,
    state: Arc<Mutex<StreamState>>,
    tx: mpsc::UnboundedSender<Tx>,
}
impl RawStream {
    pub fn write(&self, b: impl Into<Vec<u8>>) {
        let _ = self.tx.unbounded_send(Tx::Write(b.into()));
    }
    /// half-close our write side
    pub fn close(&self) {
        let _ = self.tx.unbounded_send(Tx::Close);
    }
    /// take everything received so far
    pub fn take(&self) -> Vec<u8> {
        std::mem::take(&mut self.state.lock().unwrap().rx)
    }
    /// take all complete uvarint-length-prefixed frames received so far; the rest stays buffered
    pub fn take_frames(&self) -> Vec<Vec<u8>> {
        let mut s = self.state.lock().unwrap();
        let (frames, rest) = vmon::pb::unframe(&s.rx);
        s.rx = rest;
        frames
    }
    pub fn state(&self) -> StreamState {
        self.state.lock().unwrap().clone()
    }
}

async fn pump(stream: Stream, state: Arc<Mutex<StreamState>>, mut rx: mpsc::UnboundedReceiver<Tx>) {
    let (mut r, mut w) = stream.split();
    let st = state.clone();
    let reader = async move {
        let mut buf = vec![0u8; 16 * 1024];
        loop {
            match r.read(&mut buf).await {
                Ok(0) => {
                    st.lock().unwrap().read_eof = true;
                    break;
                }
                Ok(n) => {
                    let mut s = st.lock().unwrap();
                    s.rx.extend_from_slice(&buf[..n]);
                    s.rx_total += n as u64;
                }
                Err(e) => {
                    st.lock().unwrap().read_err = Some(format!("{:?}", e.kind()));
                    break;
                }
            }
        }
    };
    let st = state.clone();
    let writer = async move {
        while let Some(cmd) = rx.next().await {
            match cmd {
                Tx::Write(b) => {
                    let res = async {
                        w.write_all(&b).await?;
                        w.flush().await
                    }
                    .await;
                    match res {
                        Ok(()) => st.lock().unwrap().written += b.len() as u64,
                        Err(e) => {
                            st.lock().unwrap().write_err = Some(format!("{:?}", e.kind()));
                            break;
                        }
                    }
                }
                Tx::Close => {
                    let _ = w.close().await;
                    st.lock().unwrap().write_closed = true;
                    break;
                }
            }
        }
        // keep the write half alive until the harness drops its handle (sender closed)
        while rx.next().await.is_some() {}
    };
    futures::future::join(reader, writer).await;
}

#[derive(Clone, Debug, PartialEq, Eq)]
pub enum RawEvent {
    Stream { id: usize },
    OpenFailed { peer: PeerId, conn: ConnectionId, tag: u64, error: String },
}

pub struct RawShared {
    pub listen: Vec<String>,
    pub keep_alive: bool,
    queue: VecDeque<ToSwarm<RawEvent, RawIn>>,
    waker: Option<Waker>,
    pub streams: Vec<RawStream>,
    pub open_failed: Vec<(PeerId, ConnectionId, u64, String)>,
    pub conns: HashMap<PeerId, Vec<ConnectionId>>,
    pub closed: Vec<(PeerId, ConnectionId)>,
    /// addresses to offer for dials by peer id
    pub addresses: HashMap<PeerId, Vec<Multiaddr>>,
}

#[derive(Clone)]
pub struct RawCtl(pub Arc<Mutex<RawShared>>);
impl RawCtl {
    pub fn with<R>(&self, f: impl FnOnce(&mut RawShared) -> R) -> R {
        f(&mut self.0.lock().unwrap())
    }
    fn push(&self, ev: ToSwarm<RawEvent, RawIn>) {
        let w = self.with(|s| {
            s.queue.push_back(ev);
            s.waker.take()
        });
        if let Some(w) = w {
            w.wake();
        }
    }
    /// open an outbound stream to `peer` (on `conn` or any connection) negotiating `proto`
    pub fn open(&self, peer: PeerId, conn: Option<ConnectionId>, proto: &str, tag: u64) {
        self.push(ToSwarm::NotifyHandler {
            peer_id: peer,
            handler: conn.map(NotifyHandler::One).unwrap_or(NotifyHandler::Any),
            event: RawIn::Open { proto: proto.to_string(), tag },
        });
    }
    pub fn close_connection(&self, peer: PeerId, conn: Option<ConnectionId>) {
        self.push(ToSwarm::CloseConnection {
            peer_id: peer,
            connection: conn.map(libp2p_swarm::CloseConnection::One).unwrap_or(libp2p_swarm::CloseConnection::All),
        });
    }
    pub fn streams(&self) -> Vec<RawStream> {
        self.with(|s| s.streams.clone())
    }
    /// first stream matching (peer, proto, direction)
    pub fn find(&self, peer: &PeerId, proto: &str, inbound: bool) -> Option<RawStream> {
        self.with(|s| s.streams.iter().find(|x| &x.peer == peer && x.proto == proto && x.inbound == inbound).cloned())
    }
    pub fn find_all(&self, peer: &PeerId, proto: &str, inbound: bool) -> Vec<RawStream> {
        self.with(|s| s.streams.iter().filter(|x| &x.peer == peer && x.proto == proto && x.inbound == inbound).cloned().collect())
    }
    pub fn by_tag(&self, tag: u64) -> Option<RawStream> {
        self.with(|s| s.streams.iter().find(|x| !x.inbound && x.tag == tag).cloned())
    }
    pub fn connections(&self, peer: &PeerId) -> Vec<ConnectionId> {
        self.with(|s| s.conns.get(peer).cloned().unwrap_or_default())
    }
}

pub struct Raw {
    shared: Arc<Mutex<RawShared>>,
    exec: SimExec,
}

impl Raw {
    /// `listen`: protocol names accepted on inbound streams. `exec`: the node's harness executor
    /// (`Net::nodes[i].exec()` is not available before the node exists; use `Net::add_raw_node`).
    pub fn new(listen: Vec<String>, exec: SimExec) -> (Raw, RawCtl) {
        let shared = Arc::new(Mutex::new(RawShared {
            listen,
            keep_alive: true,
            queue: VecDeque::new(),
            waker: None,
            streams: vec![],
            open_failed: vec![],
            conns: HashMap::new(),
            closed: vec![],
            addresses: HashMap::new(),
        }));
        (Raw { shared: shared.clone(), exec }, RawCtl(shared))
    }
    fn handler(&self) -> RawHandler {
        let s = self.shared.lock().unwrap();
        RawHandler { protocols: s.listen.clone(), keep_alive: s.keep_alive, out: VecDeque::new(), waker: None }
    }
    fn adopt(&mut self, peer: PeerId, conn: ConnectionId, proto: String, inbound: bool, tag: u64, stream: Stream) {
        let state = Arc::new(Mutex::new(StreamState::default()));
        let (tx, rx) = mpsc::unbounded();
        let mut s = self.shared.lock().unwrap();
        let id = s.streams.len();
        s.streams.push(RawStream { peer, conn, proto, inbound, tag, id, state: state.clone(), tx });
        s.queue.push_back(ToSwarm::GenerateEvent(RawEvent::Stream { id }));
        drop(s);
        self.exec.spawn(pump(stream, state, rx));
    }
}

impl NetworkBehaviour for Raw {
    type ConnectionHandler = RawHandler;
    type ToSwarm = RawEvent;

    fn handle_established_inbound_connection(&mut self, _: ConnectionId, _: PeerId, _: &Multiaddr, _: &Multiaddr) -> Result<THandler<Self>, ConnectionDenied> {
        Ok(self.handler())
    }
    fn handle_pending_outbound_connection(&mut self, _: ConnectionId, peer: Option<PeerId>, _: &[Multiaddr], _: Endpoint) -> Result<Vec<Multiaddr>, ConnectionDenied> {
        let s = self.shared.lock().unwrap();
        Ok(peer.and_then(|p| s.addresses.get(&p).cloned()).unwrap_or_default())
    }
    fn handle_established_outbound_connection(&mut self, _: ConnectionId, _: PeerId, _: &Multiaddr, _: Endpoint, _: PortUse) -> Result<THandler<Self>, ConnectionDenied> {
        Ok(self.handler())
    }
    fn on_swarm_event(&mut self, event: FromSwarm) {
        let mut s = self.shared.lock().unwrap();
        match event {
            FromSwarm::ConnectionEstablished(c) => s.conns.entry(c.peer_id).or_default().push(c.connection_id),
            FromSwarm::ConnectionClosed(c) => {
                if let Some(v) = s.conns.get_mut(&c.peer_id) {
                    v.retain(|x| *x != c.connection_id);
                }
                s.closed.push((c.peer_id, c.connection_id));
            }
            _ => {}
        }
    }
    fn on_connection_handler_event(&mut self, peer: PeerId, conn: ConnectionId, ev: THandlerOutEvent<Self>) {
        match ev {
            RawOut::Inbound { proto, stream } => self.adopt(peer, conn, proto, true, 0, stream),
            RawOut::Outbound { proto, tag, stream } => self.adopt(peer, conn, proto, false, tag, stream),
            RawOut::OpenFailed { tag, error } => {
                let mut s = self.shared.lock().unwrap();
                s.open_failed.push((peer, conn, tag, error.clone()));
                s.queue.push_back(ToSwarm::GenerateEvent(RawEvent::OpenFailed { peer, conn, tag, error }));
            }
        }
    }
    fn poll(&mut self, cx: &mut Context<'_>) -> Poll<ToSwarm<RawEvent, THandlerInEvent<Self>>> {
        let mut s = self.shared.lock().unwrap();
        if let Some(e) = s.queue.pop_front() {
            return Poll::Ready(e);
        }
        s.waker = Some(cx.waker().clone());
        Poll::Pending
    }
}
