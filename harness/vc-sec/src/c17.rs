//! C17 — a Noise channel delivers exactly the written bytes, or fails.
//!
//! Real code: `libp2p_noise::Config` upgrades and the resulting `Output` (`AsyncRead`/`AsyncWrite`)
//! on both ends of a `vmon::pipe`.
//!
//! (a) transparency: after a real handshake both directions carry write scripts concurrently; chunk
//!     sizes from {0, 1, .., MAX_FRAME_LEN-1, MAX_FRAME_LEN, MAX_FRAME_LEN+1, 2*MAX_FRAME_LEN+5, 200 KiB}
//!     (MAX_FRAME_LEN = 65535 - 1024 as documented in `framed.rs`), flushes at PRNG points, transport
//!     chunking / spurious `Pending` / bounded capacity on both pipe directions, reader buffer sizes
//!     1..65536. Bytes are position-tagged. Oracle: bytes read == bytes written, per direction.
//! (b) tampering: fresh session per case; the writer sends k frames (one per flush) and closes; one
//!     byte of the recorded ciphertext stream (length prefixes included) is flipped in transit, at
//!     **every position** of the stream (quick: small frames; thorough: also a full-size frame, all
//!     positions, one session each). Oracle: the reader's byte stream is a prefix of the written
//!     plaintext and the read sequence ends in `Err` (never in a clean EOF, never in other bytes).
//!     Also mid-frame truncation: delivered bytes are a prefix made of whole earlier frames.
//!
//! Not judged: truncation exactly at a frame boundary (Noise has no close authentication);
//! behaviour of reads after the first error; whether all frames before the tampered one are
//! delivered before the error (counted as `clean_prefix_delivered`).
use std::sync::atomic::AtomicU32;

use futures::{AsyncReadExt, AsyncWriteExt};
use libp2p_core::upgrade::{InboundConnectionUpgrade, OutboundConnectionUpgrade};
use libp2p_identity::PeerId;
use libp2p_noise as noise;
use vmon::{
    Args, Check, Rng, Sig, Tier, catch, json,
    pipe::{DirCtl, End, Sched, pipe},
};

use crate::util::*;

pub const MAX_FRAME_LEN: usize = 65535 - 1024;

static S_T: AtomicU32 = AtomicU32::new(0);
static S_F: AtomicU32 = AtomicU32::new(0);

pub type Session = (PeerId, noise::Output<End>);

/// real handshake between two configs over the given ends, driven deterministically
pub fn handshake(cfg_a: noise::Config, cfg_b: noise::Config, a: End, b: End) -> Driven<(Result<Session, noise::Error>, Result<Session, noise::Error>)> {
    drive(futures::future::join(cfg_a.upgrade_outbound(a, "/noise"), cfg_b.upgrade_inbound(b, "/noise")), 2_000_000)
}

fn tagged(rng: &mut Rng, n: usize, tag: u8) -> Vec<u8> {
    let salt = rng.next_u32();
    (0..n).map(|i| ((i as u32).wrapping_mul(2654435761).wrapping_add(salt) >> 11) as u8 ^ tag).collect()
}

fn transparency_case(check: &Check, rng: &mut Rng) {
    let ka = gen_key(rng.usize(3), rng);
    let kb = gen_key(rng.usize(3), rng);
    let (sa, sb) = if rng.chance(1, 5) { (Sched::smooth(), Sched::smooth()) } else { (Sched::random(rng), Sched::random(rng)) };
    let desc = format!("{} | {}", sa.describe(), sb.describe());
    let fine = [sa.max_read, sa.max_write, sb.max_read, sb.max_write].iter().any(|m| *m <= 8);
    let coarse = [sa.max_read, sa.max_write, sb.max_read, sb.max_write].iter().all(|m| *m >= 4096);
    let (a, b, a2b, b2a) = pipe(sa, sb);
    let caps = [None, None, Some(1usize), Some(100), Some(4096), Some(70_000)];
    let (ca, cb) = (*rng.pick(&caps), *rng.pick(&caps));
    let (Ok(ca_cfg), Ok(cb_cfg)) = (noise::Config::new(&ka), noise::Config::new(&kb)) else {
        return check.inconclusive("noise::Config::new failed");
    };
    let hs = match catch(|| handshake(ca_cfg, cb_cfg, a, b)) {
        Err(p) => return check.violation(format!("panic@{}", p.site()), format!("handshake panicked: {}", p.msg), json!({"schedules": desc})),
        Ok(Driven::Budget) => return check.inconclusive("handshake poll budget"),
        Ok(Driven::Stalled) => return check.violation("honest-handshake-stalls", "both honest sides wait forever on a lossless pipe", json!({"schedules": desc})),
        Ok(Driven::Done(h)) => h,
    };
    let (oa, ob) = match hs {
        (Ok((_, oa)), Ok((_, ob))) => (oa, ob),
        (x, y) => return check.violation("honest-handshake-fails", format!("{:?} / {:?}", x.err().map(|e| e.to_string()), y.err().map(|e| e.to_string())), json!({"schedules": desc})),
    };
    a2b.set_capacity(ca);
    b2a.set_capacity(cb);
    let script = |tag: u8, rng: &mut Rng| -> Vec<(Vec<u8>, bool)> {
        let n = rng.range(0, 8) as usize;
        (0..n)
            .map(|_| {
                let small = [0usize, 1, 2, 15, 16, 17, 255, 1000];
                let big = [MAX_FRAME_LEN - 1, MAX_FRAME_LEN, MAX_FRAME_LEN + 1, 65535, 65536, 2 * MAX_FRAME_LEN + 5, 200 * 1024];
                let len = if fine || rng.chance(2, 3) {
                    *rng.pick(&small)
                } else if coarse {
                    *rng.pick(&big)
                } else {
                    *rng.pick(&big[..5])
                };
                (tagged(rng, len, tag), rng.chance(1, 3))
            })
            .collect()
    };
    let (wa, wb) = (script(0x21, rng), script(0x43, rng));
    let sent_a: Vec<u8> = wa.iter().flat_map(|(c, _)| c.clone()).collect();
    let sent_b: Vec<u8> = wb.iter().flat_map(|(c, _)| c.clone()).collect();
    let reads: Vec<usize> = (0..6).map(|_| *rng.pick(&[1usize, 3, 100, 4096, 65536])).collect();
    let reads = if sent_a.len() + sent_b.len() > 100_000 { vec![4096, 65536, 1000] } else { reads };
    let side = |out: noise::Output<End>, script: Vec<(Vec<u8>, bool)>, reads: Vec<usize>| async move {
        let (mut r, mut w) = out.split();
        let writer = async move {
            for (chunk, flush) in script {
                w.write_all(&chunk).await.map_err(|e| format!("write: {e}"))?;
                if flush {
                    w.flush().await.map_err(|e| format!("flush: {e}"))?;
                }
            }
            w.close().await.map_err(|e| format!("close: {e}"))?;
            Ok::<_, String>(())
        };
        let reader = async move {
            let mut got = vec![];
            let mut i = 0;
            loop {
                let mut buf = vec![0u8; reads[i % reads.len()]];
                i += 1;
                let n = r.read(&mut buf).await.map_err(|e| format!("read: {e}"))?;
                if n == 0 {
                    break;
                }
                got.extend_from_slice(&buf[..n]);
            }
            Ok::<_, String>(got)
        };
        let (w, r) = futures::future::join(writer, reader).await;
        w?;
        r
    };
    let witness = || json!({"schedules": desc, "capacity": [ca, cb], "a_script": wa.iter().map(|(c, f)| json!([c.len(), f])).collect::<Vec<_>>(),
        "b_script": wb.iter().map(|(c, f)| json!([c.len(), f])).collect::<Vec<_>>(), "read_sizes": reads});
    let fut = futures::future::join(side(oa, wa.clone(), reads.clone()), side(ob, wb.clone(), reads.clone()));
    let poll_budget = 2_000_000 + 400 * (sent_a.len() + sent_b.len()) as u64;
    match catch(|| drive(fut, poll_budget)) {
        Err(p) => check.violation(format!("panic@{}", p.site()), format!("noise io panicked: {}", p.msg), witness()),
        Ok(Driven::Budget) => check.inconclusive("noise transparency poll budget"),
        // every byte was written, flushed and the writers closed; the pipe is lossless; yet a reader never sees
        // its data / EOF and no waker is outstanding: bytes are stuck inside the channel
        Ok(Driven::Stalled) => check.violation("noise-stream-stalls", "written and closed, but the peer's read never completes (logical deadlock, no outstanding waker)", witness()),
        Ok(Driven::Done((ra, rb))) => {
            for (who, got, want) in [("b-to-a", &ra, &sent_b), ("a-to-b", &rb, &sent_a)] {
                match got {
                    Err(e) => check.violation(format!("noise-io-error-{}", e.split(':').next().unwrap_or("?")), format!("{who}: {e}"), witness()),
                    Ok(g) if g != want => {
                        let common = g.iter().zip(want.iter()).take_while(|(x, y)| x == y).count();
                        let sig = if g.len() < want.len() { "noise-bytes-lost" } else if g.len() > want.len() { "noise-bytes-added" } else { "noise-bytes-altered" };
                        check.violation(sig, format!("{who}: read {} bytes, written {}, equal prefix {common}", g.len(), want.len()), witness());
                    }
                    Ok(_) => {}
                }
            }
            let crosses = wa.iter().chain(wb.iter()).any(|(c, _)| c.len() >= MAX_FRAME_LEN);
            check.count("payload_bytes", (sent_a.len() + sent_b.len()) as u64);
            check.count("wire_bytes", a2b.written() + b2a.written());
            if crosses {
                check.count("cases_with_write_over_one_frame", 1);
            }
            check.case(Sig::new().str(&desc).u64(sent_a.len() as u64).u64(sent_b.len() as u64).u64(ca.unwrap_or(0) as u64).0, !sent_a.is_empty() || !sent_b.is_empty());
            if take_sample(&S_T, 3) {
                check.sample(json!({"kind": "transparency", "witness": witness()}));
            }
        }
    }
}

/// Early data: no barrier between handshake and application traffic. Each side upgrades and then writes (and
/// flushes) at once, so the responder can find the initiator's last handshake message and its first data frames
/// in one read (and vice versa for data following the responder's handshake message). Same byte-equality oracle.
fn early_data_case(check: &Check, rng: &mut Rng) {
    let ka = gen_key(rng.usize(3), rng);
    let kb = gen_key(rng.usize(3), rng);
    let (sa, sb) = if rng.chance(1, 2) { (Sched::smooth(), Sched::smooth()) } else { (Sched::random(rng), Sched::random(rng)) };
    let desc = format!("early data; {} | {}", sa.describe(), sb.describe());
    let (a, b, _a2b, _b2a) = pipe(sa, sb);
    let (Ok(ca_cfg), Ok(cb_cfg)) = (noise::Config::new(&ka), noise::Config::new(&kb)) else {
        return check.inconclusive("noise::Config::new failed");
    };
    let mk = |tag: u8, rng: &mut Rng| -> Vec<Vec<u8>> { (0..rng.range(1, 4)).map(|_| { let n = *rng.pick(&[1usize, 17, 1000, 5031]); tagged(rng, n, tag) }).collect() };
    let (wa, wb) = (mk(0x21, rng), mk(0x43, rng));
    let sent_a: Vec<u8> = wa.concat();
    let sent_b: Vec<u8> = wb.concat();
    let small_reads = rng.bool();
    async fn traffic(out: noise::Output<End>, chunks: Vec<Vec<u8>>, small: bool) -> Result<Vec<u8>, String> {
        let (mut r, mut w) = out.split();
        let writer = async move {
            for c in chunks {
                w.write_all(&c).await.map_err(|e| format!("write: {e}"))?;
                w.flush().await.map_err(|e| format!("flush: {e}"))?;
            }
            w.close().await.map_err(|e| format!("close: {e}"))
        };
        let reader = async move {
            let mut got = vec![];
            loop {
                let mut buf = vec![0u8; if small { 7 } else { 4096 }];
                let n = r.read(&mut buf).await.map_err(|e| format!("read: {e}"))?;
                if n == 0 {
                    break;
                }
                got.extend_from_slice(&buf[..n]);
            }
            Ok::<_, String>(got)
        };
        let (w, r) = futures::future::join(writer, reader).await;
        w?;
        r
    }
    let fa = async move {
        let (_, out) = ca_cfg.upgrade_outbound(a, "/noise").await.map_err(|e| format!("handshake: {e}"))?;
        traffic(out, wa, small_reads).await
    };
    let fb = async move {
        let (_, out) = cb_cfg.upgrade_inbound(b, "/noise").await.map_err(|e| format!("handshake: {e}"))?;
        traffic(out, wb, small_reads).await
    };
    let witness = || json!({"schedules": desc, "a_bytes": sent_a.len(), "b_bytes": sent_b.len(), "small_reads": small_reads});
    match catch(|| drive(futures::future::join(fa, fb), 4_000_000)) {
        Err(p) => check.violation(format!("panic@{}", p.site()), format!("noise early data panicked: {}", p.msg), witness()),
        Ok(Driven::Budget) => check.inconclusive("noise early-data poll budget"),
        Ok(Driven::Stalled) => check.violation("noise-stream-stalls", "early data: written and closed, but the peer's read never completes", witness()),
        Ok(Driven::Done((ra, rb))) => {
            for (who, got, want) in [("b-to-a", &ra, &sent_b), ("a-to-b", &rb, &sent_a)] {
                match got {
                    Err(e) => check.violation(format!("noise-io-error-{}", e.split(':').next().unwrap_or("?")), format!("early data, {who}: {e}"), witness()),
                    Ok(g) if g != want => {
                        let sig = if g.len() < want.len() { "noise-bytes-lost" } else if g.len() > want.len() { "noise-bytes-added" } else { "noise-bytes-altered" };
                        check.violation(sig, format!("early data, {who}: read {} bytes, written {}", g.len(), want.len()), witness());
                    }
                    Ok(_) => {}
                }
            }
            check.case(Sig::new().str(&desc).u64(sent_a.len() as u64).u64(sent_b.len() as u64).0, true);
            check.count("early_data_cases", 1);
        }
    }
}

#[derive(Clone, Debug)]
enum Fault {
    Flip { at: u64, mask: u8 },
    Truncate { at: u64 },
}

/// One fresh session; `dir_a_to_b` chooses which side writes. Frames = plaintext per flush.
/// `fault.at` is relative to the start of the post-handshake ciphertext of the writing direction.
fn tamper_session(check: &Check, keys: &(noise::Config, noise::Config), frames: &[Vec<u8>], dir_a_to_b: bool, fault: &Fault) {
    let (a, b, a2b, b2a) = pipe(Sched::smooth(), Sched::smooth());
    let hs = match catch(|| handshake(keys.0.clone(), keys.1.clone(), a, b)) {
        Err(p) => return check.violation(format!("panic@{}", p.site()), p.msg.clone(), json!({})),
        Ok(Driven::Budget) => return check.inconclusive("handshake poll budget"),
        Ok(Driven::Stalled) => return check.violation("honest-handshake-stalls", "both honest sides wait forever on a lossless pipe", json!({})),
        Ok(Driven::Done(h)) => h,
    };
    let ((_, oa), (_, ob)) = match hs {
        (Ok(x), Ok(y)) => (x, y),
        _ => return check.violation("honest-handshake-fails", "smooth pipe", json!({})),
    };
    let (mut w, mut r, ctl): (noise::Output<End>, noise::Output<End>, DirCtl) = if dir_a_to_b { (oa, ob, a2b) } else { (ob, oa, b2a) };
    let base = ctl.written();
    match fault {
        Fault::Flip { at, mask } => ctl.flip_at(base + at, *mask),
        Fault::Truncate { at } => ctl.truncate_at(base + at),
    }
    let plain: Vec<u8> = frames.concat();
    let witness = || json!({"frames": frames.iter().map(|f| f.len()).collect::<Vec<_>>(), "fault": format!("{fault:?}"), "direction": if dir_a_to_b { "initiator-to-responder" } else { "responder-to-initiator" }});
    let fs = frames.to_vec();
    let res = catch(|| {
        drive(
            async move {
                for f in &fs {
                    // writer errors (pipe closed by a truncation) are the transport's, not judged
                    if w.write_all(f).await.is_err() || w.flush().await.is_err() {
                        break;
                    }
                }
                let _ = w.close().await;
                drop(w);
                let mut got = vec![];
                let mut buf = vec![0u8; 70_000];
                let end = loop {
                    match r.read(&mut buf).await {
                        Ok(0) => break Ok(()),
                        Ok(n) => got.extend_from_slice(&buf[..n]),
                        Err(e) => break Err(e),
                    }
                };
                (got, end)
            },
            20_000_000,
        )
    });
    let (got, end) = match res {
        Err(p) => return check.violation(format!("panic@{}", p.site()), format!("noise read panicked: {}", p.msg), witness()),
        Ok(Driven::Budget) => return check.inconclusive("tamper poll budget"),
        // the writer closed its end, so the reader must reach an error or EOF
        Ok(Driven::Stalled) => return check.violation("tampered-stream-reader-stalls", "reader neither errors nor sees EOF although the writer closed", witness()),
        Ok(Driven::Done(x)) => x,
    };
    // which frame holds the fault
    let at = match fault {
        Fault::Flip { at, .. } | Fault::Truncate { at } => *at as usize,
    };
    let mut off = 0usize;
    let mut before = 0usize; // plaintext bytes in frames entirely before the faulty one
    let mut in_prefix = false;
    for f in frames {
        let wire = 2 + f.len() + 16;
        if at < off + wire {
            in_prefix = at < off + 2;
            break;
        }
        off += wire;
        before += f.len();
    }
    let is_prefix = got.len() <= plain.len() && got[..] == plain[..got.len()];
    match fault {
        Fault::Flip { .. } => {
            if !is_prefix {
                check.violation(if in_prefix { "tampered-length-yields-altered-plaintext" } else { "tampered-ciphertext-yields-altered-plaintext" }, format!("reader got {} bytes that are not a prefix of the {} written", got.len(), plain.len()), witness());
            } else if end.is_ok() {
                check.violation(if got.len() == plain.len() { "tampered-ciphertext-accepted" } else { "tampered-ciphertext-clean-eof" }, format!("reader saw a clean EOF after {} of {} bytes", got.len(), plain.len()), witness());
            } else if got.len() > before {
                check.violation("tampered-frame-partially-delivered", format!("{} bytes delivered, only {} precede the tampered frame", got.len(), before), witness());
            } else if got.len() == before {
                check.count("clean_prefix_delivered", 1);
            }
            check.count(if in_prefix { "flips_in_length_prefix" } else { "flips_in_ciphertext" }, 1);
        }
        Fault::Truncate { .. } => {
            if !is_prefix || got.len() > before {
                check.violation("truncated-frame-yields-plaintext", format!("{} bytes delivered, {} precede the truncated frame", got.len(), before), witness());
            }
            check.count(if end.is_err() { "truncations_error" } else { "truncations_clean_eof" }, 1);
        }
    }
    check.cases(1);
    if take_sample(&S_F, 2) {
        check.sample(json!({"kind": "tamper", "witness": witness(), "delivered": got.len(), "read_end": end.err().map(|e| e.to_string())}));
    }
}

fn tamper_layout(check: &Check, rng: &mut Rng, sizes: &[usize], all_bits: bool, stride: usize) {
    let ka = gen_key(rng.usize(3), rng);
    let kb = gen_key(rng.usize(3), rng);
    let (Ok(ca), Ok(cb)) = (noise::Config::new(&ka), noise::Config::new(&kb)) else {
        return check.inconclusive("noise::Config::new failed");
    };
    let keys = (ca, cb);
    let frames: Vec<Vec<u8>> = sizes.iter().enumerate().map(|(i, n)| tagged(rng, *n, i as u8)).collect();
    let wire_len: usize = sizes.iter().map(|n| 2 + n + 16).sum();
    let dir = rng.bool();
    let mut at = 0;
    while at < wire_len {
        let ms: Vec<u8> = if all_bits { (0..8).map(|b| 1u8 << b).collect() } else { vec![1u8 << rng.usize(8)] };
        for mask in ms {
            tamper_session(check, &keys, &frames, dir, &Fault::Flip { at: at as u64, mask });
        }
        if stride == 1 || rng.chance(1, 4) {
            tamper_session(check, &keys, &frames, dir, &Fault::Truncate { at: at as u64 });
        }
        at += stride;
    }
    check.nontrivial(Sig::new().u64(wire_len as u64).u64(sizes.len() as u64).u64(dir as u64).0);
    check.count("tamper_layouts", 1);
    check.count("tamper_stream_bytes_covered", (wire_len / stride) as u64);
}

pub fn run(args: &Args) -> i32 {
    let check = Check::new(
        args,
        "fault_enumeration",
        "transparency: honest pairs x PRNG chunk/Pending schedules x capacities x write scripts (sizes around MAX_FRAME_LEN, \
         200 KiB) both directions; tamper: frame layouts (1-4 frames) x every byte position of the post-handshake ciphertext \
         stream x bit mask, one fresh session per (position, mask), plus truncation at the position. non-trivial = \
         transparency case carrying >= 1 byte, or a tamper layout; distinct by (schedule, sizes)",
    );
    let thorough = args.tier == Tier::Thorough;
    let n_t = budget(args, 12, 300, 8_000);
    vmon::par_cases(&check, n_t, args.threads, |_, rng| transparency_case(&check, rng));
    vmon::par_cases(&check, n_t, args.threads, |_, rng| early_data_case(&check, rng));
    check.note("phase_s_transparency", json!(check.elapsed()));
    // small layouts: every position
    let n_l = budget(args, 3, 40, 400);
    vmon::par_cases(&check, n_l, args.threads, |i, rng| {
        let k = 1 + (i % 4) as usize;
        let sizes: Vec<usize> = (0..k).map(|_| *rng.pick(&[1usize, 2, 5, 16, 31, 40])).collect();
        tamper_layout(&check, rng, &sizes, thorough && i < 64, 1);
    });
    check.note("phase_s_tamper_small", json!(check.elapsed()));
    // big frames: thorough = every position of a full-size frame (sharded), quick = strided
    if !is_tiny(args) {
        let shards = 16u64;
        vmon::par_cases(&check, shards, args.threads, |i, rng| {
            let sizes = if i % 2 == 0 { vec![MAX_FRAME_LEN] } else { vec![300, MAX_FRAME_LEN, 7] };
            if thorough {
                // each shard covers positions i, i+16, ... of the stream: together every position
                let ka = gen_key(ED25519, rng);
                let kb = gen_key(ED25519, rng);
                let keys = (noise::Config::new(&ka).unwrap(), noise::Config::new(&kb).unwrap());
                let sizes = vec![300, MAX_FRAME_LEN, 7];
                let mut frng = Rng::new(args.seed ^ 0xF00D);
                let frames: Vec<Vec<u8>> = sizes.iter().enumerate().map(|(j, n)| tagged(&mut frng, *n, j as u8)).collect();
                let wire_len: usize = sizes.iter().map(|n| 2 + n + 16).sum();
                let mut at = i as usize;
                while at < wire_len {
                    tamper_session(&check, &keys, &frames, true, &Fault::Flip { at: at as u64, mask: 1 << rng.usize(8) });
                    at += shards as usize;
                }
                check.count("tamper_stream_bytes_covered", (wire_len as u64) / shards);
            } else {
                tamper_layout(&check, rng, &sizes, false, 997);
            }
        });
        check.note("full_frame_every_position", json!(thorough));
    }
    check.note("exhaustive", json!("every byte position of each tampered stream (small layouts; thorough: also a 64.5 KiB frame)"));
    check.finish()
}
