//! C18 — TLS certificates bind the peer id to a proof of key possession.
//!
//! Real code: `libp2p_tls::certificate::{generate, parse}` and `P2pCertificate::peer_id`.
//!
//! Reference walk (independent: own DER reader in `util`, ring for the self-signature, the statement's
//! list of conditions): a certificate is acceptable iff
//!   1. its signature over the raw TBS bytes verifies under its own SubjectPublicKeyInfo with an
//!      allowed algorithm (ECDSA P-256/P-384 with SHA-256/384, Ed25519, RSA PKCS#1 / PSS with SHA-256/384/512;
//!      never SHA-1/MD5),
//!   2. notBefore <= now <= notAfter,
//!   3. it has exactly one extension 1.3.6.1.4.1.53594.1.1, whose SignedKey{publicKey, signature}
//!      verifies: host key signs "libp2p-tls-handshake:" ++ SubjectPublicKeyInfo,
//!   4. no other extension is critical;
//! and then its peer id is the id of that host key.
//!
//! (a) `generate` for host keys of all four types: the result must be accepted with the host key's id
//!     (without that nothing else is observable), and the reference walk must agree.
//! (b) mutation of generated certificates: every byte position x {^0x01, ^0x80, =0x00, =0xff} (thorough:
//!     all 255 other values), plus truncations and single-byte deletions/insertions. Oracle: accepted ⇒
//!     same peer id as the original, and the reference walk of the mutated bytes does not refute any
//!     condition (walks that cannot parse the mutated DER are counted, not judged).
//! (c) structural variants assembled in the harness (own TBS builder, signed with ring): no / two
//!     libp2p extensions, non-critical libp2p extension, extra unknown critical / non-critical extension,
//!     expired / not yet valid, extension signed by another host key, extension lifted from another
//!     certificate, wrong signing prefix, not self-signed, TBS changed after signing, SHA-1 / mismatching
//!     signature algorithm identifiers, P-384 / Ed25519 / RSA certificate keys, garbage extension
//!     values. Oracle: variants that break a condition are rejected; whatever is accepted passes the
//!     reference walk and reports the id of the host key that signed.
//!
//! Not judged: rejection of certificates the reference accepts (the statement is "only if");
//! certificates whose only critical extra extension is a standard X.509 one.
use std::{
    sync::atomic::AtomicU32,
    time::{SystemTime, UNIX_EPOCH},
};

use libp2p_identity::{Keypair, PeerId, PublicKey};
use libp2p_tls::certificate;
use ring::{
    rand::SystemRandom,
    signature::{self, EcdsaKeyPair, Ed25519KeyPair, KeyPair as _, RsaKeyPair},
};
use rustls_pki_types::CertificateDer;
use vmon::{Args, Check, Rng, Sig, Tier, catch, hex, json};

use crate::util::*;

static S_G: AtomicU32 = AtomicU32::new(0);
static S_V: AtomicU32 = AtomicU32::new(0);

const OID_EC_PUBLIC_KEY: &[u8] = &[0x06, 0x07, 0x2A, 0x86, 0x48, 0xCE, 0x3D, 0x02, 0x01];
const OID_P256: &[u8] = &[0x06, 0x08, 0x2A, 0x86, 0x48, 0xCE, 0x3D, 0x03, 0x01, 0x07];
const OID_P384: &[u8] = &[0x06, 0x05, 0x2B, 0x81, 0x04, 0x00, 0x22];
const OID_ECDSA_SHA1: &[u8] = &[0x06, 0x07, 0x2A, 0x86, 0x48, 0xCE, 0x3D, 0x04, 0x01];
const OID_ECDSA_SHA256: &[u8] = &[0x06, 0x08, 0x2A, 0x86, 0x48, 0xCE, 0x3D, 0x04, 0x03, 0x02];
const OID_ECDSA_SHA384: &[u8] = &[0x06, 0x08, 0x2A, 0x86, 0x48, 0xCE, 0x3D, 0x04, 0x03, 0x03];
const OID_ED25519: &[u8] = &[0x06, 0x03, 0x2B, 0x65, 0x70];
const OID_RSA: &[u8] = &[0x06, 0x09, 0x2A, 0x86, 0x48, 0x86, 0xF7, 0x0D, 0x01, 0x01, 0x01];
const OID_RSA_SHA256: &[u8] = &[0x06, 0x09, 0x2A, 0x86, 0x48, 0x86, 0xF7, 0x0D, 0x01, 0x01, 0x0B];
const OID_RSA_SHA384: &[u8] = &[0x06, 0x09, 0x2A, 0x86, 0x48, 0x86, 0xF7, 0x0D, 0x01, 0x01, 0x0C];
const OID_RSA_SHA512: &[u8] = &[0x06, 0x09, 0x2A, 0x86, 0x48, 0x86, 0xF7, 0x0D, 0x01, 0x01, 0x0D];
const OID_RSA_PSS: &[u8] = &[0x06, 0x09, 0x2A, 0x86, 0x48, 0x86, 0xF7, 0x0D, 0x01, 0x01, 0x0A];
const OID_SHA256: &[u8] = &[0x06, 0x09, 0x60, 0x86, 0x48, 0x01, 0x65, 0x03, 0x04, 0x02, 0x01];
const OID_SHA384: &[u8] = &[0x06, 0x09, 0x60, 0x86, 0x48, 0x01, 0x65, 0x03, 0x04, 0x02, 0x02];
const OID_SHA512: &[u8] = &[0x06, 0x09, 0x60, 0x86, 0x48, 0x01, 0x65, 0x03, 0x04, 0x02, 0x03];
const OID_P2P_EXT: &[u8] = &[0x06, 0x0A, 0x2B, 0x06, 0x01, 0x04, 0x01, 0x83, 0xA2, 0x5A, 0x01, 0x01];
const OID_UNKNOWN_EXT: &[u8] = &[0x06, 0x0A, 0x2B, 0x06, 0x01, 0x04, 0x01, 0x83, 0xA2, 0x5A, 0x09, 0x09];
const PREFIX: &[u8] = b"libp2p-tls-handshake:";
const NULL: &[u8] = &[0x05, 0x00];

// ---------------------------------------------------------------------------------------------
// reference walk
// ---------------------------------------------------------------------------------------------

#[derive(Debug)]
enum Walk {
    /// the reference reader cannot parse these bytes (not judged)
    Unparsed(String),
    /// a condition of the statement is refuted
    Refuted(&'static str, String),
    Acceptable(PeerId),
}

fn days_from_civil(y: i64, m: i64, d: i64) -> i64 {
    let y = if m <= 2 { y - 1 } else { y };
    let era = if y >= 0 { y } else { y - 399 } / 400;
    let yoe = y - era * 400;
    let doy = (153 * (if m > 2 { m - 3 } else { m + 9 }) + 2) / 5 + d - 1;
    let doe = yoe * 365 + yoe / 4 - yoe / 100 + doy;
    era * 146097 + doe - 719468
}

fn parse_time(t: &Tlv<'_>) -> Option<i64> {
    let s = std::str::from_utf8(t.body).ok()?;
    let (year, rest) = match t.tag {
        0x17 => {
            let yy: i64 = s.get(..2)?.parse().ok()?;
            (if yy >= 50 { 1900 + yy } else { 2000 + yy }, s.get(2..)?)
        }
        0x18 => (s.get(..4)?.parse().ok()?, s.get(4..)?),
        _ => return None,
    };
    if rest.len() != 11 || !rest.ends_with('Z') || !rest[..10].bytes().all(|b| b.is_ascii_digit()) {
        return None;
    }
    let n = |i: usize| -> i64 { rest[i..i + 2].parse().unwrap_or(0) };
    let (mo, d, h, mi, sec) = (n(0), n(2), n(4), n(6), n(8));
    if !(1..=12).contains(&mo) || !(1..=31).contains(&d) || h > 23 || mi > 59 || sec > 60 {
        return None;
    }
    Some(days_from_civil(year, mo, d) * 86400 + h * 3600 + mi * 60 + sec)
}

fn bit_string(t: &Tlv<'_>) -> Option<Vec<u8>> {
    // tag not insisted on (see the note on OIDs below): position in the structure decides
    if t.body.is_empty() {
        return None;
    }
    Some(t.body[1..].to_vec())
}

fn walk(cert: &[u8], now: i64) -> Walk {
    macro_rules! un {
        ($e:expr, $why:expr) => {
            match $e {
                Some(x) => x,
                None => return Walk::Unparsed($why.to_string()),
            }
        };
    }
    let (outer, _end) = un!(der_read(cert, 0), "outer");
    let parts = un!(der_children(outer.body), "certificate fields");
    if parts.len() != 3 {
        return Walk::Unparsed("certificate is not 3 fields".into());
    }
    let (tbs, sigalg, sigval) = (&parts[0], &parts[1], &parts[2]);
    // tags of the constructed fields are not insisted on either: a reader that tolerates another tag byte
    // still sees the same fields; the TBS tag is covered by the signature anyway
    let sig = un!(bit_string(sigval), "signature bit string");
    let alg = un!(der_children(sigalg.body), "sigalg");
    // OIDs are compared by content: a DER reader that tolerates another tag byte in front of the same
    // content still reads the same algorithm (laxness of the DER layer is not a condition of the statement)
    let sig_oid_owned = [&[0x06u8, un!(alg.first(), "sigalg oid").body.len() as u8][..], alg[0].body].concat();
    let sig_oid = &sig_oid_owned[..];
    let sig_params = alg.get(1).map(|p| p.raw);
    let mut f = un!(der_children(tbs.body), "tbs fields").into_iter().peekable();
    if f.peek().map(|t| t.tag) == Some(0xA0) {
        f.next();
    }
    let _serial = un!(f.next(), "serial");
    let _inner_alg = un!(f.next(), "tbs signature alg");
    let _issuer = un!(f.next(), "issuer");
    let validity = un!(f.next(), "validity");
    let _subject = un!(f.next(), "subject");
    let spki = un!(f.next(), "spki");
    let times = un!(der_children(validity.body), "validity fields");
    if times.len() != 2 {
        return Walk::Unparsed("validity".into());
    }
    let (nb, na) = (un!(parse_time(&times[0]), "notBefore"), un!(parse_time(&times[1]), "notAfter"));
    let spki_parts = un!(der_children(spki.body), "spki fields");
    if spki_parts.len() != 2 {
        return Walk::Unparsed("spki".into());
    }
    let spki_alg = un!(der_children(spki_parts[0].body), "spki alg");
    let key_oid_owned = [&[0x06u8, un!(spki_alg.first(), "spki oid").body.len() as u8][..], spki_alg[0].body].concat();
    let key_oid = &key_oid_owned[..];
    let key_params_owned = spki_alg.get(1).map(|p| [&[0x06u8, p.body.len() as u8][..], p.body].concat());
    let key_params = key_params_owned.as_deref();
    let key_bits = un!(bit_string(&spki_parts[1]), "spki key");
    let mut exts: Vec<(Vec<u8>, bool, Vec<u8>)> = vec![];
    for t in f {
        if t.tag == 0xA3 {
            let seq = un!(der_children(t.body), "extensions wrapper");
            let list = un!(seq.first().and_then(|s| der_children(s.body)), "extension list");
            for e in list {
                let ef = un!(der_children(e.body), "extension fields");
                let (oid, critical, value) = match ef.as_slice() {
                    [o, v] => ([&[0x06u8, o.body.len() as u8][..], o.body].concat(), false, v.body.to_vec()),
                    [o, c, v] => ([&[0x06u8, o.body.len() as u8][..], o.body].concat(), c.body.iter().any(|b| *b != 0), v.body.to_vec()),
                    _ => return Walk::Unparsed("extension shape".into()),
                };
                exts.push((oid, critical, value));
            }
        }
    }
    // 1. self-signed with an allowed algorithm
    let rsa_pss_hash = |p: Option<&[u8]>| -> Option<&'static [u8]> {
        let p = p?;
        [OID_SHA256, OID_SHA384, OID_SHA512].into_iter().find(|h| p.windows(h.len()).any(|w| w == *h))
    };
    let algs: Vec<&'static dyn signature::VerificationAlgorithm> = if key_oid == OID_EC_PUBLIC_KEY {
        match (key_params, sig_oid) {
            (Some(p), s) if p == OID_P256 && s == OID_ECDSA_SHA256 => vec![&signature::ECDSA_P256_SHA256_ASN1],
            (Some(p), s) if p == OID_P256 && s == OID_ECDSA_SHA384 => vec![&signature::ECDSA_P256_SHA384_ASN1],
            (Some(p), s) if p == OID_P384 && s == OID_ECDSA_SHA384 => vec![&signature::ECDSA_P384_SHA384_ASN1],
            (Some(p), s) if p == OID_P384 && s == OID_ECDSA_SHA256 => vec![&signature::ECDSA_P384_SHA256_ASN1],
            _ => vec![],
        }
    } else if key_oid == OID_ED25519 && sig_oid == OID_ED25519 {
        vec![&signature::ED25519]
    } else if key_oid == OID_RSA {
        if sig_oid == OID_RSA_SHA256 {
            vec![&signature::RSA_PKCS1_2048_8192_SHA256]
        } else if sig_oid == OID_RSA_SHA384 {
            vec![&signature::RSA_PKCS1_2048_8192_SHA384]
        } else if sig_oid == OID_RSA_SHA512 {
            vec![&signature::RSA_PKCS1_2048_8192_SHA512]
        } else if sig_oid == OID_RSA_PSS {
            match rsa_pss_hash(sig_params) {
                Some(h) if h == OID_SHA256 => vec![&signature::RSA_PSS_2048_8192_SHA256],
                Some(h) if h == OID_SHA384 => vec![&signature::RSA_PSS_2048_8192_SHA384],
                Some(_) => vec![&signature::RSA_PSS_2048_8192_SHA512],
                None => vec![],
            }
        } else {
            vec![]
        }
    } else {
        vec![]
    };
    if algs.is_empty() {
        return Walk::Refuted("algorithm-not-allowed", format!("key alg {} sig alg {}", hex(key_oid), hex(sig_oid)));
    }
    if !algs.iter().any(|a| signature::UnparsedPublicKey::new(*a, &key_bits).verify(tbs.raw, &sig).is_ok()) {
        return Walk::Refuted("self-signature-invalid", "signature over the TBS bytes does not verify under the certificate's own key".into());
    }
    // 2. validity
    if now < nb || now > na {
        return Walk::Refuted("not-currently-valid", format!("notBefore {nb} notAfter {na} now {now}"));
    }
    // 3. exactly one libp2p extension with a valid signature
    let p2p: Vec<&(Vec<u8>, bool, Vec<u8>)> = exts.iter().filter(|e| e.0 == OID_P2P_EXT).collect();
    if p2p.len() != 1 {
        return Walk::Refuted("libp2p-extension-count", format!("{} libp2p extensions", p2p.len()));
    }
    // 4. no other critical extension
    if exts.iter().any(|e| e.0 != OID_P2P_EXT && e.1) {
        return Walk::Refuted("unknown-critical-extension", "another extension is marked critical".into());
    }
    let Some((sk, _)) = der_read(&p2p[0].2, 0) else { return Walk::Refuted("libp2p-extension-malformed", "SignedKey is not DER".into()) };
    let fields = der_children(sk.body).unwrap_or_default();
    let [pk, sg] = fields.as_slice() else { return Walk::Refuted("libp2p-extension-malformed", "SignedKey is not two fields".into()) };
    if sk.tag != 0x30 || pk.tag != 0x04 || sg.tag != 0x04 {
        return Walk::Refuted("libp2p-extension-malformed", "SignedKey field types".into());
    }
    let Ok(host) = PublicKey::try_decode_protobuf(pk.body) else { return Walk::Refuted("libp2p-extension-malformed", "host key does not decode".into()) };
    if !host.verify(&[PREFIX, spki.raw].concat(), sg.body) {
        return Walk::Refuted("extension-signature-invalid", "host key did not sign this certificate key".into());
    }
    Walk::Acceptable(host.to_peer_id())
}

fn now_secs() -> i64 {
    SystemTime::now().duration_since(UNIX_EPOCH).map(|d| d.as_secs() as i64).unwrap_or(0)
}

/// the real code
fn real_parse(bytes: &[u8]) -> Result<Result<PeerId, String>, vmon::PanicInfo> {
    catch(|| {
        let der = CertificateDer::from(bytes.to_vec());
        certificate::parse(&der).map(|c| c.peer_id()).map_err(|e| e.to_string())
    })
}

/// shared judgement for anything the real code accepted
fn judge_accepted(check: &Check, bytes: &[u8], got: PeerId, what: &str, witness: &dyn Fn() -> vmon::Value) {
    match walk(bytes, now_secs()) {
        Walk::Unparsed(why) => {
            check.count("accepted_but_reference_cannot_parse_not_judged", 1);
            check.note("last_unparsed_reason", json!(why));
        }
        Walk::Refuted(cond, detail) => check.violation(format!("accepted-but-{cond}"), format!("{what}: accepted as {got}; reference: {detail}"), witness()),
        Walk::Acceptable(id) => {
            if id != got {
                check.violation("peer-id-is-not-the-signing-host-key", format!("{what}: peer_id() = {got}, host key that signed is {id}"), witness());
            }
        }
    }
}

// ---------------------------------------------------------------------------------------------
// (a)+(b) generated certificates and their mutations
// ---------------------------------------------------------------------------------------------

fn mutate_generated(check: &Check, kind: usize, host: &Keypair, rng: &mut Rng, thorough: bool, stride: usize) {
    let kname = KEY_TYPES[kind];
    let host_id = PeerId::from_public_key(&host.public());
    let cert = match catch(|| certificate::generate(host)) {
        Ok(Ok((c, _k))) => c.as_ref().to_vec(),
        Ok(Err(e)) => return check.violation(format!("generate-fails-{kname}"), e.to_string(), json!({"host_key_type": kname})),
        Err(p) => return check.violation(format!("panic@{}", p.site()), p.msg.clone(), json!({"host_key_type": kname})),
    };
    let w0 = || json!({"host_key_type": kname, "certificate_hex": hex(&cert)});
    match real_parse(&cert) {
        Err(p) => return check.violation(format!("panic@{}", p.site()), p.msg.clone(), w0()),
        Ok(Err(e)) => return check.violation(format!("generated-cert-rejected-{kname}"), format!("parse(generate(host)) = Err({e})"), w0()),
        Ok(Ok(id)) => {
            if id != host_id {
                check.violation(format!("generated-cert-other-peer-id-{kname}"), format!("peer_id() = {id}, host key's id {host_id}"), w0());
            }
            judge_accepted(check, &cert, id, "generated certificate", &w0);
            match walk(&cert, now_secs()) {
                Walk::Acceptable(_) => {}
                other => check.inconclusive(format!("reference walk does not accept a generated certificate: {other:?}")),
            }
        }
    }
    check.count(&format!("generated_{kname}"), 1);
    let mut tried = 0u64;
    let mut accepted = 0u64;
    let mut try_one = |m: &[u8], what: &str, at: usize| {
        tried += 1;
        let w = || json!({"host_key_type": kname, "mutation": what, "at": at, "original_hex": hex(&cert), "mutated_hex": hex(m)});
        match real_parse(m) {
            Err(p) => check.violation(format!("panic@{}", p.site()), format!("certificate::parse panicked: {}", p.msg), w()),
            Ok(Err(_)) => {}
            Ok(Ok(id)) => {
                accepted += 1;
                if id != host_id {
                    check.violation("mutation-changes-peer-id", format!("{what} at {at}: accepted with peer id {id}, original {host_id}"), w());
                }
                judge_accepted(check, m, id, &format!("{what} at {at}"), &w);
            }
        }
    };
    let mut at = rng.usize(stride);
    while at < cert.len() {
        let orig = cert[at];
        let vals: Vec<u8> = if thorough { (0..=255u8).filter(|v| *v != orig).collect() } else { vec![orig ^ 0x01, orig ^ 0x80, 0x00, 0xff].into_iter().filter(|v| *v != orig).collect() };
        for v in vals {
            let mut m = cert.clone();
            m[at] = v;
            try_one(&m, "replace", at);
        }
        if at % 8 == 0 || thorough {
            try_one(&cert[..at], "truncate", at);
            let mut m = cert.clone();
            m.remove(at);
            try_one(&m, "delete", at);
            let mut m = cert.clone();
            m.insert(at, rng.next_u32() as u8);
            try_one(&m, "insert", at);
        }
        at += stride;
    }
    // trailing garbage after the certificate
    let mut m = cert.clone();
    m.extend(rng.bytes(5));
    try_one(&m, "append", cert.len());
    check.cases(tried);
    check.count("mutants_tried", tried);
    check.count("mutants_accepted_same_peer", accepted);
    check.nontrivial(Sig::new().bytes(&cert).0);
    if take_sample(&S_G, 2) {
        check.sample(json!({"kind": "generated+mutations", "host_key_type": kname, "certificate_len": cert.len(), "mutants_tried": tried, "mutants_accepted": accepted, "peer_id": host_id.to_string()}));
    }
}

// ---------------------------------------------------------------------------------------------
// (c) structural variants
// ---------------------------------------------------------------------------------------------

enum CertKey {
    P256(EcdsaKeyPair),
    P384(EcdsaKeyPair),
    Ed(Ed25519KeyPair),
    Rsa(RsaKeyPair),
}
impl CertKey {
    fn generate(kind: usize, rng: &mut Rng) -> CertKey {
        let sys = SystemRandom::new();
        match kind {
            0 => {
                let p = EcdsaKeyPair::generate_pkcs8(&signature::ECDSA_P256_SHA256_ASN1_SIGNING, &sys).expect("p256");
                CertKey::P256(EcdsaKeyPair::from_pkcs8(&signature::ECDSA_P256_SHA256_ASN1_SIGNING, p.as_ref(), &sys).expect("p256"))
            }
            1 => {
                let p = EcdsaKeyPair::generate_pkcs8(&signature::ECDSA_P384_SHA384_ASN1_SIGNING, &sys).expect("p384");
                CertKey::P384(EcdsaKeyPair::from_pkcs8(&signature::ECDSA_P384_SHA384_ASN1_SIGNING, p.as_ref(), &sys).expect("p384"))
            }
            2 => {
                let p = Ed25519KeyPair::generate_pkcs8(&sys).expect("ed");
                CertKey::Ed(Ed25519KeyPair::from_pkcs8(p.as_ref()).expect("ed"))
            }
            _ => CertKey::Rsa(RsaKeyPair::from_pkcs8(RSA_PK8[rng.usize(3)]).expect("rsa")),
        }
    }
    fn name(&self) -> &'static str {
        match self {
            CertKey::P256(_) => "p256",
            CertKey::P384(_) => "p384",
            CertKey::Ed(_) => "ed25519",
            CertKey::Rsa(_) => "rsa",
        }
    }
    fn spki(&self) -> Vec<u8> {
        let bits = |k: &[u8]| der_tlv(0x03, &[&[0u8][..], k].concat());
        match self {
            CertKey::P256(k) => der_seq(&[der_seq(&[OID_EC_PUBLIC_KEY.to_vec(), OID_P256.to_vec()]), bits(k.public_key().as_ref())]),
            CertKey::P384(k) => der_seq(&[der_seq(&[OID_EC_PUBLIC_KEY.to_vec(), OID_P384.to_vec()]), bits(k.public_key().as_ref())]),
            CertKey::Ed(k) => der_seq(&[der_seq(&[OID_ED25519.to_vec()]), bits(k.public_key().as_ref())]),
            CertKey::Rsa(k) => der_seq(&[der_seq(&[OID_RSA.to_vec(), NULL.to_vec()]), bits(k.public().as_ref())]),
        }
    }
    fn sig_alg(&self) -> Vec<u8> {
        match self {
            CertKey::P256(_) => der_seq(&[OID_ECDSA_SHA256.to_vec()]),
            CertKey::P384(_) => der_seq(&[OID_ECDSA_SHA384.to_vec()]),
            CertKey::Ed(_) => der_seq(&[OID_ED25519.to_vec()]),
            CertKey::Rsa(_) => der_seq(&[OID_RSA_SHA256.to_vec(), NULL.to_vec()]),
        }
    }
    fn sign(&self, msg: &[u8]) -> Vec<u8> {
        let sys = SystemRandom::new();
        match self {
            CertKey::P256(k) | CertKey::P384(k) => k.sign(&sys, msg).expect("ecdsa sign").as_ref().to_vec(),
            CertKey::Ed(k) => k.sign(msg).as_ref().to_vec(),
            CertKey::Rsa(k) => {
                let mut s = vec![0u8; k.public().modulus_len()];
                k.sign(&signature::RSA_PKCS1_SHA256, &sys, msg, &mut s).expect("rsa sign");
                s
            }
        }
    }
}

fn time_der(secs: i64) -> Vec<u8> {
    // civil from days (inverse of days_from_civil)
    let days = secs.div_euclid(86400);
    let rem = secs.rem_euclid(86400);
    let z = days + 719468;
    let era = if z >= 0 { z } else { z - 146096 } / 146097;
    let doe = z - era * 146097;
    let yoe = (doe - doe / 1460 + doe / 36524 - doe / 146096) / 365;
    let y = yoe + era * 400;
    let doy = doe - (365 * yoe + yoe / 4 - yoe / 100);
    let mp = (5 * doy + 2) / 153;
    let d = doy - (153 * mp + 2) / 5 + 1;
    let m = if mp < 10 { mp + 3 } else { mp - 9 };
    let y = if m <= 2 { y + 1 } else { y };
    let (h, mi, s) = (rem / 3600, rem % 3600 / 60, rem % 60);
    if (1950..2050).contains(&y) {
        der_tlv(0x17, format!("{:02}{:02}{:02}{:02}{:02}{:02}Z", y % 100, m, d, h, mi, s).as_bytes())
    } else {
        der_tlv(0x18, format!("{:04}{:02}{:02}{:02}{:02}{:02}Z", y, m, d, h, mi, s).as_bytes())
    }
}

fn ext(oid: &[u8], critical: bool, value: &[u8]) -> Vec<u8> {
    let mut parts = vec![oid.to_vec()];
    if critical {
        parts.push(vec![0x01, 0x01, 0xff]);
    }
    parts.push(der_tlv(0x04, value));
    der_seq(&parts)
}

fn signed_key(host_pub: &[u8], sig: &[u8]) -> Vec<u8> {
    der_seq(&[der_tlv(0x04, host_pub), der_tlv(0x04, sig)])
}

struct Spec {
    exts: Vec<Vec<u8>>,
    not_before: i64,
    not_after: i64,
    sig_alg: Vec<u8>,
    serial: Vec<u8>,
}

fn build_tbs(spki: &[u8], spec: &Spec) -> Vec<u8> {
    let mut fields = vec![
        der_tlv(0xA0, &der_tlv(0x02, &[2])),
        der_tlv(0x02, &spec.serial),
        spec.sig_alg.clone(),
        der_seq(&[]),
        der_seq(&[time_der(spec.not_before), time_der(spec.not_after)]),
        der_seq(&[]),
        spki.to_vec(),
    ];
    if !spec.exts.is_empty() {
        fields.push(der_tlv(0xA3, &der_seq(&spec.exts)));
    }
    der_seq(&fields)
}

fn assemble(tbs: &[u8], sig_alg: &[u8], sig: &[u8]) -> Vec<u8> {
    der_seq(&[tbs.to_vec(), sig_alg.to_vec(), der_tlv(0x03, &[&[0u8][..], sig].concat())])
}

const VARIANTS: [(&str, bool); 29] = [
    // (name, the statement allows acceptance)
    ("control-critical-ext", true),
    ("libp2p-ext-non-critical", true),
    ("extra-unknown-non-critical-ext", true),
    ("no-libp2p-ext", false),
    ("no-extensions-at-all", false),
    ("two-identical-libp2p-exts", false),
    ("two-libp2p-exts-second-by-attacker", false),
    ("two-libp2p-exts-first-by-attacker", false),
    ("extra-unknown-critical-ext", false),
    ("extra-unknown-critical-ext-after", false),
    ("expired", false),
    ("not-yet-valid", false),
    ("ext-signed-by-other-host-key", false),
    ("ext-lifted-from-victims-certificate", false),
    ("ext-signature-wrong-prefix", false),
    ("ext-signature-over-key-bits-only", false),
    ("ext-empty-signature", false),
    ("ext-garbage-value", false),
    ("ext-host-key-garbage", false),
    ("not-self-signed", false),
    ("tbs-changed-after-signing", false),
    ("signature-bitflip", false),
    ("sigalg-says-sha1", false),
    ("sigalg-mismatch-inner-outer-sha384", false),
    ("cert-key-p384", true),
    ("cert-key-ed25519", true),
    ("cert-key-rsa", true),
    // certificate keys whose self-signature cannot be checked at all (no verifier for the scheme): a garbage
    // signature must not be waved through just because it cannot be verified
    ("cert-key-p521-garbage-self-signature", false),
    ("cert-key-ed448-garbage-self-signature", false),
];

fn variant_case(check: &Check, rng: &mut Rng, vi: usize, allow_rsa_host: bool) {
    let (vname, may_accept) = VARIANTS[vi];
    let (hk, host) = gen_any_key(rng, allow_rsa_host);
    let (ak, attacker) = gen_any_key(rng, false);
    let host_pub = host.public().encode_protobuf();
    let host_id = PeerId::from_public_key(&host.public());
    let key_kind = match vname {
        "cert-key-p384" => 1,
        "cert-key-ed25519" => 2,
        "cert-key-rsa" => 3,
        _ => 0,
    };
    let ck = CertKey::generate(key_kind, rng);
    const OID_P521: &[u8] = &[0x06, 0x05, 0x2B, 0x81, 0x04, 0x00, 0x23];
    const OID_ECDSA_SHA512: &[u8] = &[0x06, 0x08, 0x2A, 0x86, 0x48, 0xCE, 0x3D, 0x04, 0x03, 0x04];
    const OID_ED448: &[u8] = &[0x06, 0x03, 0x2B, 0x65, 0x71];
    let bit_string_of = |bytes: &[u8]| -> Vec<u8> {
        let mut body = vec![0u8];
        body.extend_from_slice(bytes);
        let mut v = vec![0x03];
        if body.len() < 128 {
            v.push(body.len() as u8);
        } else {
            v.push(0x81);
            v.push(body.len() as u8);
        }
        v.extend(body);
        v
    };
    let unverifiable: Option<(Vec<u8>, Vec<u8>, usize)> = match vname {
        "cert-key-p521-garbage-self-signature" => {
            let mut point = vec![0x04u8];
            point.extend(rng.bytes(132));
            Some((der_seq(&[der_seq(&[OID_EC_PUBLIC_KEY.to_vec(), OID_P521.to_vec()]), bit_string_of(&point)]), der_seq(&[OID_ECDSA_SHA512.to_vec()]), 139))
        }
        "cert-key-ed448-garbage-self-signature" => Some((der_seq(&[der_seq(&[OID_ED448.to_vec()]), bit_string_of(&rng.bytes(57))]), der_seq(&[OID_ED448.to_vec()]), 114)),
        _ => None,
    };
    let spki = unverifiable.as_ref().map(|u| u.0.clone()).unwrap_or_else(|| ck.spki());
    let now = now_secs();
    let sign_host = |k: &Keypair, msg: Vec<u8>| k.sign(&msg).unwrap_or_default();
    let good_ext_value = signed_key(&host_pub, &sign_host(&host, [PREFIX, &spki[..]].concat()));
    let attacker_ext_value = signed_key(&attacker.public().encode_protobuf(), &sign_host(&attacker, [PREFIX, &spki[..]].concat()));
    let good = ext(OID_P2P_EXT, true, &good_ext_value);
    let unknown = |critical| ext(OID_UNKNOWN_EXT, critical, &[0x05, 0x00]);
    let mut spec = Spec { exts: vec![good.clone()], not_before: now - 86400 * 365, not_after: now + 86400 * 365 * 50, sig_alg: ck.sig_alg(), serial: { let mut s = rng.bytes(8); s[0] &= 0x7f; s[0] |= 0x01; s } };
    let mut outer_alg = ck.sig_alg();
    let mut signer: Option<CertKey> = None;
    let mut post_sign_tamper = 0u8;
    match vname {
        "libp2p-ext-non-critical" => spec.exts = vec![ext(OID_P2P_EXT, false, &good_ext_value)],
        "extra-unknown-non-critical-ext" => spec.exts = vec![good.clone(), unknown(false)],
        "no-libp2p-ext" => spec.exts = vec![unknown(false)],
        "no-extensions-at-all" => spec.exts = vec![],
        "two-identical-libp2p-exts" => spec.exts = vec![good.clone(), good.clone()],
        "two-libp2p-exts-second-by-attacker" => spec.exts = vec![good.clone(), ext(OID_P2P_EXT, true, &attacker_ext_value)],
        "two-libp2p-exts-first-by-attacker" => spec.exts = vec![ext(OID_P2P_EXT, true, &attacker_ext_value), good.clone()],
        "extra-unknown-critical-ext" => spec.exts = vec![unknown(true), good.clone()],
        "extra-unknown-critical-ext-after" => spec.exts = vec![good.clone(), unknown(true)],
        "expired" => {
            spec.not_before = now - 86400 * 800;
            spec.not_after = now - 86400 * (1 + rng.below(400) as i64);
        }
        "not-yet-valid" => {
            spec.not_before = now + 86400 * (1 + rng.below(400) as i64);
            spec.not_after = now + 86400 * 9000;
        }
        "ext-signed-by-other-host-key" => spec.exts = vec![ext(OID_P2P_EXT, true, &signed_key(&host_pub, &sign_host(&attacker, [PREFIX, &spki[..]].concat())))],
        "ext-lifted-from-victims-certificate" => {
            // the victim's genuine extension value, taken from a certificate made by the real `generate`
            let lifted = certificate::generate(&host).ok().and_then(|(c, _)| {
                let c = c.as_ref().to_vec();
                c.windows(OID_P2P_EXT.len()).position(|w| w == OID_P2P_EXT).and_then(|p| {
                    // oid, [critical], octet string
                    let mut at = p + OID_P2P_EXT.len();
                    loop {
                        let (t, next) = der_read(&c, at)?;
                        if t.tag == 0x04 {
                            return Some(t.body.to_vec());
                        }
                        at = next;
                    }
                })
            });
            match lifted {
                Some(v) => spec.exts = vec![ext(OID_P2P_EXT, true, &v)],
                None => return check.inconclusive("could not lift the extension out of a generated certificate"),
            }
        }
        "ext-signature-wrong-prefix" => spec.exts = vec![ext(OID_P2P_EXT, true, &signed_key(&host_pub, &sign_host(&host, [b"libp2p-tls-handshake".as_slice(), &spki[..]].concat())))],
        "ext-signature-over-key-bits-only" => {
            let bits = match &ck {
                CertKey::P256(k) | CertKey::P384(k) => k.public_key().as_ref().to_vec(),
                CertKey::Ed(k) => k.public_key().as_ref().to_vec(),
                CertKey::Rsa(k) => k.public().as_ref().to_vec(),
            };
            spec.exts = vec![ext(OID_P2P_EXT, true, &signed_key(&host_pub, &sign_host(&host, [PREFIX, &bits[..]].concat())))];
        }
        "ext-empty-signature" => spec.exts = vec![ext(OID_P2P_EXT, true, &signed_key(&host_pub, &[]))],
        "ext-garbage-value" => {
            let n = rng.range(0, 60) as usize;
            spec.exts = vec![ext(OID_P2P_EXT, true, &rng.bytes(n))];
        }
        "ext-host-key-garbage" => {
            let n = rng.range(0, 40) as usize;
            spec.exts = vec![ext(OID_P2P_EXT, true, &signed_key(&rng.bytes(n), &sign_host(&host, [PREFIX, &spki[..]].concat())))];
        }
        "not-self-signed" => signer = Some(CertKey::generate(0, rng)),
        "tbs-changed-after-signing" => post_sign_tamper = 1,
        "signature-bitflip" => post_sign_tamper = 2,
        "sigalg-says-sha1" => {
            spec.sig_alg = der_seq(&[OID_ECDSA_SHA1.to_vec()]);
            outer_alg = spec.sig_alg.clone();
        }
        "sigalg-mismatch-inner-outer-sha384" => outer_alg = der_seq(&[OID_ECDSA_SHA384.to_vec()]),
        _ => {}
    }
    if let Some((_, alg, _)) = &unverifiable {
        spec.sig_alg = alg.clone();
        outer_alg = alg.clone();
    }
    let mut tbs = build_tbs(&spki, &spec);
    let mut sig = signer.as_ref().unwrap_or(&ck).sign(&tbs);
    if let Some((_, _, n)) = &unverifiable {
        sig = rng.bytes(*n);
    }
    if post_sign_tamper == 1 {
        // flip a bit of the serial number (inside the TBS) after signing
        let at = tbs.len().min(12);
        tbs[at] ^= 0x04;
    }
    if post_sign_tamper == 2 {
        let at = rng.usize(sig.len());
        sig[at] ^= 1 << rng.usize(8);
    }
    let cert = assemble(&tbs, &outer_alg, &sig);
    let w = || json!({"variant": vname, "host_key_type": KEY_TYPES[hk], "attacker_key_type": KEY_TYPES[ak], "certificate_key": ck.name(), "certificate_hex": hex(&cert), "host_id": host_id.to_string()});
    let reference = walk(&cert, now);
    if let Walk::Unparsed(why) = &reference {
        return check.inconclusive(format!("harness-built certificate ({vname}) is not parseable by the reference walk: {why}"));
    }
    // the builder and the reference must agree on what the variant is
    let ref_accepts = matches!(reference, Walk::Acceptable(_));
    if ref_accepts != may_accept {
        return check.inconclusive(format!("variant {vname}: reference walk says {reference:?}, construction intends acceptable={may_accept}"));
    }
    match real_parse(&cert) {
        Err(p) => check.violation(format!("panic@{}", p.site()), format!("certificate::parse panicked: {}", p.msg), w()),
        Ok(Ok(id)) => {
            check.count(&format!("variant_{vname}_accepted"), 1);
            if !may_accept {
                let attacker_id = PeerId::from_public_key(&attacker.public());
                check.violation(format!("accepts-{vname}"), format!("accepted with peer id {id} (host {host_id}, attacker {attacker_id}); reference: {reference:?}"), w());
            } else {
                if id != host_id {
                    check.violation("peer-id-is-not-the-signing-host-key", format!("{vname}: peer_id() = {id}, host key {host_id}"), w());
                }
                judge_accepted(check, &cert, id, vname, &w);
            }
        }
        Ok(Err(e)) => {
            check.count(&format!("variant_{vname}_rejected"), 1);
            if vname == "control-critical-ext" {
                // same shape as `generate` produces: if this is rejected the harness builder is at fault
                check.inconclusive(format!("control certificate built by the harness was rejected: {e}"));
            }
        }
    }
    check.case(Sig::new().str(vname).u64(hk as u64).bytes(&cert).0, true);
    if vi % 5 == 3 && take_sample(&S_V, 3) {
        check.sample(json!({"kind": "variant", "variant": vname, "host_key_type": KEY_TYPES[hk], "certificate_key": ck.name(), "certificate_len": cert.len(), "reference": format!("{reference:?}"), "real": real_parse(&cert).ok().map(|r| r.map(|p| p.to_string()))}));
    }
}

pub fn run(args: &Args) -> i32 {
    let check = Check::new(
        args,
        "fault_enumeration",
        "generated certificates for ed25519/secp256k1/ecdsa/rsa host keys x every byte position x {^01,^80,=00,=ff} (thorough: all \
         values) + truncation/deletion/insertion; 27 structural variants assembled and signed in the harness x host key types. \
         non-trivial = a generated certificate that was accepted before mutation, or a variant whose construction the reference \
         walk confirms; distinct by certificate bytes",
    );
    let thorough = args.tier == Tier::Thorough;
    let tiny = is_tiny(args);
    // (a)+(b)
    let n_gen = budget(args, 2, 24, 48);
    vmon::par_cases(&check, n_gen, args.threads, |i, rng| {
        let kind = (i % 4) as usize;
        let host = if kind == RSA { rsa_key((i / 4) as usize) } else { gen_key(kind, rng) };
        // quick: 4 values at every position for the first certificate of each host key type, strided for the rest
        let stride = if tiny { 23 } else { 1 };
        mutate_generated(&check, kind, &host, rng, thorough, stride);
    });
    check.note("phase_s_mutation", json!(check.elapsed()));
    // (c)
    let reps = budget(args, 1, 30, 300);
    let n_v = VARIANTS.len() as u64 * reps;
    vmon::par_cases(&check, n_v, args.threads, |i, rng| variant_case(&check, rng, (i as usize) % VARIANTS.len(), i % 5 == 0));
    check.note("exhaustive", json!("byte positions of generated certificates: all (quick: 4 values each, thorough: all 255 values)"));
    check.finish()
}
