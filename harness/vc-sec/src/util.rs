//! Helpers shared by the vc-sec checks: deterministic identity keys of every type, a tiny DER
//! reader/writer, an independent base58 codec, a two-party future driver and budget selection.
#![allow(dead_code)]
use std::{
    future::Future,
    pin::Pin,
    task::{Context, Poll},
};

use libp2p_identity::{self as identity, Keypair};
use vmon::{Args, Rng, Tier, exec::flag_waker};

// ---------------------------------------------------------------------------------------------
// budgets
// ---------------------------------------------------------------------------------------------

/// `--budget tiny` (sanitizer passes) < quick < thorough
pub fn budget(args: &Args, tiny: u64, quick: u64, thorough: u64) -> u64 {
    if args.extra.get("budget").map(|s| s.as_str()) == Some("tiny") {
        tiny
    } else {
        match args.tier {
            Tier::Quick => quick,
            Tier::Thorough => thorough,
        }
    }
}
pub fn is_tiny(args: &Args) -> bool {
    args.extra.get("budget").map(|s| s.as_str()) == Some("tiny")
}
pub fn flag(args: &Args, name: &str) -> bool {
    args.extra.get(name).map(|s| s != "0" && !s.is_empty()).unwrap_or(false)
}

/// per-kind sample limiter: `static S: AtomicU32`, `take_sample(&S, 2)`
pub fn take_sample(c: &std::sync::atomic::AtomicU32, max: u32) -> bool {
    c.fetch_add(1, std::sync::atomic::Ordering::Relaxed) < max
}

// ---------------------------------------------------------------------------------------------
// keys
// ---------------------------------------------------------------------------------------------

pub const KEY_TYPES: [&str; 4] = ["ed25519", "secp256k1", "ecdsa", "rsa"];
pub const ED25519: usize = 0;
pub const SECP256K1: usize = 1;
pub const ECDSA: usize = 2;
pub const RSA: usize = 3;

pub const RSA_PK8: [&[u8]; 3] = [
    include_bytes!("../keys/rsa-2048.pk8"),
    include_bytes!("../keys/rsa-3072.pk8"),
    include_bytes!("../keys/rsa-4096.pk8"),
];

/// Deterministic keypair of the given kind from the case PRNG (RSA: one of three fixed test keys).
pub fn gen_key(kind: usize, rng: &mut Rng) -> Keypair {
    match kind {
        ED25519 => {
            let mut b = rng.bytes(32);
            Keypair::ed25519_from_bytes(&mut b[..]).expect("any 32 bytes are an ed25519 secret")
        }
        SECP256K1 => loop {
            let mut b = rng.bytes(32);
            if let Ok(sk) = identity::secp256k1::SecretKey::try_from_bytes(&mut b[..]) {
                return identity::secp256k1::Keypair::from(sk).into();
            }
        },
        ECDSA => loop {
            let b = rng.bytes(32);
            if let Ok(sk) = identity::ecdsa::SecretKey::try_from_bytes(&b[..]) {
                return identity::ecdsa::Keypair::from(sk).into();
            }
        },
        _ => rsa_key(rng.usize(3)),
    }
}
pub fn rsa_key(i: usize) -> Keypair {
    let mut der = RSA_PK8[i % 3].to_vec();
    Keypair::rsa_from_pkcs8(&mut der).expect("test RSA key parses")
}
/// RSA only when `allow_rsa` (RSA signing is ~1 ms; callers budget it)
pub fn gen_any_key(rng: &mut Rng, allow_rsa: bool) -> (usize, Keypair) {
    let kind = rng.usize(if allow_rsa { 4 } else { 3 });
    (kind, gen_key(kind, rng))
}

/// protobuf key-type enum of keys.proto
pub fn proto_type(kind: usize) -> u64 {
    match kind {
        RSA => 0,
        ED25519 => 1,
        SECP256K1 => 2,
        _ => 3,
    }
}

/// Raw `Data` bytes of the public key as the spec defines them (ed25519: 32 raw bytes, secp256k1:
/// compressed SEC1 point, ecdsa: DER SubjectPublicKeyInfo, rsa: DER SubjectPublicKeyInfo).
pub fn public_data(pk: &identity::PublicKey) -> (usize, Vec<u8>) {
    if let Ok(k) = pk.clone().try_into_ed25519() {
        return (ED25519, k.to_bytes().to_vec());
    }
    if let Ok(k) = pk.clone().try_into_secp256k1() {
        return (SECP256K1, k.to_bytes().to_vec());
    }
    if let Ok(k) = pk.clone().try_into_ecdsa() {
        return (ECDSA, k.encode_der());
    }
    let k = pk.clone().try_into_rsa().expect("fourth key type");
    (RSA, k.encode_x509())
}

/// Independent protobuf encoding of a public key (keys.proto: Type = 1 varint, Data = 2 bytes).
pub fn ref_public_protobuf(pk: &identity::PublicKey) -> Vec<u8> {
    let (kind, data) = public_data(pk);
    vmon::pb::Msg::new().varint(1, proto_type(kind)).bytes(2, data).encode()
}

/// Reference peer-id bytes from the spec: identity multihash of the protobuf if it is at most 42
/// bytes, else sha2-256 multihash.
pub fn ref_peer_id_bytes(pk_protobuf: &[u8]) -> Vec<u8> {
    use sha2::Digest;
    let mut out = vec![];
    if pk_protobuf.len() <= 42 {
        out.push(0x00);
        out.push(pk_protobuf.len() as u8);
        out.extend_from_slice(pk_protobuf);
    } else {
        out.push(0x12);
        out.push(32);
        out.extend_from_slice(&sha2::Sha256::digest(pk_protobuf));
    }
    out
}

// ---------------------------------------------------------------------------------------------
// base58 (bitcoin alphabet), written from the definition
// ---------------------------------------------------------------------------------------------

pub const B58: &[u8; 58] = b"123456789ABCDEFGHJKLMNPQRSTUVWXYZabcdefghijkmnopqrstuvwxyz";

pub fn b58_encode(data: &[u8]) -> String {
    let zeros = data.iter().take_while(|b| **b == 0).count();
    let mut digits: Vec<u8> = vec![]; // little endian base-58 digits
    for &byte in &data[zeros..] {
        let mut carry = byte as u32;
        for d in digits.iter_mut() {
            carry += (*d as u32) << 8;
            *d = (carry % 58) as u8;
            carry /= 58;
        }
        while carry > 0 {
            digits.push((carry % 58) as u8);
            carry /= 58;
        }
    }
    let mut s = String::new();
    for _ in 0..zeros {
        s.push('1');
    }
    for d in digits.iter().rev() {
        s.push(B58[*d as usize] as char);
    }
    s
}

/// None if a character is outside the alphabet
pub fn b58_decode(s: &str) -> Option<Vec<u8>> {
    let bytes = s.as_bytes();
    let ones = bytes.iter().take_while(|b| **b == b'1').count();
    let mut out: Vec<u8> = vec![]; // little endian bytes
    for &c in &bytes[ones..] {
        let v = B58.iter().position(|x| *x == c)? as u32;
        let mut carry = v;
        for b in out.iter_mut() {
            carry += (*b as u32) * 58;
            *b = (carry & 0xff) as u8;
            carry >>= 8;
        }
        while carry > 0 {
            out.push((carry & 0xff) as u8);
            carry >>= 8;
        }
    }
    let mut r = vec![0u8; ones];
    r.extend(out.iter().rev());
    Some(r)
}

// ---------------------------------------------------------------------------------------------
// DER (definite lengths only)
// ---------------------------------------------------------------------------------------------

#[derive(Clone, Debug)]
pub struct Tlv<'a> {
    pub tag: u8,
    /// offset of the tag byte in the buffer that was parsed
    pub start: usize,
    /// offset of the first content byte
    pub body_start: usize,
    pub body: &'a [u8],
    /// the whole encoding (tag, length, content)
    pub raw: &'a [u8],
}

/// Parse one TLV at `buf[at..]`; returns the element and the offset after it. Rejects indefinite
/// lengths, lengths over 4 bytes, high-tag-number form and overruns; accepts non-minimal length
/// encodings (BER-style laxness is for the code under test to decide).
pub fn der_read(buf: &[u8], at: usize) -> Option<(Tlv<'_>, usize)> {
    let tag = *buf.get(at)?;
    if tag & 0x1f == 0x1f {
        return None;
    }
    let l0 = *buf.get(at + 1)?;
    let (len, hdr) = if l0 < 0x80 {
        (l0 as usize, 2)
    } else {
        let n = (l0 & 0x7f) as usize;
        if n == 0 || n > 4 {
            return None;
        }
        let mut len = 0usize;
        for i in 0..n {
            len = (len << 8) | *buf.get(at + 2 + i)? as usize;
        }
        (len, 2 + n)
    };
    let body_start = at + hdr;
    let end = body_start.checked_add(len)?;
    if end > buf.len() {
        return None;
    }
    Some((Tlv { tag, start: at, body_start, body: &buf[body_start..end], raw: &buf[at..end] }, end))
}

/// All TLVs directly inside `body` (offsets relative to the buffer `body` is a slice of are lost;
/// use `der_read` with absolute offsets when positions matter).
pub fn der_children(body: &[u8]) -> Option<Vec<Tlv<'_>>> {
    let mut out = vec![];
    let mut at = 0;
    while at < body.len() {
        let (t, next) = der_read(body, at)?;
        out.push(t);
        at = next;
    }
    Some(out)
}

pub fn der_len(n: usize) -> Vec<u8> {
    if n < 0x80 {
        vec![n as u8]
    } else if n < 0x100 {
        vec![0x81, n as u8]
    } else if n < 0x10000 {
        vec![0x82, (n >> 8) as u8, n as u8]
    } else {
        vec![0x83, (n >> 16) as u8, (n >> 8) as u8, n as u8]
    }
}
pub fn der_tlv(tag: u8, body: &[u8]) -> Vec<u8> {
    let mut o = vec![tag];
    o.extend(der_len(body.len()));
    o.extend_from_slice(body);
    o
}
pub fn der_seq(parts: &[Vec<u8>]) -> Vec<u8> {
    der_tlv(0x30, &parts.concat())
}

/// PKCS#1 RSAPrivateKey inside a PKCS#8 PrivateKeyInfo (SEQ { INT 0, SEQ alg, OCTET STRING key })
pub fn pkcs8_inner_pkcs1(pk8: &[u8]) -> Option<Vec<u8>> {
    let (outer, _) = der_read(pk8, 0)?;
    let kids = der_children(outer.body)?;
    let oct = kids.get(2)?;
    if oct.tag != 0x04 {
        return None;
    }
    Some(oct.body.to_vec())
}

// ---------------------------------------------------------------------------------------------
// driving two (or three) futures on one thread, deterministic order, stall detection
// ---------------------------------------------------------------------------------------------

pub type LocalFut<'a, T> = Pin<Box<dyn Future<Output = T> + Send + 'a>>;

/// Poll `a` and `b` alternately (each only when its waker fired) until both are done or neither
/// was woken (stalled: waiting for bytes that will never come). Returns what completed.
pub fn drive2<A: Send + 'static, B: Send + 'static>(mut a: LocalFut<'static, A>, mut b: LocalFut<'static, B>, max_polls: usize) -> (Option<A>, Option<B>, bool) {
    let (fa, wa) = flag_waker();
    let (fb, wb) = flag_waker();
    let mut ra = None;
    let mut rb = None;
    let mut polls = 0;
    loop {
        let mut progressed = false;
        if ra.is_none() && fa.take() {
            progressed = true;
            polls += 1;
            let mut cx = Context::from_waker(&wa);
            if let Poll::Ready(v) = a.as_mut().poll(&mut cx) {
                ra = Some(v);
                // completed futures may own a socket whose drop wakes the other side
                a = Box::pin(std::future::pending());
            }
        }
        if rb.is_none() && fb.take() {
            progressed = true;
            polls += 1;
            let mut cx = Context::from_waker(&wb);
            if let Poll::Ready(v) = b.as_mut().poll(&mut cx) {
                rb = Some(v);
                b = Box::pin(std::future::pending());
            }
        }
        if ra.is_some() && rb.is_some() {
            return (ra, rb, false);
        }
        if !progressed {
            return (ra, rb, false);
        }
        if polls > max_polls {
            return (ra, rb, true);
        }
    }
}

/// Outcome of driving one future to quiescence on this thread.
pub enum Driven<T> {
    Done(T),
    /// the future returned `Pending` and no waker fired: nothing in this closed system (pipe + tasks) can
    /// ever wake it again — a logical deadlock, not a timeout
    Stalled,
    /// poll budget exhausted (treated as inconclusive)
    Budget,
}

/// Deterministic replacement for a wall-clock watchdog: poll until ready, stalled, or `max_polls`.
pub fn drive<F: Future>(fut: F, max_polls: u64) -> Driven<F::Output> {
    let mut fut = std::pin::pin!(fut);
    let (flag, w) = flag_waker();
    let mut cx = Context::from_waker(&w);
    let mut n = 0u64;
    loop {
        flag.take();
        if let Poll::Ready(v) = fut.as_mut().poll(&mut cx) {
            return Driven::Done(v);
        }
        if !flag.is_set() {
            return Driven::Stalled;
        }
        n += 1;
        if n >= max_polls {
            return Driven::Budget;
        }
    }
}
