mod c20;
mod util;

fn main() {
    vmon::run_main(&[("C20", c20::run)]);
}
