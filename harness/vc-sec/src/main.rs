mod c20;
mod c21;
mod util;

fn main() {
    vmon::run_main(&[("C20", c20::run), ("C21", c21::run)]);
}
