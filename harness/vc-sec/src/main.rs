mod c16;
mod c17;
mod c18;
mod c19;
mod c20;
mod c21;
mod util;

fn main() {
    vmon::run_main(&[("C16", c16::run), ("C17", c17::run), ("C18", c18::run), ("C19", c19::run), ("C20", c20::run), ("C21", c21::run)]);
}
