//! C20 — identities and keys have faithful, total encodings.
//!
//! Real code: `PeerId::{from_bytes, to_bytes, to_base58, from_str, from_public_key, from_multihash}`,
//! `PublicKey::{encode_protobuf, try_decode_protobuf}`, `Keypair::{to,from}_protobuf_encoding`.
//!
//! Oracles (written from the statement / the peer-id and multihash specs, not from the code):
//! * reference multihash reader (uvarint code, uvarint length, exactly that many digest bytes, nothing
//!   after): ACCEPT iff (code 0 and len <= 42) or (code 0x12 and len == 32); REJECT if the input is not a
//!   well-formed multihash, the code is neither 0 nor 0x12, or code 0 with len > 42. On ACCEPT the
//!   real decoder must return an id whose `to_bytes` is the input, whose base58 text equals an
//!   independent base58 encoding and parses back to the same id. On REJECT it must return `Err`.
//! * base58 text with a character outside the alphabet must be `Err`; accepted text must re-print
//!   identically and its bytes must be ACCEPT for the reference reader.
//! * `from_public_key` equals the reference id (identity multihash iff the protobuf is <= 42 bytes,
//!   else sha2-256) and is the same on repeated calls; the protobuf equals an independently encoded
//!   keys.proto message; public and private protobuf encodings decode back to the same key.
//! * any byte string (PRNG, structured-random protobuf wrappers, every <= 2-byte string, every
//!   single-byte mutation of valid encodings) never panics; where decoding succeeds the value
//!   re-encodes and decodes to itself.
//!
//! Not judged: sha2-256 multihashes whose digest length is not 32; non-minimal varints in the
//! multihash header; whether a *mutated* key encoding is accepted (many mutations of a point are
//! other valid points); `Keypair::to_protobuf_encoding` for RSA, which the API documents as
//! unsupported (it returns `Err`; the decode direction is judged with a hand-built message).
//! The "inlines keys of at most 42 bytes" boundary cannot be hit exactly with the supported key
//! types (36/37-byte encodings inline, ecdsa/rsa hash); the 42/43 boundary is exercised on the
//! decoding side.
use std::{
    str::FromStr,
    sync::atomic::AtomicU32,
};

use libp2p_identity::{Keypair, PeerId, PublicKey};
use vmon::{Args, Check, Rng, Sig, catch, hex, json, pb};

use crate::util::{self, *};

static S_BYTES: AtomicU32 = AtomicU32::new(0);
static S_TEXT: AtomicU32 = AtomicU32::new(0);
static S_KEY: AtomicU32 = AtomicU32::new(0);

#[derive(Debug, PartialEq, Eq, Clone, Copy)]
enum Ref {
    Accept,
    Reject,
    NotJudged,
}

/// strict uvarint: value, length; `minimal` false when a shorter encoding exists
fn uvarint_strict(b: &[u8]) -> Option<(u64, usize, bool)> {
    let (v, n) = pb::get_uvarint(b)?;
    // 10th byte may only carry one bit
    if n == 10 && b[9] > 1 {
        return None;
    }
    let minimal = pb::uvarint(v).len() == n;
    Some((v, n, minimal))
}

fn reference(b: &[u8]) -> (Ref, &'static str) {
    let Some((code, n1, m1)) = uvarint_strict(b) else { return (Ref::Reject, "no-code") };
    let Some((len, n2, m2)) = uvarint_strict(&b[n1..]) else { return (Ref::Reject, "no-len") };
    let digest = &b[n1 + n2..];
    if (digest.len() as u64) < len {
        return (Ref::Reject, "short-digest");
    }
    if (digest.len() as u64) > len {
        return (Ref::Reject, "trailing-bytes");
    }
    if !m1 || !m2 {
        return (Ref::NotJudged, "non-minimal-varint");
    }
    match code {
        0 if len <= 42 => (Ref::Accept, "identity"),
        0 => (Ref::Reject, "identity-too-long"),
        0x12 if len == 32 => (Ref::Accept, "sha256"),
        0x12 => (Ref::NotJudged, "sha256-odd-length"),
        _ => (Ref::Reject, "other-code"),
    }
}

fn gen_multihash(rng: &mut Rng) -> Vec<u8> {
    let class = rng.weighted(&[30, 20, 15, 8, 8, 5, 5, 4, 5]);
    let mut out = vec![];
    match class {
        0 => {
            // identity, lengths concentrated around the limit
            let len = if rng.chance(2, 3) { rng.range(38, 47) } else { rng.range(0, 70) } as usize;
            out.push(0);
            out.extend(pb::uvarint(len as u64));
            out.extend(rng.bytes(len));
        }
        1 => {
            out.push(0x12);
            out.push(32);
            out.extend(rng.bytes(32));
        }
        2 => {
            // other hash codes
            let codes = [0x11u64, 0x13, 0x14, 0x16, 0x1b, 0x1e, 0xb220, 0xb240, 0x56, 0x01, 0x02, 0x10, 0x7f, 0x80, 0x1200, 0x92];
            let code = if rng.chance(1, 4) { rng.next_u64() >> rng.range(0, 62) } else { *rng.pick(&codes) };
            let len = *rng.pick(&[0usize, 1, 20, 28, 32, 42, 43, 48, 64]);
            out.extend(pb::uvarint(code));
            out.extend(pb::uvarint(len as u64));
            out.extend(rng.bytes(len));
        }
        3 => {
            // sha256 with other digest lengths (not judged, must not panic)
            let len = rng.range(0, 70) as usize;
            out.push(0x12);
            out.extend(pb::uvarint(len as u64));
            out.extend(rng.bytes(len));
        }
        4 => {
            // declared length larger than the data
            let code = *rng.pick(&[0u64, 0x12, 0x13]);
            let len = rng.range(1, 70);
            out.extend(pb::uvarint(code));
            out.extend(pb::uvarint(len));
            let have = rng.below(len) as usize;
            out.extend(rng.bytes(have));
        }
        5 => {
            // valid multihash followed by garbage
            let (code, len) = if rng.bool() { (0u64, rng.range(0, 42) as usize) } else { (0x12, 32) };
            out.extend(pb::uvarint(code));
            out.extend(pb::uvarint(len as u64));
            out.extend(rng.bytes(len));
            let extra = rng.range(1, 4) as usize;
            out.extend(rng.bytes(extra));
        }
        6 => {
            // huge declared lengths
            out.extend(pb::uvarint(*rng.pick(&[0u64, 0x12])));
            out.extend(pb::uvarint(rng.next_u64() >> rng.range(0, 56)));
            let have = rng.range(0, 80) as usize;
            out.extend(rng.bytes(have));
        }
        7 => {
            // non-minimal varints
            let code = *rng.pick(&[0u8, 0x12]);
            out.extend([code | 0x80, 0x00]);
            let len = if code == 0 { rng.range(0, 42) as usize } else { 32 };
            out.push(len as u8);
            out.extend(rng.bytes(len));
        }
        _ => {
            let n = rng.range(0, 80) as usize;
            out = rng.bytes(n);
        }
    }
    out
}

fn judge_peer_id_bytes(check: &Check, b: &[u8], origin: &str) {
    let (want, why) = reference(b);
    let got = catch(|| PeerId::from_bytes(b));
    let witness = || json!({"input_hex": hex(b), "origin": origin, "reference": why});
    let got = match got {
        Err(p) => {
            check.violation(format!("panic@{}", p.site()), format!("PeerId::from_bytes panicked: {}", p.msg), witness());
            return;
        }
        Ok(g) => g,
    };
    check.count(&format!("ref_{why}"), 1);
    match (want, &got) {
        (Ref::Accept, Err(e)) => check.violation(format!("peerid-rejects-valid-{why}"), format!("from_bytes({}) = Err({e})", hex(b)), witness()),
        (Ref::Reject, Ok(_)) => check.violation(format!("peerid-accepts-{why}"), format!("from_bytes({}) = Ok", hex(b)), witness()),
        _ => {}
    }
    if let Ok(id) = got {
        // consistency of everything that was accepted (also for not-judged classes)
        let back = id.to_bytes();
        if want == Ref::Accept && back != b {
            check.violation("peerid-bytes-roundtrip", format!("to_bytes {} != input {}", hex(&back), hex(b)), witness());
        }
        match catch(|| (id.to_base58(), id.to_string())) {
            Err(p) => check.violation(format!("panic@{}", p.site()), p.msg.clone(), witness()),
            Ok((s, disp)) => {
                if s != b58_encode(&back) || disp != s {
                    check.violation("peerid-base58-differs-from-reference", format!("to_base58 = {s}, reference {}", b58_encode(&back)), witness());
                }
                match catch(|| PeerId::from_str(&s)) {
                    Ok(Ok(id2)) if id2 == id => {}
                    Ok(other) => check.violation("peerid-base58-roundtrip", format!("from_str(to_base58()) = {other:?}"), witness()),
                    Err(p) => check.violation(format!("panic@{}", p.site()), p.msg.clone(), witness()),
                }
            }
        }
        match PeerId::from_bytes(&back) {
            Ok(id2) if id2 == id => {}
            other => check.violation("peerid-bytes-reparse", format!("from_bytes(to_bytes()) = {other:?}"), witness()),
        }
        if PeerId::try_from(b.to_vec()).ok() != Some(id) {
            check.violation("peerid-tryfrom-vec-disagrees", "TryFrom<Vec<u8>> disagrees with from_bytes", witness());
        }
    } else if PeerId::try_from(b.to_vec()).is_ok() {
        check.violation("peerid-tryfrom-vec-disagrees", "TryFrom<Vec<u8>> accepts what from_bytes rejects", witness());
    }
    let sig = Sig::new().bytes(b).0;
    check.case(sig, want != Ref::NotJudged);
    if want == Ref::Accept && origin == "generated" && take_sample(&S_BYTES, 2) {
        check.sample(json!({"kind": "peer-id-bytes", "input_hex": hex(b), "class": why, "accepted": true}));
    }
}

fn gen_b58_text(rng: &mut Rng) -> String {
    match rng.weighted(&[40, 20, 20, 20]) {
        0 => {
            // encoding of a generated multihash
            b58_encode(&gen_multihash(rng))
        }
        1 => {
            // alphabet-only random text
            let n = rng.range(0, 70) as usize;
            (0..n).map(|_| B58[rng.usize(58)] as char).collect()
        }
        2 => {
            // valid text with one foreign character spliced in
            let mut s: Vec<char> = b58_encode(&gen_multihash(rng)).chars().collect();
            let bad = *rng.pick(&['0', 'O', 'I', 'l', ' ', '+', '/', '=', 'é', 'ß', '中', '\u{1F600}', '\n', '\0']);
            let at = rng.usize(s.len() + 1);
            s.insert(at, bad);
            s.into_iter().collect()
        }
        _ => {
            // arbitrary unicode
            let n = rng.range(0, 40) as usize;
            (0..n).map(|_| char::from_u32(rng.below(0x2_0000) as u32).unwrap_or('x')).collect()
        }
    }
}

fn judge_peer_id_text(check: &Check, s: &str) {
    let witness = || json!({"text": s});
    let got = match catch(|| PeerId::from_str(s)) {
        Err(p) => {
            check.violation(format!("panic@{}", p.site()), format!("PeerId::from_str panicked: {}", p.msg), witness());
            return;
        }
        Ok(g) => g,
    };
    let decoded = b58_decode(s);
    let want = match &decoded {
        None => Ref::Reject,
        Some(b) => reference(b).0,
    };
    match (want, &got) {
        (Ref::Reject, Ok(_)) => check.violation(
            if decoded.is_none() { "peerid-text-accepts-foreign-char" } else { "peerid-text-accepts-invalid-multihash" },
            format!("from_str({s:?}) = Ok"),
            witness(),
        ),
        (Ref::Accept, Err(e)) => check.violation("peerid-text-rejects-valid", format!("from_str({s:?}) = Err({e})"), witness()),
        _ => {}
    }
    if let Ok(id) = got {
        if let Some(b) = &decoded {
            if want == Ref::Accept && &id.to_bytes() != b {
                check.violation("peerid-text-decodes-other-bytes", format!("bytes {} vs reference {}", hex(&id.to_bytes()), hex(b)), witness());
            }
        }
        if want == Ref::Accept && id.to_base58() != s {
            check.violation("peerid-text-reprint", format!("{} reprinted as {}", s, id.to_base58()), witness());
        }
    }
    check.count(if decoded.is_none() { "text_foreign_char" } else { "text_alphabet_only" }, 1);
    check.case(Sig::new().str(s).u64(7).0, want != Ref::NotJudged);
    if want != Ref::NotJudged && take_sample(&S_TEXT, 1) {
        check.sample(json!({"kind": "peer-id-text", "text": s, "reference": format!("{want:?}"), "accepted": got.is_ok()}));
    }
}

/// one key: protobuf round trips, reference peer id, mutation totality
fn judge_key(check: &Check, kind: usize, kp: &Keypair, rng: &mut Rng, mutate_all: bool) {
    let kname = KEY_TYPES[kind];
    let pk = kp.public();
    let enc = match catch(|| pk.encode_protobuf()) {
        Ok(e) => e,
        Err(p) => {
            check.violation(format!("panic@{}", p.site()), p.msg.clone(), json!({"key_type": kname}));
            return;
        }
    };
    let witness = || json!({"key_type": kname, "public_protobuf_hex": hex(&enc)});
    // independent encoding
    let want_enc = util::ref_public_protobuf(&pk);
    if enc != want_enc {
        check.violation(format!("public-protobuf-differs-{kname}"), format!("encode_protobuf {} != reference {}", hex(&enc), hex(&want_enc)), witness());
    }
    match catch(|| PublicKey::try_decode_protobuf(&enc)) {
        Ok(Ok(k2)) if k2 == pk => {}
        Ok(other) => check.violation(format!("public-protobuf-roundtrip-{kname}"), format!("decode(encode(k)) = {other:?}"), witness()),
        Err(p) => check.violation(format!("panic@{}", p.site()), p.msg.clone(), witness()),
    }
    // fields in the other order are the same proto2 message
    let (_, data) = util::public_data(&pk);
    let swapped = pb::Msg::new().bytes(2, &data).varint(1, util::proto_type(kind)).encode();
    match catch(|| PublicKey::try_decode_protobuf(&swapped)) {
        Ok(Ok(k2)) if k2 == pk => {}
        Ok(other) => check.violation(format!("public-protobuf-field-order-{kname}"), format!("decode(data-first encoding) = {other:?}"), witness()),
        Err(p) => check.violation(format!("panic@{}", p.site()), p.msg.clone(), witness()),
    }
    // peer id
    let want_id = util::ref_peer_id_bytes(&want_enc);
    match catch(|| (PeerId::from_public_key(&pk), PeerId::from_public_key(&pk), pk.to_peer_id(), PeerId::from(pk.clone()))) {
        Err(p) => check.violation(format!("panic@{}", p.site()), p.msg.clone(), witness()),
        Ok((a, b, c, d)) => {
            if a != b || a != c || a != d {
                check.violation("peerid-from-key-not-deterministic", format!("{a} {b} {c} {d}"), witness());
            }
            if a.to_bytes() != want_id {
                let inl = if want_enc.len() <= 42 { "should-inline" } else { "should-hash" };
                check.violation(format!("peerid-from-key-{inl}-{kname}"), format!("from_public_key = {}, reference {}", hex(&a.to_bytes()), hex(&want_id)), witness());
            }
            check.count(if want_enc.len() <= 42 { "keys_inlined" } else { "keys_hashed" }, 1);
            // and the id decodes as a peer id
            judge_peer_id_bytes(check, &a.to_bytes(), "from_public_key");
        }
    }
    // private key
    match catch(|| kp.to_protobuf_encoding()) {
        Err(p) => check.violation(format!("panic@{}", p.site()), p.msg.clone(), witness()),
        Ok(Err(e)) => {
            if kind != RSA {
                check.violation(format!("private-protobuf-encode-fails-{kname}"), format!("{e}"), witness());
            } else {
                check.count("rsa_private_encoding_unsupported_not_judged", 1);
            }
        }
        Ok(Ok(priv_enc)) => {
            match catch(|| Keypair::from_protobuf_encoding(&priv_enc)) {
                Err(p) => check.violation(format!("panic@{}", p.site()), p.msg.clone(), witness()),
                Ok(Err(e)) => check.violation(format!("private-protobuf-roundtrip-{kname}"), format!("decode(encode(k)) = Err({e})"), witness()),
                Ok(Ok(k2)) => {
                    if k2.public() != pk || k2.key_type() != kp.key_type() {
                        check.violation(format!("private-protobuf-roundtrip-{kname}"), "decoded keypair has another public key", witness());
                    }
                    if k2.to_protobuf_encoding().ok() != Some(priv_enc.clone()) {
                        check.violation(format!("private-protobuf-reencode-{kname}"), "re-encoding differs", witness());
                    }
                    // the decoded key is the same secret: it signs for the original public key
                    if let Ok(sig) = k2.sign(b"c20") {
                        if !pk.verify(b"c20", &sig) {
                            check.violation(format!("private-protobuf-roundtrip-{kname}"), "decoded key signs for another key", witness());
                        }
                    }
                }
            }
            // wrapper is the keys.proto message (Type, Data)
            match pb::Msg::decode(&priv_enc) {
                Some(m) if m.get_varint(1) == Some(util::proto_type(kind)) && m.get_bytes(2).is_some() => {}
                _ => check.violation(format!("private-protobuf-shape-{kname}"), format!("not a keys.proto PrivateKey: {}", hex(&priv_enc)), witness()),
            }
            // mutations of the private encoding: total
            for _ in 0..(if mutate_all { 64 } else { 8 }) {
                let mut m = priv_enc.clone();
                let at = rng.usize(m.len());
                m[at] ^= 1 << rng.usize(8);
                if let Err(p) = catch(|| Keypair::from_protobuf_encoding(&m).map(|k| k.public())) {
                    check.violation(format!("panic@{}", p.site()), format!("from_protobuf_encoding panicked: {}", p.msg), json!({"key_type": kname, "mutated_at": at}));
                }
                check.count("private_mutations", 1);
            }
        }
    }
    // mutations of the public encoding: never panic; accepted values are self-consistent
    let positions: Vec<usize> = if mutate_all || enc.len() <= 40 { (0..enc.len()).collect() } else { (0..48).map(|_| rng.usize(enc.len())).collect() };
    for at in positions {
        for mask in [0x01u8, 0x80, 0xff] {
            let mut m = enc.clone();
            m[at] ^= mask;
            check_decode_total(check, &m, "mutated-public");
            check.count("public_mutations", 1);
        }
    }
    for cut in 0..enc.len().min(48) {
        check_decode_total(check, &enc[..cut], "truncated-public");
    }
    let sig = Sig::new().bytes(&enc).u64(3).0;
    check.case(sig, true);
    check.count(&format!("keys_{kname}"), 1);
    if take_sample(&S_KEY, 2) {
        check.sample(json!({"kind": "key", "key_type": kname, "public_protobuf_len": enc.len(), "peer_id": PeerId::from_public_key(&pk).to_base58()}));
    }
}

/// `try_decode_protobuf` / `from_protobuf_encoding` on arbitrary bytes: no panic, accepted values idempotent
fn check_decode_total(check: &Check, b: &[u8], origin: &str) {
    match catch(|| PublicKey::try_decode_protobuf(b)) {
        Err(p) => check.violation(format!("panic@{}", p.site()), format!("try_decode_protobuf panicked: {}", p.msg), json!({"input_hex": hex(b), "origin": origin})),
        Ok(Ok(k)) => {
            check.count("arbitrary_public_accepted", 1);
            let again = catch(|| PublicKey::try_decode_protobuf(&k.encode_protobuf()));
            match again {
                Ok(Ok(k2)) if k2 == k => {}
                Ok(other) => check.violation("public-decode-not-idempotent", format!("decode(encode(decode(x))) = {other:?}"), json!({"input_hex": hex(b), "origin": origin})),
                Err(p) => check.violation(format!("panic@{}", p.site()), p.msg.clone(), json!({"input_hex": hex(b), "origin": origin})),
            }
            if let Err(p) = catch(|| k.to_peer_id()) {
                check.violation(format!("panic@{}", p.site()), p.msg.clone(), json!({"input_hex": hex(b), "origin": origin}));
            }
        }
        Ok(Err(_)) => check.count("arbitrary_public_rejected", 1),
    }
    match catch(|| Keypair::from_protobuf_encoding(b).map(|k| (k.public(), k.to_protobuf_encoding()))) {
        Err(p) => check.violation(format!("panic@{}", p.site()), format!("from_protobuf_encoding panicked: {}", p.msg), json!({"input_hex": hex(b), "origin": origin})),
        Ok(Ok((public, reenc))) => {
            check.count("arbitrary_private_accepted", 1);
            if let Ok(reenc) = reenc {
                match catch(|| Keypair::from_protobuf_encoding(&reenc)) {
                    Ok(Ok(k2)) if k2.public() == public => {}
                    Ok(other) => check.violation("private-decode-not-idempotent", format!("{:?}", other.map(|k| k.public())), json!({"input_hex": hex(b), "origin": origin})),
                    Err(p) => check.violation(format!("panic@{}", p.site()), p.msg.clone(), json!({"input_hex": hex(b), "origin": origin})),
                }
            }
        }
        Ok(Err(_)) => check.count("arbitrary_private_rejected", 1),
    }
}

fn gen_arbitrary_key_bytes(rng: &mut Rng) -> Vec<u8> {
    match rng.weighted(&[20, 50, 15, 15]) {
        0 => {
            let n = rng.range(0, 120) as usize;
            rng.bytes(n)
        }
        1 => {
            // well-formed wrapper, random type and data of plausible sizes
            let ty = *rng.pick(&[0u64, 1, 2, 3, 4, 5, 127, 128, u32::MAX as u64, u64::MAX]);
            let ty = if rng.chance(4, 5) { ty.min(3) } else { ty };
            let n = *rng.pick(&[0usize, 1, 31, 32, 33, 34, 63, 64, 65, 66, 91, 121, 122, 270, 294]);
            let mut data = rng.bytes(n);
            // plausible leading bytes for SEC1 / DER
            if rng.bool() && !data.is_empty() {
                data[0] = *rng.pick(&[0x02u8, 0x03, 0x04, 0x30, 0x00]);
            }
            let mut m = pb::Msg::new();
            if rng.chance(9, 10) {
                m = m.varint(1, ty);
            }
            if rng.chance(9, 10) {
                m = m.bytes(2, data);
            }
            if rng.chance(1, 10) {
                m = m.varint(3, rng.next_u64());
            }
            m.encode()
        }
        2 => {
            // wrong wire types for the two fields
            let mut m = pb::Msg::new();
            m = if rng.bool() { m.bytes(1, rng.bytes(3)) } else { m.varint(1, rng.below(4)) };
            m = if rng.bool() { m.varint(2, rng.next_u64()) } else { m.bytes(2, rng.bytes(32)) };
            m.encode()
        }
        _ => {
            // DER-looking data under the ecdsa / rsa types
            let ty = *rng.pick(&[0u64, 3]);
            let n = rng.range(0, 100) as usize;
            let mut body = rng.bytes(n);
            if body.len() > 4 && rng.bool() {
                body[0] = 0x30;
                body[1] = rng.next_u32() as u8;
                body[2] = 0x30;
            }
            let data = if rng.bool() { util::der_tlv(0x30, &body) } else { body };
            pb::Msg::new().varint(1, ty).bytes(2, data).encode()
        }
    }
}

pub fn run(args: &Args) -> i32 {
    let check = Check::new(
        args,
        "exploration",
        "peer-id byte strings from 9 generator classes (identity/sha256/other codes, lengths around 42, truncated, \
         trailing, huge, non-minimal) plus every string of <= 2 bytes; base58 texts (valid, alphabet-random, foreign \
         character, unicode); keys of all four types with their protobuf encodings, every single-byte mutation and \
         truncation of them, and structured-random key messages. non-trivial = the reference gives a verdict \
         (accept/reject) or a key round trip was executed; distinct by input bytes",
    );
    if let Some(path) = &args.replay {
        let v: vmon::Value = std::fs::read_to_string(path).ok().and_then(|s| s.parse().ok()).unwrap_or(vmon::Value::Null);
        let w = &v["witness"];
        if let Some(h) = w["input_hex"].as_str() {
            let b = vmon::unhex(h);
            judge_peer_id_bytes(&check, &b, "replay");
            check_decode_total(&check, &b, "replay");
        } else if let Some(t) = w["text"].as_str() {
            judge_peer_id_text(&check, t);
        } else {
            check.inconclusive("replay file has neither witness.input_hex nor witness.text");
        }
        check.nontrivial(1);
        check.nontrivial(2);
        return check.finish();
    }
    let nocrypto = flag(args, "nocrypto");
    // --- A: exhaustive small strings
    let small_max = budget(args, 300, 65_536 + 256 + 1, 65_536 + 256 + 1);
    let mut n = 0u64;
    judge_peer_id_bytes(&check, &[], "exhaustive");
    'outer: for a in 0..=255u8 {
        judge_peer_id_bytes(&check, &[a], "exhaustive");
        for b in 0..=255u8 {
            n += 1;
            if n > small_max {
                break 'outer;
            }
            judge_peer_id_bytes(&check, &[a, b], "exhaustive");
        }
    }
    check.note("exhaustive_upto_2_bytes", json!(n >= 65_536));
    // --- A/B: generated multihashes and texts
    let n_bytes = budget(args, 300, 150_000, 4_000_000);
    vmon::par_cases(&check, n_bytes, args.threads, |_, rng| {
        let b = gen_multihash(rng);
        judge_peer_id_bytes(&check, &b, "generated");
    });
    let n_text = budget(args, 200, 60_000, 1_500_000);
    vmon::par_cases(&check, n_text, args.threads, |_, rng| {
        let s = gen_b58_text(rng);
        judge_peer_id_text(&check, &s);
    });
    // --- C: keys
    if !nocrypto {
        let n_keys = budget(args, 3, 1_500, 40_000);
        let thorough = args.tier == vmon::Tier::Thorough;
        vmon::par_cases(&check, n_keys, args.threads, |i, rng| {
            let kind = (i % 3) as usize;
            let kp = gen_key(kind, rng);
            judge_key(&check, kind, &kp, rng, thorough || (i < 30 && !is_tiny(args)));
        });
        // RSA: the three test keys; decode direction of the private encoding via a hand-built message
        // (`--norsa 1`: skipped, ring is FFI and cannot run under Miri)
        let mut rng = Rng::for_case(args.seed, 0xC20);
        for i in 0..(if flag(args, "norsa") { 0 } else { 3 }) {
            let kp = rsa_key(i);
            judge_key(&check, RSA, &kp, &mut rng, !is_tiny(args));
            let pkcs1 = util::pkcs8_inner_pkcs1(RSA_PK8[i]).expect("pkcs8 test key has an inner pkcs1 key");
            let msg = pb::Msg::new().varint(1, 0).bytes(2, &pkcs1).encode();
            match catch(|| Keypair::from_protobuf_encoding(&msg)) {
                Ok(Ok(k2)) if k2.public() == kp.public() => check.count("rsa_private_decoded_from_reference_message", 1),
                Ok(other) => check.violation("private-protobuf-decode-rsa", format!("hand-encoded RSA PrivateKey message decodes to {:?}", other.map(|k| k.public())), json!({"rsa_key": i})),
                Err(p) => check.violation(format!("panic@{}", p.site()), p.msg.clone(), json!({"rsa_key": i})),
            }
        }
        let n_arb = budget(args, 60, 150_000, 3_000_000);
        vmon::par_cases(&check, n_arb, args.threads, |_, rng| {
            let b = gen_arbitrary_key_bytes(rng);
            check_decode_total(&check, &b, "arbitrary");
            check.cases(1);
        });
        // every <= 2-byte string as a key message
        check_decode_total(&check, &[], "exhaustive");
        let lim = budget(args, 1, 256, 256);
        for a in 0..lim {
            check_decode_total(&check, &[a as u8], "exhaustive");
            for b in 0..=255u8 {
                check_decode_total(&check, &[a as u8, b], "exhaustive");
            }
        }
    }
    check.note("nocrypto", json!(nocrypto));
    check.note("exhaustive", json!(false));
    check.finish()
}
