//! C21 — signatures, signed envelopes and peer records are sound.
//!
//! Real code: `Keypair::sign`, `PublicKey::verify` (all four key types), `SignedEnvelope::{new, verify,
//! payload_and_signing_key, into_protobuf_encoding, from_protobuf_encoding}`, `PeerRecord::{new,
//! new_interop, from_signed_envelope, from_signed_envelope_interop}`.
//!
//! Oracles (from the statement and RFC 0002/0003):
//! * `verify(msg, sign(msg))` is true; it is false for every single-byte change of the message, every
//!   single-byte change of the signature, a signature with a byte appended / removed, a message with a
//!   byte appended / removed, and under any other key (same or other type).
//! * an envelope verifies for the domain it was signed for and yields its payload only for that domain
//!   *and* payload type; every other (domain, type) pair — including pairs that move bytes across the
//!   domain/type/payload boundaries — is refused. The signature in the encoded envelope verifies
//!   against the RFC 0002 buffer built independently in the harness.
//! * a peer record is accepted by the decoder of its own format only (legacy vs interop), and never when
//!   the peer id inside differs from the signer (hand-encoded payloads; the same builder with the
//!   signer's id is the accepted control).
//! * every single-byte mutation (4 values per position; thorough: all 255 values for 12 envelopes and 12 records), truncation,
//!   deletion and insertion applied to an encoded envelope: decoding fails, or extraction/record
//!   reconstruction fails, or the accepted result has exactly the original (peer id, seq, addresses)
//!   resp. (payload, signing key).
//!
//! Not judged: which error variant is returned; determinism of signatures.
use std::sync::atomic::AtomicU32;

use libp2p_core::{Multiaddr, PeerRecord, SignedEnvelope};
use libp2p_identity::PeerId;
use vmon::{Args, Check, Rng, Sig, Tier, catch, hex, json, pb};

use crate::util::{self, *};

static S_SIG: AtomicU32 = AtomicU32::new(0);
static S_ENV: AtomicU32 = AtomicU32::new(0);
static S_REC: AtomicU32 = AtomicU32::new(0);

fn masks(rng: &mut Rng, thorough: bool) -> Vec<u8> {
    if thorough { vec![0x01, 0x02, 0x04, 0x08, 0x10, 0x20, 0x40, 0x80] } else { vec![1u8 << rng.usize(8)] }
}

fn verify(check: &Check, pk: &libp2p_identity::PublicKey, msg: &[u8], sig: &[u8], ctx: &str) -> Option<bool> {
    match catch(|| pk.verify(msg, sig)) {
        Ok(b) => Some(b),
        Err(p) => {
            check.violation(format!("panic@{}", p.site()), format!("verify panicked ({ctx}): {}", p.msg), json!({"msg_hex": hex(msg), "sig_hex": hex(sig), "public_key_hex": hex(&pk.encode_protobuf())}));
            None
        }
    }
}

fn signature_case(check: &Check, kind: usize, rng: &mut Rng, thorough: bool) {
    let kname = KEY_TYPES[kind];
    let kp = gen_key(kind, rng);
    let pk = kp.public();
    let len = match rng.weighted(&[10, 60, 20, 10]) {
        0 => 0,
        1 => rng.range(1, 64) as usize,
        2 => 64,
        _ => rng.range(65, 3000) as usize,
    };
    let msg = rng.bytes(len);
    let sig = match catch(|| kp.sign(&msg)) {
        Ok(Ok(s)) => s,
        Ok(Err(e)) => {
            check.violation(format!("sign-fails-{kname}"), format!("{e}"), json!({"msg_hex": hex(&msg)}));
            return;
        }
        Err(p) => {
            check.violation(format!("panic@{}", p.site()), p.msg.clone(), json!({"msg_hex": hex(&msg), "key_type": kname}));
            return;
        }
    };
    let witness = |what: &str, at: usize, mask: u8| json!({"key_type": kname, "public_key_hex": hex(&pk.encode_protobuf()), "msg_hex": hex(&msg), "sig_hex": hex(&sig), "change": what, "at": at, "mask": mask});
    if verify(check, &pk, &msg, &sig, "genuine") == Some(false) {
        check.violation(format!("genuine-signature-rejected-{kname}"), "verify(msg, sign(msg)) = false", witness("none", 0, 0));
    }
    let exhaustive = msg.len() <= 64;
    // message changes
    let msg_positions: Vec<usize> = if exhaustive { (0..msg.len()).collect() } else { (0..48).map(|_| rng.usize(msg.len())).collect() };
    for at in msg_positions {
        for mask in masks(rng, thorough) {
            let mut m = msg.clone();
            m[at] ^= mask;
            if verify(check, &pk, &m, &sig, "msg-flip") == Some(true) {
                check.violation(format!("changed-message-verifies-{kname}"), format!("message byte {at} ^ {mask:#x} still verifies"), witness("msg-flip", at, mask));
            }
            check.count("message_flips", 1);
        }
    }
    let mut longer = msg.clone();
    longer.push(rng.next_u32() as u8);
    if verify(check, &pk, &longer, &sig, "msg-append") == Some(true) {
        check.violation(format!("changed-message-verifies-{kname}"), "message with a byte appended verifies", witness("msg-append", msg.len(), 0));
    }
    if !msg.is_empty() && verify(check, &pk, &msg[..msg.len() - 1], &sig, "msg-truncate") == Some(true) {
        check.violation(format!("changed-message-verifies-{kname}"), "message with the last byte removed verifies", witness("msg-truncate", msg.len(), 0));
    }
    // signature changes: every position
    for at in 0..sig.len() {
        for mask in masks(rng, thorough) {
            let mut s = sig.clone();
            s[at] ^= mask;
            if verify(check, &pk, &msg, &s, "sig-flip") == Some(true) {
                check.violation(format!("changed-signature-verifies-{kname}"), format!("signature byte {at} ^ {mask:#x} still verifies"), witness("sig-flip", at, mask));
            }
            check.count("signature_flips", 1);
        }
    }
    for (what, s) in [
        ("sig-append-00", [sig.clone(), vec![0]].concat()),
        ("sig-append-rnd", [sig.clone(), vec![rng.next_u32() as u8]].concat()),
        ("sig-prepend-00", [vec![0], sig.clone()].concat()),
        ("sig-drop-last", sig[..sig.len() - 1].to_vec()),
        ("sig-drop-first", sig[1..].to_vec()),
        ("sig-empty", vec![]),
        ("sig-doubled", [sig.clone(), sig.clone()].concat()),
    ] {
        if verify(check, &pk, &msg, &s, what) == Some(true) {
            check.violation(format!("changed-signature-verifies-{kname}"), format!("{what} still verifies"), witness(what, 0, 0));
        }
        check.count("signature_resizes", 1);
    }
    // other keys
    let other_same = if kind == RSA { rsa_key((0..3).find(|i| rsa_key(*i).public() != pk).unwrap()) } else { gen_key(kind, rng) };
    let other_kind = (kind + 1 + rng.usize(3)) % 4;
    let other_type = gen_key(other_kind, rng);
    for (what, o) in [("other-key-same-type", &other_same), ("other-key-type", &other_type)] {
        if o.public() != pk && verify(check, &o.public(), &msg, &sig, what) == Some(true) {
            check.violation(format!("verifies-under-{what}"), format!("signature by {kname} key verifies under {}", KEY_TYPES[if what == "other-key-type" { other_kind } else { kind }]), witness(what, 0, 0));
        }
        check.count("other_key_verifications", 1);
    }
    check.case(Sig::new().bytes(&msg).bytes(&sig).0, true);
    check.count(&format!("signature_cases_{kname}"), 1);
    if take_sample(&S_SIG, 2) {
        check.sample(json!({"kind": "signature", "key_type": kname, "msg_len": msg.len(), "sig_len": sig.len(), "flips_all_positions": exhaustive}));
    }
}

// ---------------------------------------------------------------------------------------------
// envelopes
// ---------------------------------------------------------------------------------------------

fn rfc0002_buffer(domain: &[u8], ty: &[u8], payload: &[u8]) -> Vec<u8> {
    let mut b = pb::uvarint(domain.len() as u64);
    b.extend_from_slice(domain);
    b.extend(pb::uvarint(ty.len() as u64));
    b.extend_from_slice(ty);
    b.extend(pb::uvarint(payload.len() as u64));
    b.extend_from_slice(payload);
    b
}

fn gen_domain(rng: &mut Rng) -> String {
    let n = *rng.pick(&[0usize, 1, 5, 16, 21, 127, 128, 300]);
    (0..n).map(|_| *rng.pick(&['a', 'b', '-', 'z', 'é', '/', '0'])).collect()
}

fn envelope_case(check: &Check, rng: &mut Rng, allow_rsa: bool, thorough: bool, deep: bool) {
    let (kind, kp) = gen_any_key(rng, allow_rsa);
    let kname = KEY_TYPES[kind];
    let domain = gen_domain(rng);
    let ty_len = *rng.pick(&[0usize, 1, 2, 12, 28, 127, 128]);
    let ty = rng.bytes(ty_len);
    let pl_len = *rng.pick(&[0usize, 1, 7, 64, 127, 128, 500]);
    let payload = rng.bytes(pl_len);
    let witness = || json!({"key_type": kname, "domain": domain, "payload_type_hex": hex(&ty), "payload_hex": hex(&payload)});
    let env = match catch(|| SignedEnvelope::new(&kp, domain.clone(), ty.clone(), payload.clone())) {
        Ok(Ok(e)) => e,
        Ok(Err(e)) => return check.violation("envelope-new-fails", format!("{e}"), witness()),
        Err(p) => return check.violation(format!("panic@{}", p.site()), p.msg.clone(), witness()),
    };
    // accepted for what it was signed for
    if !env.verify(domain.clone()) {
        check.violation("envelope-own-domain-rejected", "verify(own domain) = false", witness());
    }
    match env.payload_and_signing_key(domain.clone(), &ty) {
        Ok((p, k)) if p == payload.as_slice() && *k == kp.public() => {}
        other => check.violation("envelope-own-extraction-wrong", format!("{:?}", other.map(|(p, _)| hex(p))), witness()),
    }
    // independent RFC 0002 buffer
    let bytes = env.clone().into_protobuf_encoding();
    let fields = pb::Msg::decode(&bytes);
    match &fields {
        Some(m) => {
            let sig = m.get_bytes(5).unwrap_or(&[]);
            if !kp.public().verify(&rfc0002_buffer(domain.as_bytes(), &ty, &payload), sig) {
                check.violation("envelope-signature-not-rfc0002", "signature does not verify over the independently built buffer", witness());
            }
            let want = {
                let mut r = pb::Msg::new().bytes(1, util::ref_public_protobuf(&kp.public()));
                if !ty.is_empty() {
                    r = r.bytes(2, &ty);
                }
                if !payload.is_empty() {
                    r = r.bytes(3, &payload);
                }
                r.bytes(5, sig).encode()
            };
            if want != bytes {
                check.violation("envelope-encoding-differs-from-reference", format!("{} vs {}", hex(&bytes), hex(&want)), witness());
            }
        }
        None => check.violation("envelope-encoding-not-protobuf", hex(&bytes), witness()),
    }
    match catch(|| SignedEnvelope::from_protobuf_encoding(&bytes)) {
        Ok(Ok(e2)) if e2 == env => {}
        Ok(other) => check.violation("envelope-roundtrip", format!("{other:?}"), witness()),
        Err(p) => check.violation(format!("panic@{}", p.site()), p.msg.clone(), witness()),
    }
    // refused for every other (domain, type)
    let mut wrong: Vec<(String, Vec<u8>, &str)> = vec![];
    let mut d2 = domain.clone();
    d2.push('x');
    wrong.push((d2, ty.clone(), "domain-extended"));
    if !domain.is_empty() {
        let mut chars: Vec<char> = domain.chars().collect();
        chars.pop();
        wrong.push((chars.iter().collect(), ty.clone(), "domain-shortened"));
        let mut chars: Vec<char> = domain.chars().collect();
        let at = rng.usize(chars.len());
        chars[at] = if chars[at] == 'q' { 'r' } else { 'q' };
        wrong.push((chars.iter().collect(), ty.clone(), "domain-char-changed"));
    }
    wrong.push((gen_domain(rng) + "!", ty.clone(), "domain-unrelated"));
    let mut t2 = ty.clone();
    t2.push(0);
    wrong.push((domain.clone(), t2, "type-extended"));
    if !ty.is_empty() {
        wrong.push((domain.clone(), ty[..ty.len() - 1].to_vec(), "type-shortened"));
        let mut t3 = ty.clone();
        let at = rng.usize(t3.len());
        t3[at] ^= 1 << rng.usize(8);
        wrong.push((domain.clone(), t3, "type-bit-flipped"));
    }
    // boundary shift: move the last domain byte into the type (same concatenation, other framing)
    if domain.is_ascii() && !domain.is_empty() {
        let (a, b) = domain.split_at(domain.len() - 1);
        wrong.push((a.to_string(), [b.as_bytes(), &ty[..]].concat(), "boundary-shift"));
    }
    for (d, t, what) in &wrong {
        let domain_differs = *d != domain;
        if domain_differs && env.verify(d.clone()) {
            check.violation(format!("envelope-verifies-for-{what}"), format!("verify({d:?}) = true, signed for {domain:?}"), witness());
        }
        if let Ok(r) = catch(|| env.payload_and_signing_key(d.clone(), t).is_ok()) {
            if r {
                check.violation(format!("envelope-payload-released-for-{what}"), format!("payload_and_signing_key({d:?}, {}) = Ok", hex(t)), witness());
            }
        }
        check.count("wrong_domain_or_type_probes", 1);
    }
    // mutations of the encoding
    let orig_key = kp.public();
    let try_mutant = |m: &[u8], what: &str, at: usize| {
        check.count("envelope_mutations", 1);
        let w = || json!({"key_type": kname, "domain": domain, "payload_type_hex": hex(&ty), "original_hex": hex(&bytes), "mutated_hex": hex(m), "mutation": what, "at": at});
        match catch(|| SignedEnvelope::from_protobuf_encoding(m)) {
            Err(p) => check.violation(format!("panic@{}", p.site()), p.msg.clone(), w()),
            Ok(Err(_)) => check.count("envelope_mutation_decode_error", 1),
            Ok(Ok(e2)) => match e2.payload_and_signing_key(domain.clone(), &ty) {
                Err(_) => check.count("envelope_mutation_rejected", 1),
                Ok((p, k)) => {
                    if p != payload.as_slice() || *k != orig_key {
                        check.violation("mutated-envelope-accepted-with-other-content", format!("{what} at {at}: payload {} key {:?}", hex(p), k), w());
                    } else {
                        check.count("envelope_mutation_accepted_identical", 1);
                    }
                }
            },
        }
    };
    mutate_all(&bytes, rng, thorough, deep, &try_mutant);
    check.case(Sig::new().bytes(&bytes).0, true);
    check.count(&format!("envelope_cases_{kname}"), 1);
    if take_sample(&S_ENV, 1) {
        check.sample(json!({"kind": "envelope", "key_type": kname, "domain": domain, "payload_type_len": ty.len(), "payload_len": payload.len(), "encoded_len": bytes.len(), "wrong_pairs_probed": wrong.len()}));
    }
}

/// single-byte replacements at every position, truncations, deletions, insertions
fn mutate_all(bytes: &[u8], rng: &mut Rng, thorough: bool, deep: bool, f: &dyn Fn(&[u8], &str, usize)) {
    for at in 0..bytes.len() {
        if deep {
            for v in 0..=255u8 {
                if v != bytes[at] {
                    let mut m = bytes.to_vec();
                    m[at] = v;
                    f(&m, "replace", at);
                }
            }
        } else {
            for v in [bytes[at] ^ 0x01, bytes[at] ^ 0x80, bytes[at] ^ (1 << rng.range(1, 6)), if bytes[at] == 0 { 0xff } else { 0 }] {
                let mut m = bytes.to_vec();
                m[at] = v;
                f(&m, "replace", at);
            }
        }
    }
    let step = if thorough { 1 } else { 1 + bytes.len() / 64 };
    for at in (0..bytes.len()).step_by(step) {
        f(&bytes[..at], "truncate", at);
        let mut m = bytes.to_vec();
        m.remove(at);
        f(&m, "delete", at);
        let mut m = bytes.to_vec();
        m.insert(at, rng.next_u32() as u8);
        f(&m, "insert", at);
    }
}

// ---------------------------------------------------------------------------------------------
// peer records
// ---------------------------------------------------------------------------------------------

const LEGACY: (&str, &[u8]) = ("libp2p-routing-state", b"/libp2p/routing-state-record");
const INTEROP: (&str, &[u8]) = ("libp2p-peer-record", &[0x03, 0x01]);

fn gen_addrs(rng: &mut Rng) -> Vec<Multiaddr> {
    let n = *rng.pick(&[0usize, 1, 1, 2, 3, 8]);
    (0..n)
        .map(|_| {
            let s = match rng.usize(5) {
                0 => format!("/ip4/{}.{}.{}.{}/tcp/{}", rng.below(256), rng.below(256), rng.below(256), rng.below(256), rng.below(65536)),
                1 => format!("/ip6/2001:db8::{:x}/udp/{}/quic-v1", rng.below(65536), rng.below(65536)),
                2 => format!("/dns4/h{}.example.com/tcp/443/wss", rng.below(1000)),
                3 => format!("/memory/{}", rng.next_u64()),
                _ => format!("/ip4/10.0.0.{}/udp/{}/quic-v1/p2p/{}", rng.below(256), rng.below(65536), PeerId::from_public_key(&gen_key(ED25519, rng).public())),
            };
            s.parse().expect("address template parses")
        })
        .collect()
}

fn record_payload(peer: &[u8], seq: u64, addrs: &[Multiaddr]) -> Vec<u8> {
    let mut m = pb::Msg::new();
    if !peer.is_empty() {
        m = m.bytes(1, peer);
    }
    if seq != 0 {
        m = m.varint(2, seq);
    }
    for a in addrs {
        let inner = if a.to_vec().is_empty() { pb::Msg::new() } else { pb::Msg::new().bytes(1, a.to_vec()) };
        m = m.msg(3, &inner);
    }
    m.encode()
}

type Decoder = fn(SignedEnvelope) -> Result<PeerRecord, libp2p_core::peer_record::FromEnvelopeError>;

fn record_case(check: &Check, rng: &mut Rng, allow_rsa: bool, thorough: bool, deep: bool) {
    let (kind, kp) = gen_any_key(rng, allow_rsa);
    let kname = KEY_TYPES[kind];
    let interop = rng.bool();
    let fmt = if interop { "interop" } else { "legacy" };
    let addrs = gen_addrs(rng);
    let me = PeerId::from_public_key(&kp.public());
    let witness = || json!({"key_type": kname, "format": fmt, "addresses": addrs.iter().map(|a| a.to_string()).collect::<Vec<_>>()});
    let (own, other): (Decoder, Decoder) = if interop { (PeerRecord::from_signed_envelope_interop, PeerRecord::from_signed_envelope) } else { (PeerRecord::from_signed_envelope, PeerRecord::from_signed_envelope_interop) };
    // API-built record
    let rec = match catch(|| if interop { PeerRecord::new_interop(&kp, addrs.clone()) } else { PeerRecord::new(&kp, addrs.clone()) }) {
        Ok(Ok(r)) => r,
        Ok(Err(e)) => return check.violation("record-new-fails", format!("{e}"), witness()),
        Err(p) => return check.violation(format!("panic@{}", p.site()), p.msg.clone(), witness()),
    };
    if rec.peer_id() != me || rec.addresses() != addrs.as_slice() {
        check.violation("record-new-wrong-content", format!("{:?}", rec), witness());
    }
    match catch(|| own(rec.to_signed_envelope())) {
        Ok(Ok(r2)) if r2.peer_id() == me && r2.seq() == rec.seq() && r2.addresses() == addrs.as_slice() => {}
        Ok(other) => check.violation(format!("record-own-format-rejected-{fmt}"), format!("{other:?}"), witness()),
        Err(p) => check.violation(format!("panic@{}", p.site()), p.msg.clone(), witness()),
    }
    if let Ok(Ok(_)) = catch(|| other(rec.to_signed_envelope())) {
        check.violation(format!("record-accepted-by-other-format-decoder-{fmt}"), "record of one format accepted by the decoder of the other", witness());
    }
    // hand-built payloads under every (domain, type) combination
    let seq = match rng.usize(4) {
        0 => 0,
        1 => rng.below(1000),
        2 => u64::MAX,
        _ => rng.next_u64(),
    };
    let stranger = PeerId::from_public_key(&gen_key(rng.usize(3), rng).public());
    for (dom, ty, label) in [(LEGACY.0, LEGACY.1, "legacy"), (INTEROP.0, INTEROP.1, "interop"), (LEGACY.0, INTEROP.1, "legacy-domain+interop-type"), (INTEROP.0, LEGACY.1, "interop-domain+legacy-type")] {
        for (claimed, whose) in [(me, "signer"), (stranger, "stranger")] {
            let payload = record_payload(&claimed.to_bytes(), seq, &addrs);
            let Ok(env) = SignedEnvelope::new(&kp, dom.to_string(), ty.to_vec(), payload) else { continue };
            for (dec, dec_name) in [(PeerRecord::from_signed_envelope as Decoder, "legacy"), (PeerRecord::from_signed_envelope_interop as Decoder, "interop")] {
                let should_accept = label == dec_name && whose == "signer";
                let w = || json!({"key_type": kname, "signed_as": label, "decoder": dec_name, "record_peer": whose, "seq": seq, "addresses": addrs.iter().map(|a| a.to_string()).collect::<Vec<_>>()});
                match catch(|| dec(env.clone())) {
                    Err(p) => check.violation(format!("panic@{}", p.site()), p.msg.clone(), w()),
                    Ok(Ok(r)) => {
                        if !should_accept {
                            let sig = if whose == "stranger" && label == dec_name { "record-accepted-with-foreign-peer-id".to_string() } else { format!("record-accepted-signed-as-{label}-by-{dec_name}-decoder") };
                            check.violation(sig, format!("accepted record claims {} (signer {me})", r.peer_id()), w());
                        } else if r.peer_id() != me || r.seq() != seq || r.addresses() != addrs.as_slice() {
                            check.violation("record-fields-differ-from-payload", format!("{r:?}"), w());
                        }
                    }
                    Ok(Err(e)) => {
                        if should_accept {
                            check.violation(format!("record-valid-hand-built-rejected-{dec_name}"), format!("{e}"), w());
                        }
                    }
                }
                check.count("record_format_probes", 1);
            }
        }
    }
    // mutations of the encoded envelope of the API-built record
    let bytes = rec.to_signed_envelope().into_protobuf_encoding();
    let (o_peer, o_seq, o_addrs) = (rec.peer_id(), rec.seq(), rec.addresses().to_vec());
    let try_mutant = |m: &[u8], what: &str, at: usize| {
        check.count("record_mutations", 1);
        let w = || json!({"key_type": kname, "format": fmt, "original_hex": hex(&bytes), "mutated_hex": hex(m), "mutation": what, "at": at});
        match catch(|| SignedEnvelope::from_protobuf_encoding(m).ok().map(|e| (own(e.clone()), other(e)))) {
            Err(p) => check.violation(format!("panic@{}", p.site()), p.msg.clone(), w()),
            Ok(None) => check.count("record_mutation_decode_error", 1),
            Ok(Some((a, b))) => {
                for (r, which) in [(a, "own"), (b, "other")] {
                    match r {
                        Err(_) => check.count("record_mutation_rejected", 1),
                        Ok(r) => {
                            if r.peer_id() != o_peer || r.seq() != o_seq || r.addresses() != o_addrs.as_slice() || which == "other" {
                                check.violation("mutated-record-accepted-with-other-content", format!("{what} at {at} ({which} decoder): peer {} seq {} addrs {:?}", r.peer_id(), r.seq(), r.addresses()), w());
                            } else {
                                check.count("record_mutation_accepted_identical", 1);
                            }
                        }
                    }
                }
            }
        }
    };
    mutate_all(&bytes, rng, thorough, deep, &try_mutant);
    check.case(Sig::new().bytes(&bytes).u64(1).0, true);
    check.count(&format!("record_cases_{kname}"), 1);
    if take_sample(&S_REC, 2) {
        check.sample(json!({"kind": "peer-record", "key_type": kname, "format": fmt, "addresses": addrs.iter().map(|a| a.to_string()).collect::<Vec<_>>(), "encoded_len": bytes.len()}));
    }
}

pub fn run(args: &Args) -> i32 {
    let check = Check::new(
        args,
        "fault_enumeration",
        "signature cases: key of each type x message (lengths 0..3000), all single-byte flips of the signature and of \
         messages <= 64 bytes, resizes, foreign keys; envelope cases: random (domain, type, payload) with 7-9 wrong \
         (domain, type) probes and every single-byte replacement/truncation/deletion/insertion of the encoding; \
         peer-record cases: both formats x hand-built payloads x both decoders, and the same mutations. \
         non-trivial = every case (each executes the genuine-accept control); distinct by encoded bytes",
    );
    let thorough = args.tier == Tier::Thorough;
    let n_sig = budget(args, 8, 400, 2_500);
    vmon::par_cases(&check, n_sig, args.threads, |i, rng| {
        // RSA is slow to sign: 1 case in 32
        let kind = if i % 32 == 31 { RSA } else { (i % 3) as usize };
        signature_case(&check, kind, rng, thorough);
    });
    let n_env = budget(args, 4, 140, 400);
    vmon::par_cases(&check, n_env, args.threads, |i, rng| envelope_case(&check, rng, i % 16 == 0, thorough, thorough && i < 12));
    let n_rec = budget(args, 4, 140, 400);
    vmon::par_cases(&check, n_rec, args.threads, |i, rng| record_case(&check, rng, i % 16 == 0, thorough, thorough && i < 12));
    check.note("exhaustive", json!("single-byte mutations: all positions x 4 values (thorough: all 255 values for 12+12 encodings); cases sampled"));
    check.finish()
}
