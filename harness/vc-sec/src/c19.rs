//! C19 — plaintext and pnet upgrades preserve data and reject mismatches.
//!
//! Real code: `libp2p_plaintext::Config` (inbound/outbound upgrade, `Output` reads),
//! `libp2p_pnet::{PnetConfig::handshake, PnetOutput, PreSharedKey::{to_key_file, to_string, from_str}}`.
//!
//! (a) plaintext, hostile raw remote: the harness injects a hand-encoded `Exchange` (uvarint frame of
//!     {1: id, 2: pubkey}) **immediately followed by application bytes** into the honest side's read
//!     direction; the honest side's read chunking is PRNG-scheduled (1-byte reads ... everything at
//!     once). Oracle: id == peer id of pubkey ⇒ the upgrade reports that peer and the application
//!     reads exactly follow-up ++ later bytes; id of another key / missing id / missing key / garbage
//!     ⇒ the upgrade fails. Key types ed25519 and secp256k1 (larger keys exceed the handshake's
//!     100-byte frame and are outside the statement).
//! (b) plaintext, two honest sides, one writes application data right after its upgrade resolves.
//! (c) pnet: two `PnetConfig::handshake` ends with the same key over a pipe with partial writes,
//!     spurious `Pending`, bounded capacity (back-pressure) in both directions; both directions carry
//!     tagged scripts concurrently; received == sent.
//! (d) `PreSharedKey`: printed key file parses back to the key; `from_str` on generated text (valid
//!     headers with a 64-byte third line containing multi-byte UTF-8 at every alignment, unicode
//!     whitespace, CRLF, random unicode) returns and never panics.
//!
//! Not judged: which error a failing plaintext handshake returns; pnet ends with different keys;
//! whether malformed key files are `Err` (only: no panic, and an accepted text names a key that survives
//! print/parse).
use std::{str::FromStr, sync::atomic::AtomicU32};

use futures::{AsyncReadExt, AsyncWriteExt};
use libp2p_core::upgrade::{InboundConnectionUpgrade, OutboundConnectionUpgrade};
use libp2p_identity::PeerId;
use libp2p_pnet::{PnetConfig, PreSharedKey};
use vmon::{
    Args, Check, Rng, Sig, catch, hex, json, pb,
    pipe::{Sched, pipe},
};

use crate::util::*;

static S_PT: AtomicU32 = AtomicU32::new(0);
static S_PN: AtomicU32 = AtomicU32::new(0);
static S_PSK: AtomicU32 = AtomicU32::new(0);


fn tagged(rng: &mut Rng, n: usize, tag: u8) -> Vec<u8> {
    // position-dependent bytes so that reordering / duplication / loss shows
    let salt = rng.next_u32();
    (0..n).map(|i| ((i as u32).wrapping_mul(2654435761).wrapping_add(salt) >> 13) as u8 ^ tag).collect()
}

// ---------------------------------------------------------------------------------------------
// (a) plaintext vs raw remote
// ---------------------------------------------------------------------------------------------

#[derive(Clone, Copy, Debug, PartialEq)]
enum Claim {
    Matching,
    OtherKeysId,
    RandomIdentityId,
    Sha256Id,
    MissingId,
    MissingKey,
    GarbageId,
    GarbageKey,
    EmptyMessage,
    GarbageFrame,
}

fn plaintext_raw_case(check: &Check, rng: &mut Rng) {
    let local = gen_key(rng.usize(2), rng);
    let remote_kind = rng.usize(2);
    let remote = gen_key(remote_kind, rng);
    let remote_pk = remote.public().encode_protobuf();
    let remote_id = PeerId::from_public_key(&remote.public());
    let claim = *rng.pick(&[
        Claim::Matching,
        Claim::Matching,
        Claim::Matching,
        Claim::OtherKeysId,
        Claim::OtherKeysId,
        Claim::RandomIdentityId,
        Claim::Sha256Id,
        Claim::MissingId,
        Claim::MissingKey,
        Claim::GarbageId,
        Claim::GarbageKey,
        Claim::EmptyMessage,
        Claim::GarbageFrame,
    ]);
    let other = gen_key(rng.usize(2), rng);
    let msg = match claim {
        Claim::Matching => pb::Msg::new().bytes(1, remote_id.to_bytes()).bytes(2, &remote_pk),
        Claim::OtherKeysId => pb::Msg::new().bytes(1, PeerId::from_public_key(&other.public()).to_bytes()).bytes(2, &remote_pk),
        Claim::RandomIdentityId => {
            let mut id = vec![0u8, 36];
            id.extend(rng.bytes(36));
            pb::Msg::new().bytes(1, id).bytes(2, &remote_pk)
        }
        Claim::Sha256Id => {
            let mut id = vec![0x12u8, 32];
            id.extend(rng.bytes(32));
            pb::Msg::new().bytes(1, id).bytes(2, &remote_pk)
        }
        Claim::MissingId => pb::Msg::new().bytes(2, &remote_pk),
        Claim::MissingKey => pb::Msg::new().bytes(1, remote_id.to_bytes()),
        Claim::GarbageId => {
            let n = rng.range(0, 40) as usize;
            pb::Msg::new().bytes(1, rng.bytes(n)).bytes(2, &remote_pk)
        },
        Claim::GarbageKey => {
            let n = rng.range(0, 40) as usize;
            pb::Msg::new().bytes(1, remote_id.to_bytes()).bytes(2, rng.bytes(n))
        },
        Claim::EmptyMessage => pb::Msg::new(),
        Claim::GarbageFrame => pb::Msg::new(),
    };
    // matching-by-luck cannot happen: OtherKeysId uses a fresh key, random ids are random
    let mut wire = if claim == Claim::GarbageFrame {
        let n = rng.range(1, 90) as usize;
        pb::frame(&rng.bytes(n))
    } else {
        pb::frame(&msg.encode())
    };
    let exchange_len = wire.len();
    let follow_len = *rng.pick(&[0usize, 1, 2, 7, 64, 100, 1000, 8192 - 80, 8192, 9000, 20_000]);
    let followup = tagged(rng, follow_len, 0x5a);
    wire.extend_from_slice(&followup);
    let later_len = *rng.pick(&[0usize, 1, 33, 5000]);
    let later = tagged(rng, later_len, 0xa5);
    let inbound = rng.bool();
    let sched = if rng.chance(1, 4) { Sched::smooth() } else { Sched::random(rng) };
    let sched_desc = sched.describe();
    let (a, b, _a2b, b2a) = pipe(sched, Sched::smooth());
    // coalesced: exchange and follow-up are in the pipe before the honest side polls once
    b2a.inject(&wire);
    let cfg = libp2p_plaintext::Config::new(&local);
    let witness = || {
        json!({"claim": format!("{claim:?}"), "remote_key_type": KEY_TYPES[remote_kind], "exchange_hex": hex(&wire[..exchange_len]), "followup_len": follow_len,
               "later_len": later.len(), "honest_side": if inbound { "inbound" } else { "outbound" }, "read_schedule": sched_desc})
    };
    let res = catch(|| {
        let fut = if inbound { cfg.upgrade_inbound(a, "/plaintext/2.0.0") } else { cfg.upgrade_outbound(a, "/plaintext/2.0.0") };
        drive(fut, 5_000_000)
    });
    let res = match res {
        Err(p) => return check.violation(format!("panic@{}", p.site()), format!("plaintext upgrade panicked: {}", p.msg), witness()),
        Ok(Driven::Budget) => return check.inconclusive("plaintext upgrade poll budget"),
        Ok(Driven::Stalled) => {
            // waiting for more bytes from a remote that sent a short / garbage frame is fine; with a complete
            // matching exchange in the pipe it is a lost wake-up
            if claim == Claim::Matching {
                check.violation("plaintext-matching-handshake-stalls", "complete matching exchange delivered, upgrade never resolves", witness());
            }
            check.count(&format!("plaintext_{claim:?}_stalled"), 1);
            check.case(Sig::new().bytes(&wire[..exchange_len]).u64(follow_len as u64).str(&sched_desc).0, true);
            return;
        }
        Ok(Driven::Done(r)) => r,
    };
    check.count(&format!("plaintext_{claim:?}"), 1);
    match (claim, res) {
        (Claim::Matching, Err(e)) => check.violation("plaintext-matching-exchange-rejected", format!("{e}"), witness()),
        (Claim::Matching, Ok((peer, mut out))) => {
            if peer != remote_id {
                check.violation("plaintext-reports-other-peer", format!("reported {peer}, key's id {remote_id}"), witness());
            }
            if out.remote_key != remote.public() {
                check.violation("plaintext-reports-other-key", "Output::remote_key differs from the announced key", witness());
            }
            b2a.inject(&later);
            drop(b); // remote closes: EOF after the data
            let mut got = vec![];
            let rd = catch(|| drive(async { out.read_to_end(&mut got).await }, 5_000_000));
            match rd {
                Err(p) => return check.violation(format!("panic@{}", p.site()), p.msg.clone(), witness()),
                Ok(Driven::Budget) => return check.inconclusive("plaintext read poll budget"),
                Ok(Driven::Stalled) => return check.violation("plaintext-read-stalls", "remote closed, reader never sees EOF", witness()),
                Ok(Driven::Done(Err(e))) => check.violation("plaintext-read-error-after-handshake", format!("{e}"), witness()),
                Ok(Driven::Done(Ok(_))) => {}
            }
            let want = [followup.clone(), later.clone()].concat();
            if got != want {
                let common = got.iter().zip(&want).take_while(|(x, y)| x == y).count();
                let sig = if got.len() < want.len() && got[..] == want[want.len() - got.len()..] {
                    "plaintext-followup-bytes-lost"
                } else if got.len() < want.len() {
                    "plaintext-bytes-lost"
                } else {
                    "plaintext-bytes-altered"
                };
                check.violation(sig, format!("application read {} bytes, remote sent {} after its exchange; first difference at {common}", got.len(), want.len()), witness());
            }
            check.count("plaintext_followup_bytes_checked", want.len() as u64);
        }
        (_, Ok((peer, _))) => {
            check.violation(format!("plaintext-accepts-{claim:?}"), format!("handshake succeeded reporting {peer}; announced key's id is {remote_id}"), witness());
        }
        (_, Err(_)) => {}
    }
    check.case(Sig::new().bytes(&wire[..exchange_len]).u64(follow_len as u64).str(&sched_desc).0, true);
    if take_sample(&S_PT, 2) {
        check.sample(json!({"kind": "plaintext-raw", "witness": witness()}));
    }
}

// ---------------------------------------------------------------------------------------------
// (b) plaintext, honest pair
// ---------------------------------------------------------------------------------------------

fn plaintext_pair_case(check: &Check, rng: &mut Rng) {
    let ka = gen_key(rng.usize(2), rng);
    let kb = gen_key(rng.usize(2), rng);
    let (ida, idb) = (PeerId::from_public_key(&ka.public()), PeerId::from_public_key(&kb.public()));
    let (sa, sb) = (Sched::random(rng), Sched::random(rng));
    let desc = format!("{} | {}", sa.describe(), sb.describe());
    let (a, b, _, _) = pipe(sa, sb);
    let la = *rng.pick(&[1usize, 10, 300, 9000]);
    let data_a = tagged(rng, la, 1);
    let lb = *rng.pick(&[0usize, 1, 10, 300, 9000]);
    let data_b = tagged(rng, lb, 2);
    let (da, db) = (data_a.clone(), data_b.clone());
    let fa = async move {
        let (peer, mut out) = libp2p_plaintext::Config::new(&ka).upgrade_outbound(a, "/plaintext/2.0.0").await.map_err(|e| e.to_string())?;
        // write right away, before the other side may have finished its handshake
        out.write_all(&da).await.map_err(|e| e.to_string())?;
        out.close().await.map_err(|e| e.to_string())?;
        let mut got = vec![];
        out.read_to_end(&mut got).await.map_err(|e| e.to_string())?;
        Ok::<_, String>((peer, got))
    };
    let fb = async move {
        let (peer, mut out) = libp2p_plaintext::Config::new(&kb).upgrade_inbound(b, "/plaintext/2.0.0").await.map_err(|e| e.to_string())?;
        out.write_all(&db).await.map_err(|e| e.to_string())?;
        out.close().await.map_err(|e| e.to_string())?;
        let mut got = vec![];
        out.read_to_end(&mut got).await.map_err(|e| e.to_string())?;
        Ok::<_, String>((peer, got))
    };
    let witness = || json!({"schedules": desc, "a_writes": data_a.len(), "b_writes": data_b.len()});
    match catch(|| drive(futures::future::join(fa, fb), 5_000_000)) {
        Err(p) => check.violation(format!("panic@{}", p.site()), p.msg.clone(), witness()),
        Ok(Driven::Budget) => check.inconclusive("plaintext pair poll budget"),
        Ok(Driven::Stalled) => check.violation("plaintext-honest-pair-stalls", "both sides wait forever on a lossless pipe (no outstanding waker)", witness()),
        Ok(Driven::Done((ra, rb))) => {
            match (ra, rb) {
                (Ok((pa, ga)), Ok((pb_, gb))) => {
                    if pa != idb || pb_ != ida {
                        check.violation("plaintext-reports-other-peer", format!("a saw {pa} (b is {idb}), b saw {pb_} (a is {ida})"), witness());
                    }
                    if ga != data_b || gb != data_a {
                        check.violation("plaintext-pair-bytes-differ", format!("a read {} of {}, b read {} of {}", ga.len(), data_b.len(), gb.len(), data_a.len()), witness());
                    }
                }
                (x, y) => check.violation("plaintext-honest-pair-fails", format!("{:?} / {:?}", x.err(), y.err()), witness()),
            }
            check.case(Sig::new().str(&desc).u64(data_a.len() as u64).u64(data_b.len() as u64).0, true);
            check.count("plaintext_pairs", 1);
        }
    }
}

// ---------------------------------------------------------------------------------------------
// (c) pnet transparency
// ---------------------------------------------------------------------------------------------


fn pnet_case(check: &Check, rng: &mut Rng) {
    let mut key = [0u8; 32];
    rng.fill(&mut key);
    let psk = PreSharedKey::new(key);
    let (sa, sb) = (Sched::random(rng), Sched::random(rng));
    let desc = format!("{} | {}", sa.describe(), sb.describe());
    // byte-granular schedules move one byte per poll: keep their scripts small (budget)
    let fine = [sa.max_read, sa.max_write, sb.max_read, sb.max_write].iter().any(|m| *m <= 8);
    let (a, b, a2b, b2a) = pipe(sa, sb);
    let caps = [None, None, Some(1usize), Some(7), Some(64), Some(1024), Some(5000)];
    let (ca, cb) = (*rng.pick(&caps), *rng.pick(&caps));
    // capacities apply after the nonce exchange: both sides write their 24-byte nonce before reading, so a
    // transport that buffers less than 24 bytes each way cannot complete the handshake by design (not judged)
    // write scripts: list of (chunk, flush after?)
    let script = |tag: u8, rng: &mut Rng| -> Vec<(Vec<u8>, bool)> {
        let n = rng.range(0, 12) as usize;
        (0..n)
            .map(|_| {
                let len = if fine { *rng.pick(&[0usize, 1, 2, 3, 23, 24, 25, 100, 1023, 1024, 1025]) } else { *rng.pick(&[0usize, 1, 2, 3, 23, 24, 25, 100, 1023, 1024, 1025, 4000, 20_000]) };
                (tagged(rng, len, tag), rng.chance(1, 3))
            })
            .collect()
    };
    let (wa, wb) = (script(0x11, rng), script(0x77, rng));
    let sent_a: Vec<u8> = wa.iter().flat_map(|(c, _)| c.clone()).collect();
    let sent_b: Vec<u8> = wb.iter().flat_map(|(c, _)| c.clone()).collect();
    let read_sizes: Vec<usize> = (0..8).map(|_| *rng.pick(&[1usize, 2, 5, 64, 1000, 1024, 4096, 65536])).collect();
    // `limit`: number of payload bytes the peer will send; a reader that gets more than that stops (a sender that
    // re-sends forever would otherwise grow `got` without bound) and the excess is reported below
    let side = |end: vmon::pipe::End, script: Vec<(Vec<u8>, bool)>, reads: Vec<usize>, tx: vmon::pipe::DirCtl, cap: Option<usize>, limit: usize| async move {
        let out = PnetConfig::new(psk).handshake(end).await.map_err(|e| format!("handshake: {e}"))?;
        tx.set_capacity(cap);
        let (mut r, mut w) = out.split();
        let writer = async move {
            for (chunk, flush) in script {
                w.write_all(&chunk).await.map_err(|e| format!("write: {e}"))?;
                if flush {
                    w.flush().await.map_err(|e| format!("flush: {e}"))?;
                }
            }
            w.close().await.map_err(|e| format!("close: {e}"))?;
            Ok::<_, String>(())
        };
        let reader = async move {
            let mut got = vec![];
            let mut i = 0;
            loop {
                let mut buf = vec![0u8; reads[i % reads.len()]];
                i += 1;
                let n = r.read(&mut buf).await.map_err(|e| format!("read: {e}"))?;
                if n == 0 {
                    break;
                }
                got.extend_from_slice(&buf[..n]);
                if got.len() > limit {
                    return Err(format!("excess: read {} bytes although the peer wrote only {limit}", got.len()));
                }
            }
            Ok::<_, String>(got)
        };
        futures::future::try_join(writer, reader).await.map(|((), got)| got)
    };
    let witness = || json!({"schedules": desc, "capacity_a2b": ca, "capacity_b2a": cb, "a_script": wa.iter().map(|(c, f)| json!([c.len(), f])).collect::<Vec<_>>(),
        "b_script": wb.iter().map(|(c, f)| json!([c.len(), f])).collect::<Vec<_>>(), "read_sizes": read_sizes, "key_hex": hex(&key)});
    let fut = futures::future::join(side(a, wa.clone(), read_sizes.clone(), a2b.clone(), ca, sent_b.len()), side(b, wb.clone(), read_sizes.clone(), b2a.clone(), cb, sent_a.len()));
    let poll_budget = 2_000_000 + 400 * (sent_a.len() + sent_b.len()) as u64;
    match catch(|| drive(fut, poll_budget)) {
        Err(p) => check.violation(format!("panic@{}", p.site()), format!("pnet panicked: {}", p.msg), witness()),
        Ok(Driven::Stalled) => {
            let mut resent = false;
            for (who, ctl, sent) in [("a-to-b", &a2b, &sent_a), ("b-to-a", &b2a, &sent_b)] {
                if ctl.written() > 24 + sent.len() as u64 {
                    resent = true;
                    check.violation("pnet-wire-bytes-exceed-payload", format!("{who}: {} bytes on the wire for {} payload bytes + 24 nonce bytes", ctl.written(), sent.len()), witness());
                }
            }
            if !resent {
                check.violation("pnet-stream-stalls", "written and closed, but the peer's read never completes (logical deadlock, no outstanding waker)", witness())
            }
        }
        Ok(Driven::Budget) => {
            // logical, not temporal: a stream cipher puts exactly one byte on the wire per payload byte (after the
            // 24-byte nonce); more than that means bytes were re-sent
            for (who, ctl, sent) in [("a-to-b", &a2b, &sent_a), ("b-to-a", &b2a, &sent_b)] {
                if ctl.written() > 24 + sent.len() as u64 {
                    check.violation("pnet-wire-bytes-exceed-payload", format!("{who}: {} bytes on the wire for {} payload bytes + 24 nonce bytes", ctl.written(), sent.len()), witness());
                }
            }
            check.inconclusive("pnet poll budget")
        }
        Ok(Driven::Done((ra, rb))) => {
            for (who, got, want) in [("b-to-a", &ra, &sent_b), ("a-to-b", &rb, &sent_a)] {
                match got {
                    Err(e) => check.violation(format!("pnet-io-error-{}", e.split(':').next().unwrap_or("?")), format!("{who}: {e}"), witness()),
                    Ok(g) if g != want => {
                        let common = g.iter().zip(want.iter()).take_while(|(x, y)| x == y).count();
                        let sig = if g.len() < want.len() { "pnet-bytes-lost" } else if g.len() > want.len() { "pnet-bytes-added" } else { "pnet-bytes-altered" };
                        check.violation(sig, format!("{who}: read {} bytes, sent {}, equal prefix {common}", g.len(), want.len()), witness());
                    }
                    Ok(_) => {}
                }
            }
            // the wire carries 24 nonce bytes plus exactly one byte per payload byte
            let (la, lb) = (a2b.written(), b2a.written());
            if ra.is_ok() && rb.is_ok() && (la != 24 + sent_a.len() as u64 || lb != 24 + sent_b.len() as u64) {
                check.violation("pnet-wire-bytes-differ-from-payload", format!("wire {la}/{lb} bytes, payload {}/{} (+24 nonce each)", sent_a.len(), sent_b.len()), witness());
            }
            check.count("pnet_payload_bytes", (sent_a.len() + sent_b.len()) as u64);
            check.count("pnet_wire_bytes", la + lb);
            check.case(Sig::new().str(&desc).u64(sent_a.len() as u64).u64(sent_b.len() as u64).u64(ca.unwrap_or(0) as u64).0, !sent_a.is_empty() || !sent_b.is_empty());
            if take_sample(&S_PN, 2) {
                check.sample(json!({"kind": "pnet", "witness": witness(), "wire_bytes": [la, lb]}));
            }
        }
    }
}

// ---------------------------------------------------------------------------------------------
// (d) PreSharedKey text
// ---------------------------------------------------------------------------------------------

fn serde_json_from(s: &str) -> Option<vmon::Value> {
    // vmon re-exports serde_json's Value/json!; parsing goes through its FromStr
    s.parse::<vmon::Value>().ok()
}

const HDR: &str = "/key/swarm/psk/1.0.0/\n/base16/\n";

fn judge_psk_text(check: &Check, s: &str, origin: &str) {
    let witness = || json!({"text": s, "text_hex": hex(s.as_bytes()), "origin": origin});
    match catch(|| PreSharedKey::from_str(s)) {
        Err(p) => check.violation(format!("panic@{}", p.site()), format!("PreSharedKey::from_str panicked: {}", p.msg), witness()),
        Ok(Ok(k)) => {
            check.count("psk_text_accepted", 1);
            // an accepted file names a key: printing it and parsing again gives the same key
            match catch(|| PreSharedKey::from_str(&k.to_key_file())) {
                Ok(Ok(k2)) if k2 == k => {}
                Ok(_) => check.violation("psk-print-parse-differs", "accepted key does not survive print/parse", witness()),
                Err(p) => check.violation(format!("panic@{}", p.site()), p.msg.clone(), witness()),
            }
        }
        Ok(Err(_)) => check.count("psk_text_rejected", 1),
    }
    check.case(Sig::new().str(s).0, true);
}

fn psk_roundtrip_case(check: &Check, rng: &mut Rng) {
    let mut key = [0u8; 32];
    match rng.usize(4) {
        0 => {}
        1 => key = [0xff; 32],
        _ => rng.fill(&mut key),
    }
    let k = PreSharedKey::new(key);
    for (how, text) in [("to_key_file", k.to_key_file()), ("display", k.to_string())] {
        let want = format!("{HDR}{}\n", hex(&key));
        if text != want {
            check.violation("psk-print-format", format!("{how} printed {text:?}, expected {want:?}"), json!({"key_hex": hex(&key)}));
        }
        match catch(|| PreSharedKey::from_str(&text)) {
            Ok(Ok(k2)) if k2 == k => {}
            Ok(Ok(_)) => check.violation("psk-roundtrip-other-key", format!("{how} output parses to another key"), json!({"key_hex": hex(&key), "text": text})),
            Ok(Err(e)) => check.violation("psk-roundtrip-rejected", format!("{how} output rejected: {e}"), json!({"key_hex": hex(&key), "text": text})),
            Err(p) => check.violation(format!("panic@{}", p.site()), p.msg.clone(), json!({"key_hex": hex(&key), "text": text})),
        }
    }
    // an independent spelling of the same key: upper-case digits are hex too
    let upper = format!("{HDR}{}\n", hex(&key).to_uppercase());
    judge_psk_text(check, &upper, "uppercase");
    check.case(Sig::new().bytes(&key).0, true);
    check.count("psk_roundtrips", 1);
    if take_sample(&S_PSK, 1) {
        check.sample(json!({"kind": "psk-roundtrip", "key_hex": hex(&key)}));
    }
}

fn gen_psk_text(rng: &mut Rng) -> String {
    let wide = ['é', 'ß', '中', '\u{1F600}', '\u{2003}', '\u{a0}', '\u{85}', 'İ', '\u{0301}'];
    let third = |rng: &mut Rng| -> String {
        match rng.usize(6) {
            0 => hex(&rng.bytes(32)),
            1 => {
                // 64 bytes with one wide char somewhere
                let c = *rng.pick(&wide);
                let n = 64 - c.len_utf8();
                let at = rng.usize(n + 1);
                let mut s: String = (0..at).map(|_| *rng.pick(&['0', 'a', 'F', '9'])).collect();
                s.push(c);
                s.extend((at..n).map(|_| *rng.pick(&['0', 'a', 'F', '9'])));
                s
            }
            2 => {
                let n = rng.range(0, 40) as usize;
                (0..n).map(|_| *rng.pick(&wide)).collect()
            }
            3 => {
                let n = rng.range(0, 130) as usize;
                (0..n).map(|_| *rng.pick(&['0', '1', 'a', 'f', 'g', 'x', '+', '-', ' '])).collect()
            }
            4 => {
                // hex digits then trailing (unicode) whitespace that trim_end removes
                let mut s = hex(&rng.bytes(32));
                for _ in 0..rng.range(0, 3) {
                    s.push(*rng.pick(&[' ', '\t', '\u{2003}', '\u{a0}', '\r']));
                }
                s
            }
            _ => {
                let n = rng.range(0, 70) as usize;
                (0..n).map(|_| char::from_u32(rng.below(0x3000) as u32).filter(|c| *c != '\n' && *c != '\r').unwrap_or('q')).collect()
            }
        }
    };
    match rng.usize(8) {
        0 => {
            let n = rng.range(0, 100) as usize;
            (0..n).map(|_| char::from_u32(rng.below(0x800) as u32).unwrap_or('\n')).collect()
        }
        1 => format!("/key/swarm/psk/1.0.0/\r\n/base16/\r\n{}\r\n", third(rng)),
        2 => format!("{}\n/base16/\n{}", third(rng), third(rng)),
        3 => format!("/key/swarm/psk/1.0.0/\n{}\n{}", third(rng), third(rng)),
        4 => format!("{HDR}{}", third(rng)),
        5 => format!("{HDR}{}\n{}\n", third(rng), third(rng)),
        _ => format!("{HDR}{}\n", third(rng)),
    }
}

pub fn run(args: &Args) -> i32 {
    let check = Check::new(
        args,
        "exploration",
        "plaintext: hand-encoded Exchange of 10 claim classes x follow-up lengths {0..20000} x PRNG read schedule, honest side \
         inbound/outbound; honest pairs with early writes; pnet: same-key pairs x PRNG chunk/Pending schedules x pipe capacities \
         x write scripts (chunks 0..20000, flushes) both directions; PreSharedKey: random keys print/parse, generated key-file \
         texts incl. every alignment of 2/3/4-byte UTF-8 characters in a 64-byte key line. non-trivial = case executed its \
         control path (pnet: at least one payload byte); distinct by (message, lengths, schedule)",
    );
    if let Some(path) = &args.replay {
        // replay of a stored witness: key-file texts are self-contained
        let v: vmon::Value = std::fs::read_to_string(path).ok().and_then(|s| serde_json_from(&s)).unwrap_or(vmon::Value::Null);
        match v["witness"]["text"].as_str() {
            Some(t) => {
                judge_psk_text(&check, t, "replay");
                check.nontrivial(1);
                check.nontrivial(2);
            }
            None => check.inconclusive("replay file has no witness.text (only key-file witnesses are replayable)"),
        }
        return check.finish();
    }
    let n_raw = budget(args, 20, 3_000, 60_000);
    vmon::par_cases(&check, n_raw, args.threads, |_, rng| plaintext_raw_case(&check, rng));
    check.note("phase_s_plaintext_raw", json!(check.elapsed()));
    let n_pair = budget(args, 5, 600, 10_000);
    vmon::par_cases(&check, n_pair, args.threads, |_, rng| plaintext_pair_case(&check, rng));
    check.note("phase_s_plaintext_pair", json!(check.elapsed()));
    let n_pnet = budget(args, 10, 800, 30_000);
    vmon::par_cases(&check, n_pnet, args.threads, |_, rng| pnet_case(&check, rng));
    check.note("phase_s_pnet", json!(check.elapsed()));
    let n_rt = budget(args, 10, 2_000, 100_000);
    vmon::par_cases(&check, n_rt, args.threads, |_, rng| psk_roundtrip_case(&check, rng));
    // exhaustive alignments of one wide character inside a 64-byte third line
    let mut aligned = 0u64;
    for c in ['é', '中', '\u{1F600}'] {
        let n = 64 - c.len_utf8();
        for at in 0..=n {
            let mut line = "a".repeat(at);
            line.push(c);
            line.push_str(&"b".repeat(n - at));
            debug_assert_eq!(line.len(), 64);
            for tail in ["\n", ""] {
                judge_psk_text(&check, &format!("{HDR}{line}{tail}"), "aligned-wide-char");
                aligned += 1;
            }
        }
    }
    // all-wide 64-byte lines
    for line in ["é".repeat(32), format!("a{}b", "é".repeat(31)), "中".repeat(21) + "a", "\u{1F600}".repeat(16)] {
        judge_psk_text(&check, &format!("{HDR}{line}\n"), "all-wide");
    }
    check.note("psk_aligned_wide_char_texts", json!(aligned));
    let n_txt = budget(args, 100, 60_000, 2_000_000);
    vmon::par_cases(&check, n_txt, args.threads, |_, rng| {
        let s = gen_psk_text(rng);
        judge_psk_text(&check, &s, "generated");
    });
    check.note("phase_s_psk", json!(check.elapsed()));
    check.note("exhaustive", json!("wide-character alignments in the key line: exhaustive; everything else sampled"));
    check.finish()
}
